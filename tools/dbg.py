#!/usr/bin/env python3
"""tools/dbg.py <relpath> <qualname> [variant] [max_paths] — verify one contract (one variant) with slow-query tracing."""
import sys, json, time, os
sys.path.insert(0, os.path.dirname(os.path.dirname(os.path.abspath(__file__))))
from pyvc import verify, contract, interp, smt, cli
import z3
cli.load_all_contracts()
orig = interp.Interp.check_sat
def cs(self, extra=None, timeout_ms=None):
    t = time.time(); r = orig(self, extra, timeout_ms); dt = time.time() - t
    if dt > 0.3: print("SLOW feas", round(dt, 2), r, str(extra)[:160].replace("\n", " "), flush=True)
    return r
interp.Interp.check_sat = cs
op = smt.prove
def pv(h, g, **k):
    t = time.time(); r = op(h, g, **k); dt = time.time() - t
    if dt > 0.3 or r["status"] != "unsat": print("PROVE", round(dt, 2), r["status"], str(g)[:200].replace("\n", " "), flush=True)
    return r
verify.smt.prove = pv
c = contract.REGISTRY[(sys.argv[1], sys.argv[2])]
v = sys.argv[3] if len(sys.argv) > 3 and sys.argv[3] != "-" else None
c.max_paths = int(sys.argv[4]) if len(sys.argv) > 4 else 10
cfg = {"timeout_ms": 5000}
if v:
    cfg.update(variant=dict(c.variants)[v], variant_label=v)
t = time.time()
r = verify.verify_contract(c, contract.REGISTRY, cfg)
print(round(time.time() - t, 1), "s paths", r["paths"], r["outcomes"], "solver", r["solver_s"], r["solver_calls"], r["out_of_reach"], r["error"])
print({k: (v["status"], v["paths"]) for k, v in r["obligations"].items()})
for k, v in r["obligations"].items():
    if v["status"] != "discharged": print(k, json.dumps(v["failing"], default=str)[:700])
