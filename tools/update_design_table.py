#!/usr/bin/env python3
"""Regenerate the seeded-change table of DESIGN.md (between the SEEDED-TABLE markers) from seeded/*/meta.json."""
import os, re, subprocess, sys
ROOT = os.path.dirname(os.path.dirname(os.path.abspath(__file__)))
t = subprocess.run([sys.executable, os.path.join(ROOT, "tools", "seeded_table.py")], capture_output=True, text=True).stdout
t = "\n".join(l for l in t.splitlines() if not l.startswith("WARNING"))
p = os.path.join(ROOT, "DESIGN.md")
s = open(p).read()
s = re.sub(r"<!-- SEEDED-TABLE-BEGIN -->.*?<!-- SEEDED-TABLE-END -->", "<!-- SEEDED-TABLE-BEGIN -->\n" + t + "\n<!-- SEEDED-TABLE-END -->", s, flags=re.S)
open(p, "w").write(s)
print("table updated:", t.count("\n"), "lines")
