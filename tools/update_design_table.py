#!/usr/bin/env python3
"""Regenerate the seeded-change table of DESIGN.md (between the SEEDED-TABLE markers) from seeded/*/meta.json."""
import os, re, subprocess, sys
ROOT = os.path.dirname(os.path.dirname(os.path.abspath(__file__)))
t = subprocess.run([sys.executable, os.path.join(ROOT, "tools", "seeded_table.py")], capture_output=True, text=True).stdout
t = "\n".join(l for l in t.splitlines() if not l.startswith("WARNING"))
p = os.path.join(ROOT, "DESIGN.md")
s = open(p).read()
s = re.sub(r"<!-- SEEDED-TABLE-BEGIN -->.*?<!-- SEEDED-TABLE-END -->", "<!-- SEEDED-TABLE-BEGIN -->\n" + t + "\n<!-- SEEDED-TABLE-END -->", s, flags=re.S)
# harmless refactorings (seeded/harmless/*/meta.json): every row must be silent
import glob, json
rows = []
for f in sorted(glob.glob(os.path.join(ROOT, "seeded", "harmless", "*", "meta.json"))):
    m = json.load(open(f))
    d = os.path.join(os.path.dirname(f), "description.txt")
    desc = " ".join(open(d).read().split())[:170].replace("|", "/") if os.path.exists(d) else ""
    ck = "; ".join(f"{k}: exit {v['exit']}, {len(v['violations'])} violation(s)" + (f", {v['undecided']} undecided" if v.get("undecided") else "") for k, v in m["checks"].items())
    rows.append(f"| {m['id']} | {desc} | {'yes' if m.get('baseline_ok') else m.get('baseline', '')[:30]} | {ck} | {'silent' if m['silent'] else '**ALARM**'} |")
h = "| patch | refactoring | pinned suite passes | check(s) run on the patched tree | result |\n|---|---|---|---|---|\n" + "\n".join(rows)
h += f"\n\n{sum(1 for r in rows if r.endswith('| silent |'))} of {len(rows)} behaviour-preserving refactorings leave the check of their property silent."
s = re.sub(r"<!-- HARMLESS-TABLE-BEGIN -->.*?<!-- HARMLESS-TABLE-END -->", lambda _: "<!-- HARMLESS-TABLE-BEGIN -->\n" + h + "\n<!-- HARMLESS-TABLE-END -->", s, flags=re.S)
open(p, "w").write(s)
print("table updated:", t.count("\n"), "lines;", len(rows), "harmless rows")
