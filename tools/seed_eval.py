#!/usr/bin/env python3
"""tools/seed_eval.py <dir-with-patch.diff+demo.py+meta.json> <seed-id> [--tier quick|thorough] [--no-baseline] [--props C01,C05]

Confirms a seeded change in a scratch worktree (never /repo): demo passes on the clean tree, fails with the patch, the
pinned test suite still passes with the patch; then runs the registered check(s) of the property against the patched
scratch tree and records everything in /verif/seeded/<seed-id>/ (patch.diff, demo.py, meta.json)."""
import json, os, re, shutil, subprocess, sys

ROOT = os.path.dirname(os.path.dirname(os.path.abspath(__file__)))
S = os.environ.get("SEED_SCRATCH", "/tmp/scr/r")


def sh(cmd, **kw):
    return subprocess.run(cmd, shell=True, capture_output=True, text=True, **kw)


def clean():
    sh(f"git -C {S} checkout -q -- . ; git -C {S} clean -fdq")


def main():
    src, sid = sys.argv[1], sys.argv[2]
    tier = sys.argv[sys.argv.index("--tier") + 1] if "--tier" in sys.argv else "quick"
    meta = json.load(open(os.path.join(src, "meta.json")))
    props = sys.argv[sys.argv.index("--props") + 1].split(",") if "--props" in sys.argv else [meta["property"]]
    if not os.path.isdir(S):
        os.makedirs("/tmp/scr", exist_ok=True)
        sh(f"git -C /repo worktree add -q --detach {S} HEAD")
    sh(f"git -C {S} checkout -q --detach $(git -C /repo rev-parse HEAD)")
    clean()
    env = dict(os.environ, PYTHONPATH=S)
    env.pop("SUIT_GENERATOR_VERIF", None)
    demo = os.path.abspath(os.path.join(src, "demo.py"))
    def run_demo():
        try:
            return subprocess.run(["/venv/bin/python", demo], cwd=S, env=env, capture_output=True, text=True, timeout=300)
        except subprocess.TimeoutExpired as e:  # a demo that hangs under the patch has failed
            return subprocess.CompletedProcess(e.cmd, 124, stdout="", stderr="demo timed out after 300 s")
    r0 = run_demo()
    ap = sh(f"git -C {S} apply {os.path.abspath(os.path.join(src, 'patch.diff'))}")
    if ap.returncode != 0:
        print("PATCH DOES NOT APPLY", ap.stderr)
        return 2
    r1 = run_demo()
    base_ok = None
    if "--no-baseline" not in sys.argv:
        b = sh(f"/venv/bin/python {ROOT}/tools/baseline_check.py {S} -n 8")
        base_ok = b.returncode == 0
        base_line = b.stdout.strip().splitlines()[0] if b.stdout.strip() else b.stderr[-300:]
    else:
        # re-evaluation of a seed whose patch was confirmed against the pinned suite before: keep that record
        base_line = (meta.get("confirmed") or {}).get("baseline_suite_with_patch") or "skipped"
    checks = {}
    tag = re.sub(r"\W", "_", S)
    EV, RP = f"/tmp/scr/evidence{tag}", f"/tmp/scr/replays{tag}"
    os.makedirs(EV, exist_ok=True)
    os.makedirs(RP, exist_ok=True)
    for pid in props:
        e = dict(os.environ, VERIF_EVIDENCE_DIR=EV, VERIF_REPLAY_DIR=RP, VERIF_REPO=S)
        c = subprocess.run([os.path.join(ROOT, "check"), pid, "--tier", tier], cwd=ROOT, env=e, capture_output=True, text=True)
        viol = [l for l in c.stdout.splitlines() if l.startswith("VIOLATION")]
        checks[pid] = {"exit": c.returncode, "violations": [re.sub(r"replay=\S*/", "replay=", v) for v in viol][:12], "summary": c.stdout.strip().splitlines()[-1:] if c.stdout.strip() else [c.stderr[-400:]]}
    clean()
    confirmed = r0.returncode == 0 and r1.returncode != 0 and (base_ok is not False)
    detected = any(v["exit"] == 1 and v["violations"] for v in checks.values())
    out = os.path.join(ROOT, "seeded", sid)
    if confirmed:
        os.makedirs(out, exist_ok=True)
        shutil.copy(os.path.join(src, "patch.diff"), out)
        shutil.copy(demo, out)
        meta.update({"confirmed": {"demo_clean_exit": r0.returncode, "demo_mutant_exit": r1.returncode, "demo_mutant_tail": (r1.stdout + r1.stderr)[-400:],
                                   "baseline_suite_with_patch": base_line},
                     "ran": meta.get("ran"), "checks": checks, "detected": detected, "tier": tier,
                     "how": f"tools/seed_eval.py (scratch worktree {S}, VERIF_REPO): demo on clean tree, demo with patch, tools/baseline_check.py with patch, ./check <id> --tier {tier} with patch"})
        json.dump(meta, open(os.path.join(out, "meta.json"), "w"), indent=1)
    print(json.dumps({"seed": sid, "demo_clean": r0.returncode, "demo_mutant": r1.returncode, "baseline": base_line, "confirmed": confirmed, "detected": detected, "checks": checks}, indent=1))
    return 0


sys.exit(main())
