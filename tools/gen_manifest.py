#!/usr/bin/env python3
"""Regenerate /verif/MANIFEST.json from the table below (kept in one place so that it stays valid at all times)."""
import json, os, sys
ROOT = os.path.dirname(os.path.dirname(os.path.abspath(__file__)))
TECH = "contract-based deductive verification: sidecar contracts on the real functions, own VC generator over the repository's ast, z3/cvc5; counterexamples replayed on the real code"
CHECKS = {
 # id: (category, text, note, design_ref)
 "C01": ("proof", "the real prepare_suit_data / return_processed_binary_data executed symbolically on description shapes with symbolic leaves; every recorded digest is proved to be HASH(declared algorithm, wrapped bytes of the same envelope) for all leaf values, 5 algorithms per field, nesting", "shapes (which members are present) are enumerated, not quantified; hashes and cbor2 are assumed contracts; law A1 used to read the result", "DESIGN.md 3 C01"),
 "C02": ("other", "P: the real create (to_suit_file) executed on 9 description templates with symbolic leaves writes exactly the bytes the reference translation (contracts/refspec.py, written from the CDDL and the pinned registry, interpreted by the same executor) assigns - for all leaf values, hence every CBOR head width; B: the whole grammar (every name, union alternative, nesting, severed text, CWT, nested recipients, width boundaries, random combinations) through library and CLI, JSON and YAML, byte-compared with the natively run reference", "P is per template shape (members/commands present are fixed, leaves universal); other shapes are B only; cbor2.dumps is an assumed contract; the reference translation is the trusted oracle", "DESIGN.md 3 C02"),
 "C04": ("proof", "contracts on Signer.sign_envelope / already_signed_action / SuitKMS.sign: protected header, Sig_structure over the wrapped digest, one block appended, all other members identical, fixed-width r||s for all r, s; bounded real signing with independent verification beside it", "signature validity itself is the library's (assumed); plug-in loading assumed to yield the shipped scripts; CLI main covered by the bounded stand-in", "DESIGN.md 3 C04"),
 "C07": ("other", "E: slot layouts of both SoCs, default assignments, +16 constant; P: sever() over member subsets, as_intelhex placement/fill/domain filter over role subsets (slot overlap proved impossible from the structural hex-map laws); B: whole image-boot flow read back with independent HEX/CBOR readers", "add_envelope's byte search and the re-encoding identity (C03) are decided by the bounded stand-in; IntelHex assumed", "DESIGN.md 3 C07"),
 "C08": ("proof", "finite vocabulary and key-space tables read from the executed class statements and compared completely with the pinned registry; the three lookups proved for a symbolic key over every closed key space", "the pinned registry (contracts/registry.py) is the oracle", "DESIGN.md 3 C08"),
 "C09": ("other", "P: three actions on unsigned/singly-signed input, key-type x algorithm table, refusal before signing, dependency loading; B: recursive configuration trees to depth 3 with real keys", "RecursiveSigner.__init__/recursive_sign (recursion over a JSON tree) are covered by the bounded stand-in only", "DESIGN.md 3 C09"),
 "C15": ("other", "P: curve-instance precondition, requested key kind, both files from the same key, fixed-width X||Y for all coordinates; B: 40 format combinations and the C-array formatting", "which combinations the library refuses and the text formatting loops are decided by running them (bounded)", "DESIGN.md 3 C15"),
 "C05": ("proof", "contracts on the three from_obj overrides (four digest forms, size forms, payload forms) over the ghost file system, dependency digest read off the symbolically created nested envelope; bounded create on real files beside it", "hashes/getsize/open are assumed contracts; dependency given by PATH is re-parsed (C03) and covered by the bounded stand-in; one known finding (hex-like file name)", "DESIGN.md 3 C05"),
 "C06": ("proof", "contracts on the real encryption chain (SuitKMS.encrypt .. cmd_encrypt.encrypt_and_generate/generate_info) discharged for all plaintexts, key ids and digests; bounded CLI round trip with independent decryption beside it", "AES-GCM, os.urandom, hashes, cbor2.dumps are assumed contracts (validated differentially); plug-in loading (importlib) assumed to yield the shipped scripts", "DESIGN.md 3 C06"),
 "C10": ("proof", "contracts on the real CachePartition functions discharged for all erase-block sizes, lengths and contents; bounded stand-in through main() beside it", "relative to the assumed contract of cbor2.dumps and lemmas L-float, L-div; merge/from_payloads loops covered by the bounded stand-in", "DESIGN.md 3 C10"),
 "C11": ("other", "P: payload_extract.main and one level of fill_cache_from_envelope_data for 0..2 (thorough: 3) integrated members with symbolic pattern outcomes, recursion by the function's own contract; B: hierarchies to depth 3 x pattern pairs through the CLI entry points", "members per level unrolled; user regexes are an uninterpreted predicate; cbor2 assumed", "DESIGN.md 3 C11"),
 "C12": ("proof", "record layout and merged-area data flow proved for all names, policies, addresses, sizes and 0..8 input records", "IntelHex (partial-map operations and HEX file encoding), uuid5 and SHA-256 are assumed contracts", "DESIGN.md 3 C12"),
 "C13": ("proof", "the three derivation sites have the same postcondition term UUID5(UUID5(DNS, vendor), class); role lookup and kconfig duplicate rejection proved over a modelled configuration", "uuid.uuid5 uninterpreted (assumed); BuildConfiguration file reading assumed; kconfig modelled for the three configurable roles", "DESIGN.md 3 C13"),
 "C14": ("proof", "published IV == nonce used == the single os.urandom(12) draw, per call; history lemma over the ghost set of used nonces", "freshness of os.urandom is the assumption the distinctness rests on", "DESIGN.md 3 C14"),
 "C16": ("proof", "record bytes and hex-map placement proved for cache counts 0..16 and all 32-bit addresses and sizes", "struct.pack and IntelHex/bin2hex are assumed contracts; Intel-HEX record encoding is inside the IntelHex assumption", "DESIGN.md 3 C16"),
 "C17": ("other", "P: exception-escape analysis of every from_cbor and to_obj reachable from SuitEnvelopeTagged (about 150 class instances of 17+13 functions) on ARBITRARY bytes: cbor2.loads returns an arbitrary value of the Plain sum, children by the interface contract (raises only ValueError/SUITError, payload invariant), loops over decoded containers by declared invariants - any nesting depth, any container size; validate_cbor rejects inflated top-level lengths for all inputs; B: node replacement / truncation / byte edits / length inflation (+RLIMIT_AS probe) / nesting on real envelopes", "time and memory inside cbor2's C decoder and CPython's recursion limit are not decidable by contracts (assumed / bounded probe; deep nesting is a known finding); cbor2.loads' result kinds are an assumed contract", "DESIGN.md 3 C17"),
 "C20": ("proof", "part conversion, ordering lemma (<= 6 fields, all values), sequence-number monotonicity and default-value derivation proved", "int(str)/re.match modelled on ASCII; append_default_version_values verified per half (other half's keys absent)", "DESIGN.md 3 C20"),
}
NOT_YET = {f"C{i:02d}": "machinery for this property is not built yet in this round (no claim made)" for i in range(1, 21)}
NA_FINAL = {}

def main():
    checks, na = [], []
    for pid in sorted(NOT_YET):
        if pid in CHECKS and os.path.exists(os.path.join(ROOT, "contracts")) and any(f.startswith(pid + "_") for f in os.listdir(os.path.join(ROOT, "contracts"))):
            cat, text, note, ref = CHECKS[pid]
            checks.append({"property_id": pid, "quick_cmd": f"./check {pid} --tier quick", "thorough_cmd": f"./check {pid} --tier thorough",
                           "evidence_file": f"/verif/evidence/{pid}.json", "replay_cmd_template": f"./check {pid} --replay {{path}}", "engine": "pyvc",
                           "level_claimed": {"category": cat, "text": text, "design_ref": ref}, "level_note": note, "technique": TECH})
        else:
            na.append({"property_id": pid, "reason": NA_FINAL.get(pid, NOT_YET[pid])})
    m = {"version": 1, "setup_cmd": "./setup.sh",
         "hooks": {"guard": "SUIT_GENERATOR_VERIF", "enable": "no source hooks: contracts are sidecars under /verif/contracts and the function bodies are extracted from /repo's working tree by ast on every run; the checks export SUIT_GENERATOR_VERIF=1 but no repository code reads it",
                   "baseline_off_cmd": "/venv/bin/python /verif/tools/baseline_check.py /repo", "source_commits": [], "add_only": True},
         "engines": [{"name": "pyvc", "path": "/verif/pyvc", "serves_properties": [c["property_id"] for c in checks],
                      "kind_free_text": "own verification-condition generator: Python ast of the real functions -> path-wise symbolic execution against sidecar contracts -> z3/cvc5; counterexamples replayed on the real code under CPython; bounded run-time contract checks as labelled stand-ins"}],
         "checks": checks, "not_applicable": na,
         "notes": "fix: commits in /repo (genuine defects, see /verif/known_findings.json): 5743107 3155335 773bbd4 and the omit-signing fix"}
    json.dump(m, open(os.path.join(ROOT, "MANIFEST.json"), "w"), indent=1)
    print(len(checks), "checks,", len(na), "not applicable")

main()
