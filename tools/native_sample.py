#!/usr/bin/env python3
"""tools/native_sample.py [Cxx ...] — CPython cross-check of contracts: every contract whose parameters can be built natively from
their types is evaluated at run time (pyvc.native.run_case: same clause texts, spec functions bound to independent implementations)
on seeded inputs of the REAL function.  A contract that the verifier discharged but that fails natively means the engine (or a stub)
is unsound for that function: exit 3.  This is a guard of the machinery, not a property check."""
import os, random, sys, tempfile, traceback
ROOT = os.path.dirname(os.path.dirname(os.path.abspath(__file__)))
sys.path.insert(0, ROOT)
from pyvc import cli, contract, replay, native  # noqa: E402
from pyvc.types import T, Int, Bool, Bytes, Str, NoneT, Const, Opt, OneOf, ListT, TupleT, SeqStr, DictT, Obj, PathStr, EnumT, ClsT, Computed, Enc, Lib, TagT  # noqa: E402


class Skip(Exception):
    pass


def gen(t, rng, name, fs):
    """A projected-model-like value for type t (what replay.build_native expects)."""
    if isinstance(t, type) and issubclass(t, T):
        t = t()
    if isinstance(t, Int):
        lo = t.lo if t.lo is not None else -5
        hi = t.hi if t.hi is not None else 2 ** 20
        cands = [v for v in (lo, lo + 1, 0, 1, 2, 7, 8, 15, 16, 23, 24, 25, 26, 27, 48, 49, 100, 255, 256, 65535, 65536, 2 ** 32 - 1, hi - 1, hi) if lo <= v <= hi]
        return rng.choice([v for v in cands if v <= 2 ** 20 or hi <= 2 ** 33 and v in (2 ** 32 - 1,)] + [rng.randint(lo, min(hi, lo + 10 ** 5))])
    if isinstance(t, Bool):
        return rng.random() < 0.5
    if isinstance(t, Bytes):
        n = t.length if isinstance(t.length, int) else rng.choice([0, 1, 2, 15, 16, 17, 23, 24, 25, 26, 27, 28, 40, 255, 256, 300])
        return bytes(rng.randrange(256) for _ in range(n))
    if isinstance(t, Str):
        return rng.choice(["", "a", "#uri", "nordicsemi.com", "x" * 23, "y" * 24, "é中", "1.2.3", "rc", "alpha", "10", "update"])
    if isinstance(t, NoneT):
        return None
    if isinstance(t, Const):
        return t.value
    if isinstance(t, Opt):
        return None if rng.random() < 0.3 else gen(t.t, rng, name, fs)
    if isinstance(t, OneOf):
        a = rng.choice(t.alts)
        return gen(a, rng, name, fs) if isinstance(a, T) or (isinstance(a, type) and issubclass(a, T)) else a
    if isinstance(t, ListT):
        return [gen(e, rng, f"{name}[{i}]", fs) for i, e in enumerate(t.elems)]
    if isinstance(t, TupleT):
        return tuple(gen(e, rng, f"{name}[{i}]", fs) for i, e in enumerate(t.elems))
    if isinstance(t, SeqStr):
        return [gen(Str(), rng, name, fs) for _ in range(rng.randrange(0, 4))]
    if isinstance(t, PathStr):
        exists = t.exists if t.exists is not None else rng.random() < 0.7
        content = bytes(rng.randrange(256) for _ in range(rng.choice([0, 1, 5, 64, 300])))
        fs[f"__fs__{name}"] = [bool(exists), content, ""]
        return "p"
    if isinstance(t, Obj):
        return {k: gen(at, rng, f"{name}.{k}", fs) for k, at in t.attrs.items()}
    if isinstance(t, ClsT):
        return None
    raise Skip(type(t).__name__)


def main():
    pids = [a for a in sys.argv[1:] if not a.startswith("-")]
    cli.load_all_contracts()
    rng = random.Random(int(os.environ.get("VERIF_SEED", "0") or 0))
    total = ran = 0
    problems = []
    for key, c in sorted(contract.REGISTRY.items()):
        if pids and not (set(pids) & set(c.props)):
            continue
        if c.model_only or c.setup is not None or c.ghosts or c.ghost_outs or c.checks and not c.returns_:
            continue
        total += 1
        ok = 0
        try:
            for i in range(25):
                fs = {}
                ptypes = dict(c.params)
                if c.variants:
                    ptypes.update(rng.choice(c.variants)[1] or {})
                cex = {n: gen(ptypes[n], rng, n, fs) for n, _ in c.params}
                cex.update(fs)
                import copy
                c2 = copy.copy(c)
                c2.params = [(n, ptypes[n]) for n, _ in c.params]
                rep = replay.replay_counterexample(c2, replay_json(cex), module=None, timeout_s=20)
                if rep["status"] == "failed":
                    problems.append((c.name, rep["failures"][:2], {k: (v if not isinstance(v, bytes) else v.hex()[:40]) for k, v in cex.items() if not k.startswith("__fs__")}))
                    break
                if rep["status"] in ("passed",):
                    ok += 1
        except Skip as e:
            print(f"  skip {c.name}: no native generator for {e}")
            continue
        except Exception:
            print(f"  error {c.name}: {traceback.format_exc().splitlines()[-1]}")
            continue
        ran += 1
        print(f"  {c.name}: {ok} native evaluations with the precondition true")
    print(f"{ran} of {total} eligible contracts sampled natively; {len(problems)} contract(s) fail natively")
    for p in problems:
        print("NATIVE-MISMATCH", p)
    return 3 if problems else 0


def replay_json(x):
    if isinstance(x, bytes):
        return {"__hex__": x.hex()}
    if isinstance(x, dict):
        return {k: replay_json(v) for k, v in x.items()}
    if isinstance(x, (list, tuple)):
        return [replay_json(v) for v in x]
    return x


sys.exit(main())
