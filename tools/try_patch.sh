#!/bin/bash
# tools/try_patch.sh <patch.diff> <Cxx> [tier]  — apply a patch to a scratch worktree (never /repo) and run a check on it.
set -e
P=$1; ID=$2; TIER=${3:-quick}
S=/tmp/scr/r
if [ ! -d $S ]; then mkdir -p /tmp/scr; git -C /repo worktree add -q --detach $S HEAD; fi
git -C $S checkout -q --detach $(git -C /repo rev-parse HEAD) 2>/dev/null || true
git -C $S checkout -q -- . ; git -C $S clean -fdq
git -C $S apply "$P"
cd /verif; set +e
mkdir -p /tmp/scr/evidence /tmp/scr/replays; VERIF_EVIDENCE_DIR=/tmp/scr/evidence VERIF_REPLAY_DIR=/tmp/scr/replays VERIF_REPO=$S ./check $ID --tier $TIER; echo "exit=$?"
git -C $S checkout -q -- . ; git -C $S clean -fdq
