#!/bin/bash
# tools/run_all.sh [tier] — run every registered check on /repo (regenerates /verif/evidence/*.json)
cd "$(dirname "$0")/.."
TIER=${1:-quick}
for id in $(python3 -c "import json; print(' '.join(c['property_id'] for c in json.load(open('MANIFEST.json'))['checks']))"); do
  ./check $id --tier $TIER 2>&1 | grep -v "^KNOWN-FINDING" | tail -2
done
