#!/usr/bin/env python3
"""tools/seeded_table.py — markdown table of /verif/seeded/*/meta.json (which seeded change is caught by which check/obligation)."""
import glob, json, os, re
ROOT = os.path.dirname(os.path.dirname(os.path.abspath(__file__)))
rows = []
for f in sorted(glob.glob(os.path.join(ROOT, "seeded", "*", "meta.json"))):
    m = json.load(open(f))
    sid = os.path.basename(os.path.dirname(f))
    obs = []
    for pid, c in (m.get("checks") or {}).items():
        for v in c.get("violations", []):
            mm = re.search(r"replay=(\S+?)\.json( no-failing-input-found)?", v)
            if mm:
                name = mm.group(1)
                name = re.sub(r"^C\d\d__", "", name).replace("__", "/")
                obs.append(name[:70] + (" (no input)" if mm.group(2) else ""))
    summ = (m.get("summary") or "").replace("|", "/").replace("\n", " ")
    rows.append((sid, m.get("property"), summ[:150], (m.get("needs") or "").replace("|", "/").replace("\n", " ")[:110], "yes" if m.get("detected") else "**no**", "; ".join(sorted(set(obs))[:3])))
print("| seed | property | change | needs | caught | failing obligation(s) |")
print("|---|---|---|---|---|---|")
for r in rows:
    print("| " + " | ".join(str(x) for x in r) + " |")
print(f"\n{sum(1 for r in rows if r[4] == 'yes')} of {len(rows)} seeded changes are reported by the check of their property.")
