#!/usr/bin/env python3
"""Run the repository's pinned test suite (guard OFF) and compare with /root/.vp/BASELINE.json.

Exit 0 iff every stable_pass test passes. Usage: baseline_check.py [repo_dir] [-n N]
"""
import json, os, subprocess, sys, tempfile, xml.etree.ElementTree as ET

def main():
    repo = sys.argv[1] if len(sys.argv) > 1 and not sys.argv[1].startswith("-") else "/repo"
    n = "12"
    if "-n" in sys.argv:
        n = sys.argv[sys.argv.index("-n") + 1]
    base = json.load(open("/root/.vp/BASELINE.json"))
    stable = set(base["stable_pass"])
    with tempfile.TemporaryDirectory() as td:
        xml = os.path.join(td, "junit.xml")
        env = dict(os.environ)
        env.pop("SUIT_GENERATOR_VERIF", None)
        cmd = ["/venv/bin/python", "-m", "pytest", "-q", "-p", "no:cacheprovider", "--timeout=900",
               "--continue-on-collection-errors", "-n", n, f"--junitxml={xml}"]
        subprocess.run(cmd, cwd=repo, env=env, stdout=subprocess.DEVNULL, stderr=subprocess.DEVNULL)
        passed = set()
        for tc in ET.parse(xml).getroot().iter("testcase"):
            ok = not any(ch.tag in ("failure", "error", "skipped") for ch in tc)
            if ok:
                passed.add(f"{tc.get('classname')}::{tc.get('name')}")
    missing = sorted(stable - passed)
    print(f"stable_pass={len(stable)} passing_now={len(passed)} stable_missing={len(missing)} newly_passing={len(passed - stable)}")
    for m in missing[:40]:
        print("  NOT PASSING:", m)
    sys.exit(1 if missing else 0)

main()
