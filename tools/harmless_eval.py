#!/usr/bin/env python3
"""tools/harmless_eval.py <patch.diff> <id> [--props C01,C18] [--tier quick] [--scratch /tmp/scr/h]

The opposite of seed_eval.py: a behaviour-PRESERVING refactoring of the code under contract must keep every check silent.
Applies the patch in a scratch worktree (never /repo), confirms the pinned test suite still passes, runs the registered
check(s) against the patched tree and records the outcome in /verif/seeded/harmless/<id>/ (patch.diff, description.txt,
meta.json).  A VIOLATION line here is a false alarm of the machinery."""
import json, os, re, shutil, subprocess, sys

ROOT = os.path.dirname(os.path.dirname(os.path.abspath(__file__)))


def sh(cmd, **kw):
    return subprocess.run(cmd, shell=True, capture_output=True, text=True, **kw)


def main():
    patch, hid = os.path.abspath(sys.argv[1]), sys.argv[2]
    S = sys.argv[sys.argv.index("--scratch") + 1] if "--scratch" in sys.argv else "/tmp/scr/h"
    tier = sys.argv[sys.argv.index("--tier") + 1] if "--tier" in sys.argv else "quick"
    props = sys.argv[sys.argv.index("--props") + 1].split(",") if "--props" in sys.argv else [hid.split("-")[0]]
    if not os.path.isdir(S):
        os.makedirs(os.path.dirname(S), exist_ok=True)
        sh(f"git -C /repo worktree add -q --detach {S} HEAD")
    sh(f"git -C {S} checkout -q --detach $(git -C /repo rev-parse HEAD); git -C {S} checkout -q -- . ; git -C {S} clean -fdq")
    ap = sh(f"git -C {S} apply {patch}")
    if ap.returncode != 0:
        print(json.dumps({"id": hid, "error": "patch does not apply", "stderr": ap.stderr[-300:]}))
        return 2
    base_line, base_ok = "skipped", None
    if "--no-baseline" not in sys.argv:
        b = sh(f"/venv/bin/python {ROOT}/tools/baseline_check.py {S} -n 8")
        base_ok = b.returncode == 0
        base_line = b.stdout.strip().splitlines()[0] if b.stdout.strip() else b.stderr[-300:]
    tag = re.sub(r"\W", "_", S)
    ev, rp = f"/tmp/scr/evidence{tag}", f"/tmp/scr/replays{tag}"
    os.makedirs(ev, exist_ok=True)
    os.makedirs(rp, exist_ok=True)
    checks = {}
    for pid in props:
        e = dict(os.environ, VERIF_EVIDENCE_DIR=ev, VERIF_REPLAY_DIR=rp, VERIF_REPO=S)
        c = subprocess.run([os.path.join(ROOT, "check"), pid, "--tier", tier], cwd=ROOT, env=e, capture_output=True, text=True)
        viol = [l for l in c.stdout.splitlines() if l.startswith("VIOLATION")]
        und = None
        try:
            j = json.load(open(os.path.join(ev, pid + ".json")))
            und = len((j.get("coverage") or {}).get("undecided") or [])
        except Exception:
            pass
        checks[pid] = {"exit": c.returncode, "violations": [re.sub(r"replay=\S*/", "replay=", v) for v in viol][:12], "undecided": und,
                       "summary": c.stdout.strip().splitlines()[-1:] if c.stdout.strip() else [c.stderr[-400:]]}
    sh(f"git -C {S} checkout -q -- . ; git -C {S} clean -fdq")
    silent = all(v["exit"] == 0 and not v["violations"] for v in checks.values())
    out = os.path.join(ROOT, "seeded", "harmless", hid)
    os.makedirs(out, exist_ok=True)
    shutil.copy(patch, os.path.join(out, "patch.diff"))
    txt = patch[:-5] + ".txt"
    if os.path.exists(txt):
        shutil.copy(txt, os.path.join(out, "description.txt"))
    meta = {"id": hid, "kind": "harmless", "baseline": base_line, "baseline_ok": base_ok, "tier": tier, "checks": checks, "silent": silent}
    json.dump(meta, open(os.path.join(out, "meta.json"), "w"), indent=1)
    print(json.dumps(meta))
    return 0 if silent else 1


if __name__ == "__main__":
    sys.exit(main())
