"""Bounded stand-in shared by C04 and C09: real signing through cmd_sign.main with harness-generated keys, verified with
independent verifiers (cryptography / pycryptodome) over envelopes assembled with the independent CBOR encoder."""
import hashlib
import importlib
import json
import os

from bounded import cborx

ALGS = {  # name -> (COSE id, key kind)
    "es-256": (-7, "p256"), "es-384": (-35, "p384"), "es-521": (-36, "p521"), "eddsa": (-8, "ed25519"), "hash-eddsa": (-65537, "ed25519"),
}


def make_keys(d):
    from cryptography.hazmat.primitives.asymmetric import ec, ed25519, ed448
    from cryptography.hazmat.primitives import serialization as ser
    keys = {"p256": ec.generate_private_key(ec.SECP256R1()), "p384": ec.generate_private_key(ec.SECP384R1()),
            "p521": ec.generate_private_key(ec.SECP521R1()), "ed25519": ed25519.Ed25519PrivateKey.generate(),
            "ed448": ed448.Ed448PrivateKey.generate(), "ed25519_b": ed25519.Ed25519PrivateKey.generate(),
            "p256_b": ec.generate_private_key(ec.SECP256R1())}
    for name, k in keys.items():
        pem = k.private_bytes(ser.Encoding.PEM, ser.PrivateFormat.PKCS8, ser.NoEncryption())
        with open(os.path.join(d, name + ".pem"), "wb") as fh:
            fh.write(pem)
    return keys


def make_envelope(tag, payloads=(), deps=(), extra=True, seed=0):
    """Envelope bytes: Tag(107, {2: bstr([bstr(digest)]), 3: manifest bstr, (17: bstr,) '#..': bytes ...})."""
    manifest = cborx.encode(cborx.encode({1: 1, 2: seed, 3: cborx.encode({2: [[b"M", tag.encode()]]})}))
    manifest_bstr = cborx.decode_all(manifest)  # the bstr content stored under key 3
    digest = cborx.encode([-16, hashlib.sha256(cborx.encode(manifest_bstr)).digest()])
    pairs = [(2, cborx.encode([digest])), (3, manifest_bstr)]
    if extra:
        pairs.append((17, cborx.encode([20, 2])))
    for name, data in payloads:
        pairs.append((name, data))
    for name, data in deps:
        pairs.append((name, data))
    return cborx.encode(cborx.Tag(107, cborx.Map(pairs)))


def parse(env):
    t = cborx.decode_all(env, strict=True)
    assert isinstance(t, cborx.Tag) and t.tag == 107, "not a tagged envelope"
    return t.value


def blocks(envmap):
    w = cborx.decode_all(envmap.get(2), strict=True)
    return w[0], w[1:]


def verify_block(block, digest_bstr, key, alg, key_id):
    """Independent verification of one COSE_Sign1 authentication block. Returns None or a message."""
    from cryptography.hazmat.primitives.asymmetric import ec, utils
    from cryptography.hazmat.primitives import hashes
    from cryptography.exceptions import InvalidSignature
    t = cborx.decode_all(block, strict=True)
    if not (isinstance(t, cborx.Tag) and t.tag == 18):
        return "authentication block is not tagged COSE_Sign1 (18)"
    if len(t.value) != 4:
        return "COSE_Sign1 is not a 4-element array"
    prot, unprot, payload, sig = t.value
    if not isinstance(prot, bytes) or payload is not None or not isinstance(sig, bytes):
        return "COSE_Sign1 shape wrong (protected bstr, nil payload, signature bstr expected)"
    hdr = cborx.decode_all(prot, strict=True)
    want = cborx.Map([(1, ALGS[alg][0]), (4, cborx.encode(key_id))])
    if hdr != want:
        return f"protected header {hdr!r} != {want!r}"
    tbs = cborx.encode(["Signature1", prot, b"", digest_bstr])
    pub = key.public_key()
    try:
        if alg.startswith("es-"):
            w = (pub.curve.key_size + 7) // 8
            if len(sig) != 2 * w:
                return f"ECDSA signature is {len(sig)} bytes, not fixed-width {2 * w}"
            der = utils.encode_dss_signature(int.from_bytes(sig[:w], "big"), int.from_bytes(sig[w:], "big"))
            h = {256: hashes.SHA256(), 384: hashes.SHA384(), 521: hashes.SHA512()}[pub.curve.key_size]
            pub.verify(der, tbs, ec.ECDSA(h))
        elif alg == "eddsa":
            pub.verify(sig, tbs)
        else:
            from Crypto.PublicKey import ECC
            from Crypto.Signature import eddsa
            from Crypto.Hash import SHA512
            from cryptography.hazmat.primitives import serialization as ser
            pk = ECC.import_key(pub.public_bytes(ser.Encoding.PEM, ser.PublicFormat.SubjectPublicKeyInfo).decode())
            eddsa.new(pk, "rfc8032").verify(SHA512.new(tbs), sig)
    except (InvalidSignature, ValueError) as e:
        return f"signature does not verify under the matching public key: {type(e).__name__}"
    return None


def same_except_wrapper(before, after):
    kb, ka = [k for k in before.keys() if k != 2], [k for k in after.keys() if k != 2]
    if before.keys() != after.keys():
        return f"member keys changed: {before.keys()} -> {after.keys()}"
    for k in kb:
        if before.get(k) != after.get(k):
            return f"member {k!r} not byte-identical"
    return None


def cmd_sign():
    return importlib.import_module("suit_generator.cmd_sign")


def enums():
    b = importlib.import_module("suit_generator.suit_sign_script_base")
    return b.SuitSignAlgorithms, b.SignatureAlreadyPresentActions


CONTEXT_FORM = {"form": "path"}  # how the key directory is named to the KMS: "path" | "json-absolute" | "json-relative" (relative to the working directory)


def _context(d):
    import json
    f = CONTEXT_FORM["form"]
    if f == "json-absolute":
        return json.dumps({"keys_directory": d})
    if f == "json-relative":
        return json.dumps({"keys_directory": os.path.relpath(d, os.getcwd())})
    return d


def single_level(repo, d, env_bytes, key_name, key_id, alg, action="error"):
    from pathlib import Path
    A, ACT = enums()
    inp, out = os.path.join(d, "in.suit"), os.path.join(d, "out.suit")
    with open(inp, "wb") as fh:
        fh.write(env_bytes)
    if os.path.exists(out):
        os.unlink(out)
    cmd_sign().main(sign_subcommand="single-level", input_envelope=Path(inp), output_envelope=Path(out), key_name=key_name, key_id=key_id,
                    alg=A(alg), context=_context(d), sign_script=f"{repo}/ncs/sign_script.py", kms_script=f"{repo}/ncs/basic_kms.py",
                    already_signed_action=ACT(action))
    with open(out, "rb") as fh:
        return fh.read()


def recursive(repo, d, env_bytes, config):
    from pathlib import Path
    inp, out, cfg = os.path.join(d, "rin.suit"), os.path.join(d, "rout.suit"), os.path.join(d, "cfg.json")
    with open(inp, "wb") as fh:
        fh.write(env_bytes)
    if os.path.exists(out):
        os.unlink(out)
    with open(cfg, "w") as fh:
        json.dump(config, fh)
    cmd_sign().main(sign_subcommand="recursive", input_envelope=Path(inp), output_envelope=Path(out), configuration=Path(cfg))
    with open(out, "rb") as fh:
        return fh.read()


def check_single(repo, d, keys, env_bytes, alg, key_id, signed_before=None):
    """Sign (unsigned input) and check C04's statement. Returns (message or None, signed bytes or None)."""
    kind = ALGS[alg][1]
    try:
        out = single_level(repo, d, env_bytes, kind, key_id, alg)
    except Exception as e:  # noqa: BLE001
        return f"signing raised {type(e).__name__}: {e}", None
    before, after = parse(env_bytes), parse(out)
    m = same_except_wrapper(before, after)
    if m:
        return m, out
    d0, b0 = blocks(before)
    d1, b1 = blocks(after)
    if d1 != d0:
        return "digest element changed", out
    if b1[:-1] != b0 or len(b1) != len(b0) + 1:
        return f"expected exactly one block appended ({len(b0)} -> {len(b1)})", out
    return verify_block(b1[-1], d1, keys[kind], alg, key_id), out
