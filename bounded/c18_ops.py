"""Operations whose outputs C18 compares between (a) a permuted in-process sequence and (b) one fresh interpreter per operation.

Run as a script:  python c18_ops.py <repo> <workdir> <outdir> <op-name>   -> writes the op's output files into <outdir>.
Every input lives under <workdir> (absolute paths); prepared by prepare(workdir)."""
import json
import os
import sys


def prepare(work):
    import yaml
    sys.path.insert(0, os.path.dirname(os.path.dirname(os.path.abspath(__file__))))
    from bounded import gen_desc as G
    import random
    rng = random.Random(11)
    os.makedirs(work, exist_ok=True)
    descs = {}
    for i in range(4):
        d = G.envelope(rng, severed=["suit-install", "suit-text"] if i % 2 else [], n_auth=i % 3)
        descs[f"d{i}"] = d
        json.dump(d, open(f"{work}/d{i}.json", "w"))
        yaml.safe_dump(d, open(f"{work}/d{i}.yaml", "w"), sort_keys=False)
    # referenced files: digest / size / payload by path (absolute)
    open(f"{work}/fw.bin", "wb").write(bytes(range(256)) * 5)
    open(f"{work}/fw2.bin", "wb").write(b"second" * 100)
    fdesc = {"SUIT_Envelope_Tagged": {
        "suit-authentication-wrapper": {"SuitDigest": {"suit-digest-algorithm-id": "cose-alg-sha-256"}},
        "suit-manifest": {"suit-manifest-version": 1, "suit-manifest-sequence-number": 3, "suit-common": {"suit-components": [["M", 2]]},
                          "suit-install": [{"suit-directive-override-parameters": {
                              "suit-parameter-image-digest": {"suit-digest-algorithm-id": "cose-alg-sha-512", "suit-digest-bytes": {"file": f"{work}/fw.bin"}},
                              "suit-parameter-image-size": {"file": f"{work}/fw2.bin"}}}]},
        "suit-integrated-payloads": {"#fw": f"{work}/fw.bin"}}}
    json.dump(fdesc, open(f"{work}/files.json", "w"))
    # a hierarchy with three dependency envelopes, each with payloads (cache creation recurses over them)
    def env(tag, payloads, deps=None):
        e = {"SUIT_Envelope_Tagged": {"suit-authentication-wrapper": {"SuitDigest": {"suit-digest-algorithm-id": "cose-alg-sha-256"}},
                                      "suit-manifest": {"suit-manifest-version": 1, "suit-manifest-sequence-number": 1, "suit-common": {"suit-components": [["M", tag]]}},
                                      "suit-integrated-payloads": {k: v.hex().upper() for k, v in payloads.items()}}}
        if deps:
            e["SUIT_Envelope_Tagged"]["suit-integrated-dependencies"] = deps
        return e
    deps = {f"#dep_{n}.suit": env(i, {f"#{n}_p{j}": bytes([i + j]) * (10 + 7 * j) for j in range(2)}) for i, n in enumerate(["radio", "app", "zeta", "alpha"])}
    root = env(9, {"#root_p": b"\x55" * 33}, deps)
    json.dump(root, open(f"{work}/hier.json", "w"))
    # two hierarchies whose dependency envelopes have DIFFERENT names (hierarchical parses must not see each other's entries)
    for tag, dnames in (("hierA", ["#alpha.suit", "#beta.suit"]), ("hierB", ["#gamma.suit"])):
        h = env(1, {"#p_" + tag: b"\x01\x02"}, {n: env(i + 2, {f"#{tag}_{i}": bytes([i]) * 4}) for i, n in enumerate(dnames)})
        json.dump(h, open(f"{work}/{tag}.json", "w"))
    # short inline hex payloads (strings that could also be FILE names in some working directory)
    hexd = env(3, {})
    hexd["SUIT_Envelope_Tagged"]["suit-integrated-payloads"] = {"#config": "C0FFEE", "#ab": "AB", "#zero": "00"}
    json.dump(hexd, open(f"{work}/hexpayloads.json", "w"))
    for n, (vendor, cls) in enumerate([("nordicsemi.com", "nRF54H20_sample_app"), ("nordicsemi.com", "nRF54H20_sample_rad"), ("acme.com", "acme_app")]):
        d = {"SUIT_Envelope_Tagged": {"suit-authentication-wrapper": {"SuitDigest": {"suit-digest-algorithm-id": "cose-alg-sha-256"}},
                                      "suit-manifest": {"suit-manifest-version": 1, "suit-manifest-sequence-number": n + 1,
                                                        "suit-common": {"suit-components": [["M", 2]]},
                                                        "suit-manifest-component-id": ["INSTLD_MFST", {"RFC4122_UUID": {"namespace": vendor, "name": cls}}]}}}
        json.dump(d, open(f"{work}/boot{n}.json", "w"))
    open(f"{work}/kconfig_a", "w").write('SB_CONFIG_SUIT_MPI_APP_LOCAL_2_VENDOR_NAME="acme.com"\nSB_CONFIG_SUIT_MPI_APP_LOCAL_2_CLASS_NAME="acme_app"\n')
    open(f"{work}/kconfig_b", "w").write('SB_CONFIG_SUIT_MPI_RAD_LOCAL_2_VENDOR_NAME="acme.com"\nSB_CONFIG_SUIT_MPI_RAD_LOCAL_2_CLASS_NAME="acme_app"\n')
    return sorted(OPS)


def _create(work, out, name, fmt):
    from suit_generator import cmd_create
    cmd_create.main(input_file=f"{work}/{name}.{fmt}", input_format="AUTO", output_file=f"{out}/{name}.suit")


def op_create_json(work, out, i):
    _create(work, out, f"d{i}", "json")


def op_create_yaml(work, out, i):
    _create(work, out, f"d{i}", "yaml")


def op_create_files(work, out):
    _create(work, out, "files", "json")


def op_parse(work, out, i):
    from suit_generator import cmd_create, cmd_parse
    cmd_create.main(input_file=f"{work}/d{i}.json", input_format="AUTO", output_file=f"{out}/p{i}.suit")
    cmd_parse.main(input_file=f"{out}/p{i}.suit", output_file=f"{out}/p{i}.yaml", output_format="AUTO", parse_hierarchy=False)
    cmd_parse.main(input_file=f"{out}/p{i}.suit", output_file=f"{out}/p{i}.json", output_format="AUTO", parse_hierarchy=True)


def op_parse_hier_yaml(work, out, tag):
    from suit_generator import cmd_create, cmd_parse
    cmd_create.main(input_file=f"{work}/{tag}.json", input_format="AUTO", output_file=f"{out}/{tag}.suit")
    cmd_parse.main(input_file=f"{out}/{tag}.suit", output_file=f"{out}/{tag}.yaml", output_format="AUTO", parse_hierarchy=True)
    cmd_parse.main(input_file=f"{out}/{tag}.suit", output_file=f"{out}/{tag}_flat.yaml", output_format="AUTO", parse_hierarchy=False)


def op_create_hexpayloads(work, out):
    _create(work, out, "hexpayloads", "json")


def op_mpi(work, out, vendor, cls):
    from suit_generator import cmd_mpi
    cmd_mpi.MpiGenerator.generate(f"{out}/mpi.hex", vendor, cls, 0x0E1EEC00, 48, True, False, "update")


def op_cache_from_envelope(work, out):
    from suit_generator import cmd_create, cmd_cache_create
    cmd_create.main(input_file=f"{work}/hier.json", input_format="AUTO", output_file=f"{out}/hier.suit")
    cmd_cache_create.main(cache_create_subcommand="from_envelope", eb_size=16, input_envelope=f"{out}/hier.suit", output_envelope=f"{out}/stripped.suit",
                          output_file=f"{out}/hier.cache", omit_payload_regex=None, dependency_regex="#dep_.*")


def op_cache_from_payloads(work, out):
    from suit_generator import cmd_cache_create
    cmd_cache_create.main(cache_create_subcommand="from_payloads", eb_size=8, output_file=f"{out}/p.cache",
                          input=[f"#a,{work}/fw.bin", f"#b,{work}/fw2.bin"])


def _boot(work, out, cfg, which):
    from suit_generator import cmd_create, cmd_image
    files = []
    for n in which:
        cmd_create.main(input_file=f"{work}/boot{n}.json", input_format="AUTO", output_file=f"{out}/boot{n}.suit")
        files.append(f"{out}/boot{n}.suit")
    cmd_image.ImageCreator.create_files_for_boot(files, out, 0x0E1ED000, cfg, "nrf54h20")


def op_boot_defaults(work, out):
    _boot(work, out, None, [0, 1])


def op_boot_config_a(work, out):
    # the configuration is read from ONE path whose content is (re)written by the operation itself: a result cached by path
    # in an earlier operation of the same process would leak into this one
    import shutil
    shutil.copy(f"{work}/kconfig_a", f"{work}/kconfig")
    _boot(work, out, f"{work}/kconfig", [2])


def op_boot_config_b(work, out):
    import shutil
    shutil.copy(f"{work}/kconfig_b", f"{work}/kconfig")
    _boot(work, out, f"{work}/kconfig", [2])


def op_update(work, out):
    from suit_generator import cmd_create, cmd_image
    cmd_create.main(input_file=f"{work}/d1.json", input_format="AUTO", output_file=f"{out}/u.suit")
    cmd_image.ImageCreator.create_files_for_update(f"{out}/u.suit", f"{out}/storage.hex", f"{out}/dfu.hex", 0x0E1EEC00, 0x0E100000, 4)


OPS = {
    "create-json-0": (op_create_json, (0,)), "create-json-1": (op_create_json, (1,)), "create-json-2": (op_create_json, (2,)), "create-json-3": (op_create_json, (3,)),
    "create-yaml-0": (op_create_yaml, (0,)), "create-yaml-1": (op_create_yaml, (1,)), "create-yaml-2": (op_create_yaml, (2,)), "create-yaml-3": (op_create_yaml, (3,)),
    "create-with-files": (op_create_files, ()), "parse-0": (op_parse, (0,)), "parse-1": (op_parse, (1,)),
    "parse-hierarchy-yaml-A": (op_parse_hier_yaml, ("hierA",)), "parse-hierarchy-yaml-B": (op_parse_hier_yaml, ("hierB",)), "create-hex-payloads": (op_create_hexpayloads, ()),
    "mpi-app": (op_mpi, ("nordicsemi.com", "nRF54H20_sample_app")), "mpi-acme": (op_mpi, ("acme.com", "nRF54H20_sample_app")),
    "cache-from-envelope": (op_cache_from_envelope, ()), "cache-from-payloads": (op_cache_from_payloads, ()),
    "boot-defaults": (op_boot_defaults, ()), "boot-config-a": (op_boot_config_a, ()), "boot-config-b": (op_boot_config_b, ()), "update": (op_update, ()),
}


def run_op(name, work, out):
    os.makedirs(out, exist_ok=True)
    f, args = OPS[name]
    f(work, out, *args)


def outputs(out):
    res = {}
    for fn in sorted(os.listdir(out)):
        with open(os.path.join(out, fn), "rb") as fh:
            res[fn] = fh.read()
    return res


if __name__ == "__main__":
    repo, work, out, name = sys.argv[1:5]
    sys.path.insert(0, repo)
    import logging
    logging.disable(logging.CRITICAL)
    import suit_generator
    assert os.path.realpath(suit_generator.__file__).startswith(os.path.realpath(repo)), suit_generator.__file__
    if len(sys.argv) > 5:
        os.chdir(sys.argv[5])
    run_op(name, work, out)
