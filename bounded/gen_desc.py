"""Enumerator / sampler of envelope descriptions over the grammar of the description language (shared by C01/C02/C03/C08).

Deterministic given the seed.  Every name of every key space occurs at least once in `systematic()`; `sample(rng)` draws
random combinations with integers and lengths at the CBOR width boundaries.  No file references (those are C05's)."""
import random

from contracts import registry as R

ALGS = ["cose-alg-sha-256", "cose-alg-shake128", "cose-alg-sha-384", "cose-alg-sha-512", "cose-alg-shake256"]
ALG_SIZE = {"cose-alg-sha-256": 32, "cose-alg-shake128": 16, "cose-alg-sha-384": 48, "cose-alg-sha-512": 64, "cose-alg-shake256": 32}
POLICY = [R.name_of(c) for c in R.SPACES["report_policy"]]
CONDITIONS = [R.name_of(c) for c in R.SPACES["condition"]]
SIMPLE_DIRECTIVES = ["suit-directive-write", "suit-directive-fetch", "suit-directive-copy", "suit-directive-invoke", "suit-directive-swap",
                     "suit-directive-process-dependency", "suit-directive-unlink"]
SIGN_ALGS = ["cose-alg-es-256", "cose-alg-es-384", "cose-alg-es-521", "cose-alg-eddsa", "cose-alg-vs-hash-eddsa"]
ENC_ALGS = ["cose-alg-aes-gcm-128", "cose-alg-aes-gcm-192", "cose-alg-aes-gcm-256"]
KW_ALGS = ["cose-alg-a256kw", "cose-alg-a192kw", "cose-alg-a128kw", "cose-alg-direct"]
WIDTH_INTS = [0, 1, 23, 24, 255, 256, 65535, 65536, 2 ** 32 - 1, 2 ** 32, 2 ** 63, 2 ** 64 - 1]
WITH_CWT = True
WIDTH_LENS = [0, 1, 22, 23, 24, 255, 256]


def hexs(rng, n):
    return bytes(rng.randrange(256) for _ in range(n)).hex()


def digest(rng, alg=None, wrong=True):
    alg = alg or rng.choice(ALGS)
    return {"suit-digest-algorithm-id": alg, "suit-digest-bytes": hexs(rng, ALG_SIZE[alg])}


def policy(rng):
    k = rng.randrange(0, len(POLICY) + 1)
    return rng.sample(POLICY, k)


def uuid_form(rng):
    return rng.choice([{"RFC4122_UUID": "nordicsemi.com"}, {"RFC4122_UUID": {"namespace": "nordicsemi.com", "name": "nRF54H20_sample_app"}},
                       {"RFC4122_UUID": {"name": "only-name"}}, {"raw": hexs(rng, 16)}, {"RFC4122_UUID": "vendor-é中"}])


def text(rng, n=None):
    n = rng.choice(WIDTH_LENS) if n is None else n
    # mostly plain characters; now and then characters that text formats treat specially (quotes, newline, NEL, line separator, non-ASCII)
    return "".join(rng.choice("abcXYZ09-_/:. ") if rng.random() < 0.93 else rng.choice(["\u00e9", "\u0085", "\u2028", '"', "'", "#", "\n", "\t", "\\", "\u4e2d", "{", "*", "&"]) for _ in range(n))


def component_id(rng):
    parts = []
    for _ in range(rng.randrange(0, 4)):
        parts.append(rng.choice([rng.choice("MIDCAXamz"), rng.choice(WIDTH_INTS[:9]), -rng.choice([1, 24, 25, 256]), "text" + text(rng, rng.choice([0, 20, 21, 30])),
                                 uuid_form(rng)]))
    return parts


def key_id(rng):
    return rng.choice([rng.choice(WIDTH_INTS[:10]), 0x7FFFFFE0, hexs(rng, rng.choice([1, 4, 24]))])


def header(rng, algs, iv=False, empty_ok=True):
    h = {}
    if not empty_ok or rng.random() < 0.8:
        h["suit-cose-algorithm-id"] = rng.choice(algs)
    if rng.random() < 0.7:
        h["suit-cose-key-id"] = key_id(rng)
    if iv and rng.random() < 0.6:
        h["suit-cose-iv"] = hexs(rng, 12)
    return h


def recipient(rng, depth=0):
    r = {"protected": rng.choice([{}, "", header(rng, KW_ALGS)]), "unprotected": header(rng, KW_ALGS), "ciphertext": rng.choice([None, hexs(rng, 24), hexs(rng, 1), ""])}
    if depth < 2 and rng.random() < 0.4:
        r["recipients"] = [recipient(rng, depth + 1) for _ in range(rng.randrange(1, 3))]
    return r


def encryption_info(rng):
    return {"CoseEncryptTagged": {"protected": header(rng, ENC_ALGS, empty_ok=False), "unprotected": header(rng, ENC_ALGS, iv=True), "ciphertext": rng.choice([None, hexs(rng, 5), ""]),
                                  "recipients": [recipient(rng) for _ in range(rng.randrange(0, 3))]}}


def version_list(rng):
    return rng.choice([[1], [1, 2, 3], [1, 0, 0, -1, 2], [rng.choice(WIDTH_INTS[:8]) for _ in range(rng.randrange(1, 5))], "1.2.3", "2.0.0-rc.1", "1.0-alpha", "10.20.30-beta.256"])


def normalise_version(v):
    """What the description means (the reference takes the integer list; the string form is C20's)."""
    if isinstance(v, str):
        m = {"alpha": -3, "beta": -2, "rc": -1}
        return [m[p] if p in m else int(p) for p in v.replace("-", ".").split(".")]
    return v


PARAMETER_MAKERS = {
    "suit-parameter-vendor-identifier": uuid_form, "suit-parameter-class-identifier": uuid_form, "suit-parameter-device-identifier": uuid_form,
    "suit-parameter-image-digest": digest,
    "suit-parameter-component-slot": lambda rng: rng.choice(WIDTH_INTS), "suit-parameter-source-component": lambda rng: rng.choice(WIDTH_INTS[:6]),
    "suit-parameter-strict-order": lambda rng: rng.random() < 0.5, "suit-parameter-soft-failure": lambda rng: rng.random() < 0.5,
    "suit-parameter-image-size": lambda rng: {"raw": rng.choice(WIDTH_INTS)},
    "suit-parameter-content": lambda rng: rng.choice([hexs(rng, rng.choice([1, 3, 24, 300])), rng.choice(WIDTH_INTS[:10])]),
    "suit-parameter-encryption-info": encryption_info,
    "suit-parameter-uri": lambda rng: rng.choice(["#file", "http://example.com/" + text(rng), text(rng)]),
    "suit-parameter-invoke-args": lambda rng: rng.choice([{"suit-synchronous-invoke": True, "suit-timeout": rng.choice(WIDTH_INTS[:9])}, {"suit-timeout": 5}, {"suit-synchronous-invoke": False}]),
    "suit-parameter-version": lambda rng: {rng.choice([R.name_of(c) for c in R.SPACES["version_comparison"]]): version_list(rng)},
}


def parameters(rng, names=None):
    names = names if names is not None else rng.sample(sorted(PARAMETER_MAKERS), rng.randrange(1, 5))
    return {n: PARAMETER_MAKERS[n](rng) for n in names}


def command(rng, depth=0, name=None):
    kinds = CONDITIONS + SIMPLE_DIRECTIVES + ["suit-directive-set-component-index", "suit-directive-set-parameters", "suit-directive-override-parameters"]
    if depth < 3:
        kinds = kinds + ["suit-directive-try-each", "suit-directive-run-sequence"]
    name = name or rng.choice(kinds)
    if name in CONDITIONS or name in SIMPLE_DIRECTIVES:
        return {name: policy(rng)}
    if name == "suit-directive-set-component-index":
        return {name: rng.choice([0, 1, 255, 256, True, False, [0, 1], [rng.choice(WIDTH_INTS[:7])], []])}
    if name in ("suit-directive-set-parameters", "suit-directive-override-parameters"):
        return {name: parameters(rng)}
    if name == "suit-directive-try-each":
        return {name: [sequence(rng, depth + 1, rng.randrange(0, 3)) for _ in range(rng.randrange(1, 4))]}
    return {name: sequence(rng, depth + 1, rng.randrange(0, 3))}


def sequence(rng, depth=0, n=None):
    n = rng.randrange(0, 5) if n is None else n
    return [command(rng, depth) for _ in range(n)]


def text_map(rng):
    tm = {}
    for lang in rng.sample(["en", "de", "pl-PL", ""], rng.randrange(1, 3)):
        lm = {}
        for k in rng.sample([R.name_of(c) for c in R.SPACES["text"]], rng.randrange(0, 5)):
            lm[k] = text(rng)
        for comp in rng.sample(['["M", 2]', '["I"]', '["text-part", 300]', '[]'], rng.randrange(0, 3)):
            lm[comp] = {k: text(rng) for k in rng.sample([R.name_of(c) for c in R.SPACES["text_component"]], rng.randrange(0, 7))}
        tm[lang] = lm
    return tm


def cwt(rng):
    c = {}
    for k in rng.sample(["Issuer", "Subject", "Audience"], rng.randrange(0, 4)):
        c[k] = text(rng, rng.choice([0, 5, 24]))
    for k in rng.sample(["Expiration Time", "Not Before", "Issued At"], rng.randrange(0, 4)):
        c[k] = rng.choice([0, 1700000000, -5, 2 ** 32])
    if rng.random() < 0.4:
        c["CW ID"] = hexs(rng, 4)
    return c


def auth_block(rng, with_cwt=True):
    return {"CoseSign1Tagged": {"protected": header(rng, SIGN_ALGS), "unprotected": header(rng, SIGN_ALGS) if rng.random() < 0.3 else {},
                                "payload": cwt(rng) if with_cwt and WITH_CWT and rng.random() < 0.35 else None, "signature": hexs(rng, rng.choice([0, 64, 96, 132]))}}


def manifest(rng, severed=(), members=None, env_has=()):
    m = {"suit-manifest-version": 1, "suit-manifest-sequence-number": rng.choice(WIDTH_INTS)}
    common = {}
    if rng.random() < 0.4:
        common["suit-dependencies"] = {str(i): ({"suit-dependency-prefix": component_id(rng)} if rng.random() < 0.6 else {}) for i in rng.sample([0, 1, 2, 24, 300], rng.randrange(1, 3))}
    common["suit-components"] = [component_id(rng) for _ in range(rng.randrange(1, 4))]
    if rng.random() < 0.8:
        common["suit-shared-sequence"] = sequence(rng)
    m["suit-common"] = common
    optional = ["suit-reference-uri", "suit-manifest-component-id", "suit-current-version", "suit-validate", "suit-load", "suit-invoke", "suit_uninstall",
                "suit-payload-fetch", "suit-install", "suit-install-legacy", "suit-dependency-resolution", "suit-candidate-verification"]
    chosen = members if members is not None else rng.sample(optional, rng.randrange(0, 7))
    for k in optional:
        if k in severed:
            m[k] = digest(rng)
            continue
        if k not in chosen:
            continue
        if k == "suit-reference-uri":
            m[k] = "http://" + text(rng)
        elif k == "suit-manifest-component-id":
            m[k] = component_id(rng)
        elif k == "suit-current-version":
            m[k] = normalise_version(version_list(rng))
        else:
            m[k] = sequence(rng)
    if "suit-text" in severed:
        m["suit-text"] = digest(rng)
    return m


SEVERABLE = ["suit-payload-fetch", "suit-install", "suit-install-legacy", "suit-dependency-resolution", "suit-candidate-verification", "suit-text"]


def envelope(rng, depth=0, severed=None, absent=(), n_auth=None, members=None):
    """{'SUIT_Envelope_Tagged': {...}}; `severed`: members referenced by digest; `absent`: severed members NOT carried in the envelope."""
    severed = rng.sample(SEVERABLE, rng.randrange(0, 4)) if severed is None else list(severed)
    e = {}
    n_auth = rng.randrange(0, 3) if n_auth is None else n_auth
    aw = {"SuitDigest": digest(rng)}
    names = [f"SuitAuthentication{i}" for i in range(n_auth)]
    if n_auth >= 2 and rng.random() < 0.5:
        names = rng.sample(["SuitAuthenticationVendor", "SuitAuthenticationOperator", "SuitAuthentication10", "SuitAuthentication2", "SuitAuthenticationA"], n_auth)
    for nm in names:
        aw[nm] = auth_block(rng)
    e["suit-authentication-wrapper"] = aw
    e["suit-manifest"] = manifest(rng, severed=severed, members=members)
    for k in SEVERABLE:
        if k in severed and k not in absent:
            e[k] = text_map(rng) if k == "suit-text" else sequence(rng, 0, rng.randrange(1, 5))
    if rng.random() < 0.5:
        e["suit-integrated-payloads"] = {f"#p{i}": hexs(rng, rng.choice([0, 1, 23, 24, 300])).upper() for i in range(rng.randrange(1, 3))}
    if depth < 2 and rng.random() < 0.35:
        e["suit-integrated-dependencies"] = {f"#dep{i}.suit": envelope(rng, depth + 1) for i in range(rng.randrange(1, 3))}
    # member order in the description is the order on the wire: shuffle the optional members sometimes
    if rng.random() < 0.3:
        keys = list(e)
        rng.shuffle(keys)
        e = {k: e[k] for k in keys}
    return {"SUIT_Envelope_Tagged": e}


def systematic(seed=0):
    """Descriptions that together use every name of every key space, every union alternative and every width boundary."""
    rng = random.Random(seed)
    out = []
    # every condition / simple directive with every policy subset size
    seq = [{c: POLICY[: i % 5]} for i, c in enumerate(CONDITIONS + SIMPLE_DIRECTIVES)]
    for idx in [0, 255, 256, True, False, [0, 1, 2], []]:
        seq.append({"suit-directive-set-component-index": idx})
    # one ITEM holding several commands of one family (the language accepts it; every command is emitted, in order)
    seq.append({CONDITIONS[0]: POLICY[:1], CONDITIONS[1]: POLICY[:2], CONDITIONS[2]: []})
    seq.append({SIMPLE_DIRECTIVES[0]: [], SIMPLE_DIRECTIVES[1]: POLICY[:1]})
    seq.append({"suit-directive-try-each": [[{CONDITIONS[0]: [], CONDITIONS[1]: POLICY[:1]}], []]})
    e = envelope(rng, severed=[], n_auth=0, members=[])
    e["SUIT_Envelope_Tagged"]["suit-manifest"]["suit-validate"] = seq
    out.append(("all-conditions-and-simple-directives", e))
    # every parameter, one per override / set
    for i, p in enumerate(sorted(PARAMETER_MAKERS)):
        for rep in range(3):
            e = envelope(rng, severed=[], n_auth=0, members=[])
            d = "suit-directive-override-parameters" if (i + rep) % 2 else "suit-directive-set-parameters"
            e["SUIT_Envelope_Tagged"]["suit-manifest"]["suit-install"] = [{d: {p: PARAMETER_MAKERS[p](rng)}}]
            out.append((f"parameter-{p}-{rep}", e))
    # a text map with every text key and every component text key; every COSE algorithm / header key; invoke args; dependency prefix
    e = envelope(rng, severed=["suit-text"], n_auth=0, members=[])
    e["SUIT_Envelope_Tagged"]["suit-text"] = {"en": {**{R.name_of(c): "t%d" % i for i, c in enumerate(R.SPACES["text"])},
                                                     '["M", 2]': {R.name_of(c): "c%d" % i for i, c in enumerate(R.SPACES["text_component"])}}}
    out.append(("full-text-map", e))
    for i, alg in enumerate(ENC_ALGS + KW_ALGS):
        e = envelope(rng, severed=[], n_auth=0, members=[])
        hdr = {"suit-cose-algorithm-id": alg, "suit-cose-key-id": 7, "suit-cose-iv": "00" * 12}
        e["SUIT_Envelope_Tagged"]["suit-manifest"]["suit-install"] = [{"suit-directive-override-parameters": {"suit-parameter-encryption-info": {"CoseEncryptTagged": {
            "protected": {"suit-cose-algorithm-id": ENC_ALGS[i % 3]}, "unprotected": hdr, "ciphertext": None,
            "recipients": [{"protected": {"suit-cose-algorithm-id": alg}, "unprotected": {"suit-cose-key-id": "0a"}, "ciphertext": [None, "", "00ff"][i % 3]}]}},
            "suit-parameter-invoke-args": {"suit-synchronous-invoke": True, "suit-timeout": 1}}}]
        e["SUIT_Envelope_Tagged"]["suit-manifest"]["suit-common"]["suit-dependencies"] = {"0": {"suit-dependency-prefix": ["M"]}}
        e["SUIT_Envelope_Tagged"]["suit-manifest"]["suit-common"]["suit-shared-sequence"] = [{"suit-condition-abort": []}]
        out.append((f"cose-{alg}", e))
    # single-character component parts: every ASCII letter, both cases
    e = envelope(rng, severed=[], n_auth=0, members=[])
    e["SUIT_Envelope_Tagged"]["suit-manifest"]["suit-common"]["suit-components"] = [[ch, i] for i, ch in enumerate("AMZamz")] + [[ch for ch in "IbQ"]]
    out.append(("single-letter-component-parts", e))
    # text with characters that YAML / JSON treat specially, in every text position
    e = envelope(rng, severed=["suit-text"], n_auth=0, members=[])
    special = "a\u0085b\u2028c \u00e9\u4e2d 'q' \"d\" #h: - {x} *y &z\ttab\nnl\\bs "
    e["SUIT_Envelope_Tagged"]["suit-text"] = {"en": {"suit-text-manifest-description": special, '["M", 2]': {"suit-text-vendor-name": special}}}
    e["SUIT_Envelope_Tagged"]["suit-manifest"]["suit-reference-uri"] = special
    e["SUIT_Envelope_Tagged"]["suit-manifest"]["suit-common"]["suit-components"] = [["M", special]]
    e["SUIT_Envelope_Tagged"]["suit-integrated-payloads"] = {"#" + special: "00"}
    out.append(("special-characters-in-text", e))
    # integrated PAYLOADS whose bytes merely LOOK like an envelope (they start with the tag 107 head d8 6b but are not one): they are payloads, in every
    # parse mode - neither listed as dependencies nor expanded as a hierarchy
    e = envelope(rng, severed=[], n_auth=0, members=[])
    e["SUIT_Envelope_Tagged"]["suit-integrated-payloads"] = {"#tag-only": "D86B", "#truncated-map": "D86BA2024958", "#tag-then-noise": "D86B" + hexs(rng, 20).upper(),
                                                              "#plain": "0102"}
    out.append(("payloads-that-start-like-an-envelope", e))
    # every version comparison name
    e = envelope(rng, severed=[], n_auth=0, members=[])
    e["SUIT_Envelope_Tagged"]["suit-manifest"]["suit-validate"] = [{"suit-directive-override-parameters": {"suit-parameter-version": {R.name_of(c): [1, i]}}} for i, c in enumerate(R.SPACES["version_comparison"])]
    out.append(("all-version-comparisons", e))
    # all parameters together
    e = envelope(rng, severed=[], n_auth=1, members=[])
    e["SUIT_Envelope_Tagged"]["suit-manifest"]["suit-load"] = [{"suit-directive-override-parameters": parameters(rng, sorted(PARAMETER_MAKERS))}]
    out.append(("all-parameters", e))
    # nesting of try-each / run-sequence to depth 4
    inner = [{"suit-condition-abort": []}]
    for lvl in range(4):
        inner = [{"suit-directive-try-each": [inner, []]}, {"suit-directive-run-sequence": inner}]
    e = envelope(rng, severed=[], n_auth=0, members=[])
    e["SUIT_Envelope_Tagged"]["suit-manifest"]["suit-invoke"] = inner
    out.append(("nesting-depth-4", e))
    # every manifest member, every severable member severed / unsevered / absent
    for sev in ([], SEVERABLE, SEVERABLE[:3], SEVERABLE[3:]):
        out.append((f"all-members-severed-{len(sev)}", envelope(rng, severed=sev, n_auth=2, members=["suit-reference-uri", "suit-manifest-component-id", "suit-current-version", "suit-validate",
                                                                                                 "suit-load", "suit-invoke", "suit_uninstall"] + [k for k in SEVERABLE[:5] if k not in sev])))
    out.append(("severed-but-absent", envelope(rng, severed=["suit-text", "suit-install", "suit-payload-fetch"], absent=["suit-text", "suit-payload-fetch"], n_auth=0)))
    # sign algorithms x key id forms, CWT payloads with every claim
    for alg in SIGN_ALGS:
        e = envelope(rng, severed=[], n_auth=0, members=[])
        e["SUIT_Envelope_Tagged"]["suit-authentication-wrapper"]["SuitAuthentication0"] = {"CoseSign1Tagged": {
            "protected": {"suit-cose-algorithm-id": alg, "suit-cose-key-id": key_id(rng)}, "unprotected": {}, "payload": None, "signature": hexs(rng, 64)}}
        out.append((f"auth-{alg}", e))
    e = envelope(rng, severed=[], n_auth=0, members=[])
    e["SUIT_Envelope_Tagged"]["suit-authentication-wrapper"]["SuitAuthentication0"] = {"CoseSign1Tagged": {
        "protected": {"suit-cose-algorithm-id": "cose-alg-es-256"}, "unprotected": {"suit-cose-key-id": "0a0b"},
        "payload": {"Issuer": "iss", "Subject": "sub", "Audience": "aud", "Expiration Time": 10, "Not Before": 1, "Issued At": 5, "CW ID": "01ff"}, "signature": "00"}}
    out.append(("cwt-payload-all-claims", e))
    # many authentication blocks, names not in lexicographic order (wire order = description order)
    e = envelope(rng, severed=[], n_auth=0, members=[])
    for i in range(11):
        e["SUIT_Envelope_Tagged"]["suit-authentication-wrapper"][f"SuitAuthentication{i}"] = auth_block(rng, with_cwt=False)
    out.append(("eleven-auth-blocks", e))
    # digest algorithms for the wrapper
    for alg in ALGS:
        e = envelope(rng, severed=["suit-install"], n_auth=0)
        e["SUIT_Envelope_Tagged"]["suit-authentication-wrapper"]["SuitDigest"]["suit-digest-algorithm-id"] = alg
        e["SUIT_Envelope_Tagged"]["suit-authentication-wrapper"]["SuitDigest"]["suit-digest-bytes"] = "00" * ALG_SIZE[alg]
        out.append((f"wrapper-{alg}", e))
    return out


def sized_manifest_envelope(rng, target, alg="cose-alg-sha-256"):
    """An envelope whose manifest encoding has EXACTLY `target` bytes (padding through the reference URI), for the bstr header widths."""
    return None


def sample(seed, n):
    rng = random.Random(seed)
    return [(f"random-{seed}-{i}", envelope(rng)) for i in range(n)]
