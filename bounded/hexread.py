"""Independent Intel HEX reader (does not import intelhex): text -> dict address -> byte."""


class HexError(ValueError):
    pass


def parse(text):
    if isinstance(text, bytes):
        text = text.decode("ascii")
    mem = {}
    base = 0
    eof = False
    for ln, line in enumerate(text.splitlines(), 1):
        line = line.strip()
        if not line:
            continue
        if eof:
            raise HexError(f"data after EOF record at line {ln}")
        if line[0] != ":":
            raise HexError(f"line {ln} does not start with ':'")
        raw = bytes.fromhex(line[1:])
        if len(raw) < 5 or len(raw) != raw[0] + 5:
            raise HexError(f"bad record length at line {ln}")
        if sum(raw) & 0xFF:
            raise HexError(f"bad checksum at line {ln}")
        n, addr, typ, data = raw[0], raw[1] * 256 + raw[2], raw[3], raw[4:-1]
        if typ == 0:
            for i, x in enumerate(data):
                a = base + addr + i
                if a in mem:
                    raise HexError(f"address {a:#x} written twice")
                mem[a] = x
        elif typ == 1:
            eof = True
        elif typ == 2:
            base = (data[0] * 256 + data[1]) * 16
        elif typ == 4:
            base = (data[0] * 256 + data[1]) << 16
        elif typ in (3, 5):
            pass  # start addresses carry no data
        else:
            raise HexError(f"unknown record type {typ} at line {ln}")
    if not eof:
        raise HexError("missing EOF record")
    return mem


def parse_file(path):
    with open(path, "r") as fh:
        return parse(fh.read())


def contiguous(mem):
    """Sorted list of (start, bytes) runs."""
    out = []
    for a in sorted(mem):
        if out and out[-1][0] + len(out[-1][1]) == a:
            out[-1][1].append(mem[a])
        else:
            out.append([a, bytearray([mem[a]])])
    return [(a, bytes(b)) for a, b in out]
