"""Small helper for bounded stand-ins: counts evaluations / distinct non-trivial cases, collects failures and samples."""
import json
import os
import random
import shutil
import tempfile
import time


class Bounded:
    def __init__(self, ctx, rule, bound, budget_s=None):
        self.ctx = ctx
        self.rule = rule
        self.bound = bound
        self.tier = ctx["tier"]
        self.rng = random.Random(ctx["seed"])
        self.evaluations = 0
        self.distinct = set()
        self.failures = []
        self.samples = []
        self.t0 = time.time()
        self.budget_s = budget_s
        self.tmp = tempfile.mkdtemp(prefix="verif_bounded_")
        self.truncated = False

    def out_of_time(self):
        if self.budget_s is not None and time.time() - self.t0 > self.budget_s:
            self.truncated = True
            return True
        return False

    def case(self, key, nontrivial=True, sample=None):
        """Register one evaluated case; key identifies it for the distinct count."""
        self.evaluations += 1
        if nontrivial:
            self.distinct.add(key if isinstance(key, (str, int, tuple)) else json.dumps(key, sort_keys=True, default=str))
        if sample is not None and len(self.samples) < 5:
            self.samples.append(sample)

    def fail(self, label, case, observed):
        if len(self.failures) < 20:
            self.failures.append({"label": label, "case": case, "observed": observed})

    def path(self, name):
        return os.path.join(self.tmp, name)

    def fresh_dir(self, name):
        d = os.path.join(self.tmp, name)
        shutil.rmtree(d, ignore_errors=True)
        os.makedirs(d)
        return d

    def done(self):
        shutil.rmtree(self.tmp, ignore_errors=True)
        return {"evaluations": self.evaluations, "distinct_nontrivial": len(self.distinct), "rule": self.rule,
                "bound": self.bound, "samples": self.samples, "failures": self.failures,
                "truncated_by_time_budget": self.truncated, "wall_s": round(time.time() - self.t0, 2),
                "label": "bounded (run-time contract evaluation on the real code; never counted as proved)"}
