"""Independent CBOR reader/encoder (does not import cbor2). Used as the oracle of native clause evaluation.

decode(b, off=0) -> (value, next_offset); values: int, bytes, str, list, Map (ordered pairs), Tag, None, bool, float, Simple.
Indefinite-length items are supported on decoding (needed for the DFU cache format).
"""
import struct


class Tag:
    def __init__(self, tag, value):
        self.tag, self.value = tag, value

    def __eq__(self, o):
        return isinstance(o, Tag) and (self.tag, self.value) == (o.tag, o.value)

    def __repr__(self):
        return f"Tag({self.tag}, {self.value!r})"


class Map:
    """Ordered list of (key, value) pairs; duplicates are kept (a dict would hide them)."""

    def __init__(self, pairs, indefinite=False):
        self.pairs = list(pairs)
        self.indefinite = indefinite

    def get(self, k, default=None):
        for kk, v in self.pairs:
            if type(kk) is type(k) and kk == k:
                return v
        return default

    def __contains__(self, k):
        return any(type(kk) is type(k) and kk == k for kk, _ in self.pairs)

    def keys(self):
        return [k for k, _ in self.pairs]

    def __eq__(self, o):
        return isinstance(o, Map) and self.pairs == o.pairs

    def __repr__(self):
        return "Map(" + repr(self.pairs) + ")"


class DecodeError(ValueError):
    pass


def head(major, n):
    if n < 24:
        return bytes([major * 32 + n])
    if n < 2 ** 8:
        return bytes([major * 32 + 24, n])
    if n < 2 ** 16:
        return bytes([major * 32 + 25]) + n.to_bytes(2, "big")
    if n < 2 ** 32:
        return bytes([major * 32 + 26]) + n.to_bytes(4, "big")
    if n < 2 ** 64:
        return bytes([major * 32 + 27]) + n.to_bytes(8, "big")
    raise OverflowError("cbor head")


def encode(v):
    """Definite-length, shortest-form (RFC 8949 preferred serialisation), map entries in given order."""
    if v is None:
        return b"\xf6"
    if v is True:
        return b"\xf5"
    if v is False:
        return b"\xf4"
    if isinstance(v, int):
        return head(0, v) if v >= 0 else head(1, -1 - v)
    if isinstance(v, (bytes, bytearray)):
        return head(2, len(v)) + bytes(v)
    if isinstance(v, str):
        u = v.encode("utf-8")
        return head(3, len(u)) + u
    if isinstance(v, (list, tuple)):
        return head(4, len(v)) + b"".join(encode(x) for x in v)
    if isinstance(v, Map):
        return head(5, len(v.pairs)) + b"".join(encode(k) + encode(x) for k, x in v.pairs)
    if isinstance(v, dict):
        return head(5, len(v)) + b"".join(encode(k) + encode(x) for k, x in v.items())
    if isinstance(v, Tag):
        return head(6, v.tag) + encode(v.value)
    if hasattr(v, "tag") and hasattr(v, "value"):  # cbor2.CBORTag duck-typed
        return head(6, v.tag) + encode(v.value)
    raise TypeError(f"cannot encode {type(v)}")


def _arg(b, off, info):
    if info < 24:
        return info, off
    if info == 24:
        w = 1
    elif info == 25:
        w = 2
    elif info == 26:
        w = 4
    elif info == 27:
        w = 8
    else:
        raise DecodeError(f"reserved additional info {info} at {off - 1}")
    if off + w > len(b):
        raise DecodeError("truncated head")
    return int.from_bytes(b[off:off + w], "big"), off + w


def decode(b, off=0, strict=False, depth=0):
    """strict=True additionally rejects non-shortest heads and indefinite lengths."""
    if depth > 900:
        raise DecodeError("too deep")
    if off >= len(b):
        raise DecodeError("truncated item")
    ib = b[off]
    major, info = ib >> 5, ib & 31
    off += 1
    if major == 7:
        if info < 20:
            return ("simple", info), off
        if info == 20:
            return False, off
        if info == 21:
            return True, off
        if info == 22:
            return None, off
        if info == 23:
            return ("undefined",), off
        if info == 24:
            return ("simple", b[off]), off + 1
        if info == 25:
            return struct.unpack(">e", b[off:off + 2])[0], off + 2
        if info == 26:
            return struct.unpack(">f", b[off:off + 4])[0], off + 4
        if info == 27:
            return struct.unpack(">d", b[off:off + 8])[0], off + 8
        raise DecodeError("break outside indefinite item")
    if info == 31:
        if strict:
            raise DecodeError("indefinite length in strict mode")
        if major in (2, 3):
            chunks = []
            while True:
                if off >= len(b):
                    raise DecodeError("truncated indefinite string")
                if b[off] == 0xFF:
                    off += 1
                    break
                c, off = decode(b, off, strict, depth + 1)
                chunks.append(c)
            return (b"".join(chunks) if major == 2 else "".join(chunks)), off
        if major == 4:
            items = []
            while True:
                if off >= len(b):
                    raise DecodeError("truncated indefinite array")
                if b[off] == 0xFF:
                    return items, off + 1
                x, off = decode(b, off, strict, depth + 1)
                items.append(x)
        if major == 5:
            pairs = []
            while True:
                if off >= len(b):
                    raise DecodeError("truncated indefinite map")
                if b[off] == 0xFF:
                    return Map(pairs, indefinite=True), off + 1
                k, off = decode(b, off, strict, depth + 1)
                v, off = decode(b, off, strict, depth + 1)
                pairs.append((k, v))
        raise DecodeError("indefinite length for this major type")
    n, off2 = _arg(b, off, info)
    if strict and head(major if major != 1 else 1, n) != bytes(b[off - 1:off2]):
        raise DecodeError(f"non-shortest head at {off - 1}")
    off = off2
    if major == 0:
        return n, off
    if major == 1:
        return -1 - n, off
    if major in (2, 3):
        if off + n > len(b):
            raise DecodeError("truncated string")
        raw = bytes(b[off:off + n])
        if major == 3:
            try:
                return raw.decode("utf-8"), off + n
            except UnicodeDecodeError as e:
                raise DecodeError(str(e))
        return raw, off + n
    if major == 4:
        items = []
        for _ in range(n):
            x, off = decode(b, off, strict, depth + 1)
            items.append(x)
        return items, off
    if major == 5:
        pairs = []
        for _ in range(n):
            k, off = decode(b, off, strict, depth + 1)
            v, off = decode(b, off, strict, depth + 1)
            pairs.append((k, v))
        return Map(pairs), off
    if major == 6:
        v, off = decode(b, off, strict, depth + 1)
        return Tag(n, v), off
    raise DecodeError("unreachable")


def decode_all(b, strict=False):
    v, off = decode(b, 0, strict)
    if off != len(b):
        raise DecodeError(f"trailing bytes: {len(b) - off}")
    return v


def item_span(b, off=0):
    """(start, end) byte offsets of the item starting at off."""
    _, end = decode(b, off)
    return off, end
