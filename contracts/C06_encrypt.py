"""C06 (+ C14) — encryption artifacts are mutually consistent; every encryption uses a fresh IV (contracts)."""
import z3
from pyvc.contract import Contract
from pyvc.types import Int, Bool, Bytes, Str, Obj, PathStr, OneOf, ListT, NoneT, Const, DictT, EnumT, Lib, Opt, TupleT

PROPERTY = "C06"
LEVEL = "proof"
FK = "ncs/basic_kms.py"
FE = "ncs/encrypt_script.py"
FC = "suit_generator/cmd_encrypt.py"
FB = "suit_generator/suit_encrypt_script_base.py"

KMS = Obj(FK, "SuitKMS", keys_directory=Lib("Path", s=Str()))
KEYFILE = "pathstr(self.keys_directory) + '/' + key_name + '.bin'"
KEY_ID = Int(-2 ** 64, 2 ** 64 - 1)


def single_fresh_nonce(it, ctx):
    """C14: exactly one os.urandom draw in this call; it is the nonce handed to AES-GCM and the nonce returned/published."""
    draws = it.urandom_draws
    encs = [t for t in it.trace if t[0] == "aesgcm-encrypt"]
    if ctx.outcome != "return":
        return None
    goals = [("one_urandom_draw", z3.BoolVal(len(draws) == 1)), ("one_encryption", z3.BoolVal(len(encs) == 1))]
    if len(draws) == 1 and len(encs) == 1:
        goals.append(("nonce_is_the_draw", encs[0][2].e == draws[0].e))
    return goals


# ------------------------------------------------------------------------------------------------
c = Contract(FK, "SuitKMS.encrypt", ["C06", "C14"])
c.param("self", KMS)
c.param("plaintext", Bytes())
c.param("key_name", Str())
c.param("context", Opt(Str()))
c.param("aad", Bytes())
c.returns("nonce_len", "len(result[0]) == 12 and len(result[1]) == 16 and len(result[2]) == len(plaintext)")
c.returns("ciphertext_and_tag", "result[2] + result[1] == AESGCM_ENC(old(FILE(" + KEYFILE + ")), result[0], plaintext, aad)")
c.check("fresh_nonce", lambda it, ctx: (single_fresh_nonce(it, ctx) or []) + ([("returned_nonce_is_the_draw", ctx.result.items[0].e == it.urandom_draws[0].e)] if ctx.outcome == "return" and len(it.urandom_draws) == 1 else []))
c.raises("FileNotFoundError")
c.raises("ValueError", when="not (len(FILE(" + KEYFILE + ")) == 16 or len(FILE(" + KEYFILE + ")) == 24 or len(FILE(" + KEYFILE + ")) == 32)", label="bad_key_length", must=False)
c.result(TupleT([Bytes(12), Bytes(16), Bytes()]))

# ------------------------------------------------------------------------------------------------
ENCRYPTOR = Obj(FE, "Encryptor", cose_kw_alg=OneOf(-6, -5), kms=KMS)

c = Contract(FE, "Encryptor.generate_kms_artifacts", ["C06", "C14"])
c.param("self", ENCRYPTOR)
c.param("asset_plaintext", Bytes())
c.param("key_name", Str())
c.param("context", Opt(Str()))
c.let("keyfile", "pathstr(self.kms.keys_directory) + '/' + key_name + '.bin'")
c.returns("asset_layout", "len(result[0]) == 28 + len(asset_plaintext)")
c.returns("aad_is_enc_structure", "result[0][28:] + result[0][12:28] == AESGCM_ENC(old(FILE(keyfile)), result[0][:12], asset_plaintext, enc_structure())")
c.returns("direct_has_no_cek", "result[1] is None and self.cose_kw_alg == -6")
c.raises("ValueError")
c.raises("FileNotFoundError")
c.result(TupleT([Bytes(), NoneT()]))

c = Contract(FE, "Encryptor.parse_encrypted_assets", ["C06"])
c.param("self", Obj(FE, "Encryptor"))
c.param("asset_bytes", Bytes())
c.requires("long_enough", "len(asset_bytes) >= 28")
c.returns("split_lossless", "result[0] + result[1] + result[2] == asset_bytes")
c.returns("widths", "len(result[0]) == 12 and len(result[1]) == 16")
c.returns("parts", "result[0] == asset_bytes[:12] and result[1] == asset_bytes[12:28] and result[2] == asset_bytes[28:]")
c.result(TupleT([Bytes(12), Bytes(16), Bytes()]))

c = Contract(FE, "Encryptor.generate_encrypted_payload", ["C06"])
c.param("self", Obj(FE, "Encryptor"))
c.param("encrypted_content", Bytes())
c.param("tag", Bytes())
c.returns("tag_first", "result == tag + encrypted_content")
c.result(Bytes())

c = Contract(FE, "Encryptor.generate_suit_encryption_info", ["C06", "C14"])
c.param("self", Obj(FE, "Encryptor", cose_kw_alg=OneOf(-6, -5)))
c.param("iv", Bytes())
c.param("encrypted_cek", Opt(Bytes()))
c.param("key_id", KEY_ID)
c.returns("cose_encrypt", "result == encryption_info(iv, self.cose_kw_alg, key_id, encrypted_cek)")
c.result(Bytes())

c = Contract(FE, "Encryptor.generate_encryption_info_and_encrypted_payload", ["C06", "C14"])
c.param("self", Obj(FE, "Encryptor", cose_kw_alg=OneOf(-6, -5)))
c.param("encrypted_asset", Bytes())
c.param("encrypted_cek", Opt(Bytes()))
c.param("key_id", KEY_ID)
c.requires("long_enough", "len(encrypted_asset) >= 28")
c.returns("content", "result[0] == encrypted_asset[28:]")
c.returns("tag", "result[1] == encrypted_asset[12:28]")
c.returns("info_publishes_iv", "result[2] == encryption_info(encrypted_asset[:12], self.cose_kw_alg, key_id, encrypted_cek)")
c.result(TupleT([Bytes(), Bytes(16), Bytes()]))

# `self` may have served EARLIER calls (history havoc): the attributes the class assigns hold arbitrary values on entry, so state that leaks from
# one request into the next (a key-wrap algorithm that sticks) fails the postconditions - this is also C18's clause for encryption
c = Contract(FE, "Encryptor._kw_alg_convert", ["C06", "C18"])
c.param("self", ENCRYPTOR)
c.param("kw_alg", EnumT(FB, "SuitKWAlgorithms"))
c.returns("kw", "self.cose_kw_alg == (-5 if kw_alg.value == 'aes-kw-256' else -6)")
c.modifies(**{"self.cose_kw_alg": OneOf(-6, -5)})

# assumed (body out of reach: importlib): loads the KMS script and initialises it with the context
# VERIFIED against the importlib model (contracts/C04_sign.plugin_checks): the KMS module is loaded from exactly the given script path, its suit_kms_factory is
# called once, the object it returns becomes self.kms and is initialised once with the context of THIS request.  Assumed: the file is the shipped
# ncs/basic_kms.py and SuitKMS.init_kms derives the key directory from the context (clause keys_dir, assumed at call sites, not proved here).
import contracts.C04_sign as _C04  # noqa: E402
c = Contract(FE, "Encryptor.init_kms_backend", ["C06", "C14"])
c.param("self", ENCRYPTOR)
c.param("kms_script", Str())
c.param("context", Opt(Str()))
c.variants = [("plug-in", {})]
_st, _ck = _C04.plugin_checks("suit_kms_factory", "kms_script", FK, "SuitKMS", init_call="SuitKMS.init_kms", context_of=lambda it, ctx: ctx.arg("context"))
c.setup = _st
c.check("loading", _ck)
c.modifies(**{"self.kms": KMS})
c.returns("keys_dir", "pathstr(self.kms.keys_directory) == KEYS_DIR(context)", assumed_only=True)
c.raises("ValueError")
c.raises("FileNotFoundError")

c = Contract(FE, "Encryptor.encrypt_and_generate", ["C06", "C14", "C18"])
c.param("self", ENCRYPTOR)
c.param("firmware", Bytes())
c.param("key_name", Str())
c.param("key_id", KEY_ID)
c.param("context", Opt(Str()))
c.param("hash_alg", EnumT(FB, "SuitDigestAlgorithms"))
c.param("kw_alg", EnumT(FB, "SuitKWAlgorithms"))
c.param("kms_script", Str())
c.let("keyfile", "KEYS_DIR(context) + '/' + key_name + '.bin'")
c.returns("digest_of_plaintext", "result[3] == HASH(digest_alg(hash_alg.value)[0], digest_alg(hash_alg.value)[1], firmware) and result[4] == len(firmware)")
c.returns("tag_len", "len(result[1]) == 16 and len(result[0]) == len(firmware)")
c.returns("direct_only", "kw_alg.value == 'direct'")
def _iv_witness(callee):
    """Ghost result IV: the nonce the ciphertext was produced with. Witness when verifying the function itself:
    taken from the (single) call of `callee` on this path; if the callee was inlined, the single os.urandom draw."""
    def w(it, ctx):
        calls = [t for t in it.trace if t[0] == "call" and t[1] == callee]
        if len(calls) == 1:
            env, res = calls[0][2], calls[0][3]
            if "IV" in env:
                return env["IV"]
            ctx.env.set("ASSET__", res.items[0])
            return ctx.eval("ASSET__[:12]")
        if len(it.urandom_draws) == 1:
            return it.urandom_draws[0]
        return None
    return w


c.ghost_out("IV", Bytes(12), _iv_witness("Encryptor.generate_kms_artifacts"), native="result[2][14:26]")
c.returns("info_publishes_the_nonce_used", "result[2] == encryption_info(IV, -6, key_id, None)")
c.returns("decrypts_to_firmware", "result[0] + result[1] == AESGCM_ENC(old(FILE(keyfile)), IV, firmware, enc_structure())")
c.raises("ValueError")
c.raises("FileNotFoundError")
c.result(TupleT([Bytes(), Bytes(16), Bytes(), Bytes(), Int()]))

c = Contract(FE, "Encryptor.generate", ["C06", "C18"])
c.param("self", ENCRYPTOR)
c.param("encrypted_asset", Bytes())
c.param("encrypted_cek", Opt(Bytes()))
c.param("key_id", KEY_ID)
c.param("kw_alg", EnumT(FB, "SuitKWAlgorithms"))
c.requires("long_enough", "len(encrypted_asset) >= 28")
c.returns("split", "result[0] == encrypted_asset[28:] and result[1] == encrypted_asset[12:28]")
c.returns("info", "result[2] == encryption_info(encrypted_asset[:12], (-5 if kw_alg.value == 'aes-kw-256' else -6), key_id, encrypted_cek)")
c.raises("ValueError", when="kw_alg.value == 'aes-kw-256' and encrypted_cek is None", label="kw_without_cek")
c.result(TupleT([Bytes(), Bytes(16), Bytes()]))


# assumed (body out of reach: importlib): the encrypt script is the shipped ncs/encrypt_script.py
c = Contract(FC, "_import_encryptor", ["C06", "C14"])
c.param("encrypt_script", Str())
c.variants = [("plug-in", {})]
_st2, _ck2 = _C04.plugin_checks("suit_encryptor_factory", "encrypt_script", FE, "Encryptor")
c.setup = _st2
c.check("loading", _ck2)
c.result(Obj(FE, "Encryptor"))
c.raises("ValueError")
c.raises("FileNotFoundError")

c = Contract(FC, "encrypt_and_generate", ["C06", "C14"])
for name, t in (("encrypt_script", Str()), ("firmware", PathStr()), ("key_name", Str()), ("key_id", KEY_ID), ("context", Opt(Str())),
                ("hash_alg", EnumT(FB, "SuitDigestAlgorithms")), ("kw_alg", EnumT(FB, "SuitKWAlgorithms")), ("kms_script", Str()),
                ("output_dir", Str())):
    c.param(name, t)
c.let("keyfile", "KEYS_DIR(context) + '/' + key_name + '.bin'")
c.let("out_digest", "output_dir + '/plain_text_digest.bin'")
c.let("out_size", "output_dir + '/plain_text_size.txt'")
c.let("out_info", "output_dir + '/suit_encryption_info.bin'")
c.let("out_content", "output_dir + '/encrypted_content.bin'")
c.requires("outputs_do_not_alias_inputs", "firmware != out_digest and firmware != out_size and firmware != out_info and firmware != out_content "
                                          "and keyfile != out_digest and keyfile != out_size and keyfile != out_info and keyfile != out_content")
c.returns("digest_file", "FILE(out_digest) == HASH(digest_alg(hash_alg.value)[0], digest_alg(hash_alg.value)[1], old(FILE(firmware)))")
c.returns("size_file", "TEXTFILE(out_size) == str(len(old(FILE(firmware))))")
c.ghost_out("IV", Bytes(12), _iv_witness("Encryptor.encrypt_and_generate"), native="FILE(out_info)[14:26]")
c.returns("info_file", "FILE(out_info) == encryption_info(IV, -6, key_id, None)")
c.returns("content_file_tag_then_ciphertext",
          "FILE(out_content)[16:] + FILE(out_content)[:16] == AESGCM_ENC(old(FILE(keyfile)), IV, old(FILE(firmware)), enc_structure())")
c.raises("ValueError")
c.raises("FileNotFoundError")

c = Contract(FC, "generate_info", ["C06"])
for name, t in (("encrypt_script", Str()), ("encrypted_firmware", PathStr()), ("encrypted_key", PathStr()), ("key_id", KEY_ID),
                ("kw_alg", EnumT(FB, "SuitKWAlgorithms")), ("output_dir", Str())):
    c.param(name, t)
c.let("out_info", "output_dir + '/suit_encryption_info.bin'")
c.let("out_content", "output_dir + '/encrypted_content.bin'")
c.requires("long_enough", "len(FILE(encrypted_firmware)) >= 28")
c.requires("outputs_do_not_alias_inputs", "encrypted_firmware != out_info and encrypted_firmware != out_content and encrypted_key != out_info and encrypted_key != out_content")
c.returns("content_unaltered", "FILE(out_content) == old(FILE(encrypted_firmware))[12:]")
c.returns("info", "FILE(out_info) == encryption_info(old(FILE(encrypted_firmware))[:12], (-5 if kw_alg.value == 'aes-kw-256' else -6), key_id, old(FILE(encrypted_key)))")
c.raises("ValueError")
c.raises("FileNotFoundError")


# ------------------------------------------------------------------------------------------------
# The command entry point cmd_encrypt.main: dispatches on the subcommand and hands EVERY named argument on unchanged.
import contracts.C00_common as C00  # noqa: E402
_EG_ARGS = ("encrypt_script", "firmware", "key_name", "key_id", "context", "hash_alg", "kw_alg", "kms_script", "output_dir")
_GI_ARGS = ("encrypt_script", "encrypted_firmware", "encrypted_key", "key_id", "kw_alg", "output_dir")


def _encrypt_main_setup(it, env):
    it.call_site_summaries = {"encrypt_and_generate": C00.recording_summary("encrypt_and_generate", ("ValueError", "FileNotFoundError")),
                              "generate_info": C00.recording_summary("generate_info", ("ValueError", "FileNotFoundError"))}


c = Contract(FC, "main", ["C06", "C14"])
c.param("encrypt_subcommand", Const("encrypt-and-generate"))
for name, t in (("encrypt_script", Str()), ("firmware", Str()), ("key_name", Str()), ("key_id", KEY_ID), ("context", Opt(Str())), ("hash_alg", Str()), ("kw_alg", Str()),
                ("kms_script", Str()), ("output_dir", Str()), ("encrypted_firmware", Str()), ("encrypted_key", Str())):
    c.param(name, t)
c.variants = [("encrypt-and-generate", {}), ("generate-info", {"encrypt_subcommand": Const("generate-info")})]
c.call_by_keyword = True
c.setup = _encrypt_main_setup


def _encrypt_main_checks(it, ctx):
    import z3
    if ctx.outcome != "return":
        return None
    eg, gi = C00.calls_of(it, "encrypt_and_generate"), C00.calls_of(it, "generate_info")
    if ctx.arg("encrypt_subcommand").conc == "encrypt-and-generate":
        goals = [("encrypts_once_and_nothing_else", z3.BoolVal(len(eg) == 1 and not gi))]
        if len(eg) == 1:
            kw = eg[0][2].get("kwargs")
            goals += [(f"{n}_handed_on_unchanged", C00.same_value(kw.entries[n].value, ctx.arg(n)) if kw is not None and n in kw.entries else z3.BoolVal(False)) for n in _EG_ARGS]
        return goals
    goals = [("generates_info_once_and_nothing_else", z3.BoolVal(len(gi) == 1 and not eg))]
    if len(gi) == 1:
        kw = gi[0][2].get("kwargs")
        goals += [(f"{n}_handed_on_unchanged", C00.same_value(kw.entries[n].value, ctx.arg(n)) if kw is not None and n in kw.entries else z3.BoolVal(False)) for n in _GI_ARGS]
    return goals


c.check("entry", _encrypt_main_checks)
c.raises("ValueError")
c.raises("FileNotFoundError")

# ================================================================================================
# B — bounded stand-in through the CLI entry point `cmd_encrypt.main` with a real key; independent oracle:
# pycryptodome AES-GCM, hashlib, own CBOR reader.  Labelled bounded; never counted as proved.
# ================================================================================================
def _read_info(info):
    """Independent reading of the encryption info: returns (protected bytes, iv, alg of recipient, key id, cek)."""
    from bounded import cborx
    inner = cborx.decode_all(info, strict=True)
    assert isinstance(inner, bytes), "not bstr-wrapped"
    t = cborx.decode_all(inner, strict=True)
    assert isinstance(t, cborx.Tag) and t.tag == 96, "not COSE_Encrypt_Tagged (tag 96)"
    prot, unprot, ct, recips = t.value
    assert cborx.decode_all(prot, strict=True) == cborx.Map([(1, 3)]), "protected header is not {1: 3} (AES-GCM-256)"
    assert ct is None
    assert isinstance(unprot, cborx.Map) and unprot.keys() == [5], "unprotected header must carry exactly the IV"
    assert len(recips) == 1
    rp, ru, rc = recips[0]
    assert rp == b""
    kid = cborx.decode_all(ru.get(4), strict=True)
    return prot, unprot.get(5), ru.get(1), kid, rc


def run_encrypt_case(B, size, key_id, hash_alg, reuse=None):
    """One encrypt-and-generate through cmd_encrypt.main; returns (case, message or None, iv)."""
    import importlib, hashlib
    from contracts import specs_native as N
    m = importlib.import_module("suit_generator.cmd_encrypt")
    d = B.fresh_dir("e")
    key = bytes((i * 13 + 5) & 0xFF for i in range(32))
    open(f"{d}/k.bin", "wb").write(key)
    fw = bytes((i * 31 + size) & 0xFF for i in range(size))
    open(f"{d}/fw.bin", "wb").write(fw)
    from pyvc import front
    case = {"mode": "encrypt-and-generate", "size": size, "key_id": key_id, "hash_alg": hash_alg}
    if reuse:
        # history: the output directory already holds (longer) artifacts of an earlier run - every file must be REPLACED
        case["existing_longer_artifacts"] = True
        for fn in ("suit_encryption_info.bin", "encrypted_content.bin", "plain_text_digest.bin", "plain_text_size.txt"):
            open(f"{d}/{fn}", "wb").write(b"7" * (size + 5000))
    try:
        m.main(encrypt_subcommand="encrypt-and-generate", firmware=f"{d}/fw.bin", key_name="k", key_id=key_id, context=d,
               hash_alg=hash_alg, kw_alg="direct", kms_script=f"{front.REPO}/ncs/basic_kms.py",
               encrypt_script=f"{front.REPO}/ncs/encrypt_script.py", output_dir=d)
        info = open(f"{d}/suit_encryption_info.bin", "rb").read()
        content = open(f"{d}/encrypted_content.bin", "rb").read()
        digest = open(f"{d}/plain_text_digest.bin", "rb").read()
        size_txt = open(f"{d}/plain_text_size.txt").read()
        prot, iv, ralg, kid, cek = _read_info(info)
        if len(iv) != 12:
            return case, f"published IV has {len(iv)} bytes, not 12", iv
        if ralg != -6 or kid != key_id or cek is not None:
            return case, f"recipient does not name direct/-6 and key id {key_id}: {ralg}, {kid}, {cek}", iv
        aad = N.ENC(["Encrypt", prot, b""])
        try:
            pt = N.AESGCM_DEC(key, iv, content[16:], content[:16], aad)
        except Exception as e:  # noqa: BLE001
            return case, f"AES-GCM decryption with the published IV / Enc_structure / tag||ciphertext fails: {e}", iv
        if pt != fw:
            return case, "decrypts to something else than the firmware", iv
        name, n = {"sha-256": ("sha256", 32), "sha-384": ("sha384", 48), "sha-512": ("sha512", 64), "shake128": ("shake128", 16), "shake256": ("shake256", 32)}[hash_alg]
        if digest != N.HASH(name, n, fw):
            return case, "digest file does not describe the plaintext", iv
        if size_txt != str(len(fw)):
            return case, f"size file {size_txt!r} != {len(fw)}", iv
        # create accepts the info unchanged as a raw / file encryption-info parameter
        sec = importlib.import_module("suit_generator.suit.security")
        for form in ({"file": f"{d}/suit_encryption_info.bin"}, {"raw": info.hex()}):
            if sec.SuitEncryptionInfo.from_obj(form).to_cbor() != info:
                return case, f"create re-encodes the info differently for {list(form)[0]}", iv
        # generate-info on iv||tag||ciphertext gives the same artifact layout without altering a byte
        blob = iv + content
        open(f"{d}/blob.bin", "wb").write(blob)
        open(f"{d}/cek.bin", "wb").write(b"")
        d2 = B.fresh_dir("g")
        if reuse:
            for fn in ("suit_encryption_info.bin", "encrypted_content.bin"):
                open(f"{d2}/{fn}", "wb").write(b"7" * (size + 5000))
        m.main(encrypt_subcommand="generate-info", encrypted_firmware=f"{d}/blob.bin", encrypted_key=f"{d}/cek.bin", key_id=key_id,
               kw_alg="direct", encrypt_script=f"{front.REPO}/ncs/encrypt_script.py", output_dir=d2)
        if open(f"{d2}/encrypted_content.bin", "rb").read() != content:
            return case, "generate-info altered tag||ciphertext", iv
        p2, iv2, ralg2, kid2, cek2 = _read_info(open(f"{d2}/suit_encryption_info.bin", "rb").read())
        if (iv2, ralg2, kid2) != (iv, -6, key_id):
            return case, "generate-info publishes a different IV / recipient", iv
        return case, None, iv
    except AssertionError as e:
        return case, f"encryption info malformed: {e}", None
    except Exception as e:  # noqa: BLE001
        return case, f"unexpected {type(e).__name__}: {e}", None


def bounded(ctx):
    from bounded.harness import Bounded
    quick = ctx["tier"] == "quick"
    sizes = [0, 1, 15, 16, 17, 31, 32, 33, 255, 256, 4095, 4096, 4097, 8192, 12288] + ([] if quick else [65535, 65536, 70000, 131072])
    key_ids = [0, 1, 23, 24, 255, 256, 65535, 65536, 2 ** 31, 2 ** 32 - 1, 0x7FFFFFFF]
    algs = ["sha-256", "sha-384", "sha-512", "shake128", "shake256"]
    B = Bounded(ctx, rule="cmd_encrypt.main (both sub-commands) with a real AES-256 key; artifacts read back with an independent CBOR reader, "
                          "decrypted with pycryptodome, digests with hashlib; non-trivial = every case (distinct by size, key id, digest)",
                bound=f"plaintext sizes {sizes}; key ids {key_ids}; digests {algs}; one factor varied at a time plus a diagonal", budget_s=60 if quick else 600)
    ivs = []
    cases = [(s, key_ids[i % len(key_ids)], algs[i % len(algs)]) for i, s in enumerate(sizes)]
    cases += [(1000 + i, k, algs[i % 5]) for i, k in enumerate(key_ids)]
    cases += [(4096 * (1 + i % 3), 5, a) for i, a in enumerate(algs)]
    for size, kid, alg in cases:
        if B.out_of_time():
            break
        case, msg, iv = run_encrypt_case(B, size, kid, alg)
        B.case((size, kid, alg), sample=case)
        if msg:
            B.fail("artifacts-consistent", case, msg)
    for size, kid, alg in ((77, 9, "sha-256"), (0, 300, "shake128"), (4096, 70000, "sha-512")):
        case, msg, iv = run_encrypt_case(B, size, kid, alg, reuse=True)
        B.case(("rerun-into-used-directory", size, kid, alg))
        if msg:
            B.fail("artifacts-consistent", case, "output directory held longer artifacts of an earlier run: " + msg)
    return B.done()


def replay_case(case):
    from bounded.harness import Bounded
    B = Bounded({"tier": "quick", "seed": 0}, "", "")
    try:
        _, msg, _ = run_encrypt_case(B, case["size"], case["key_id"], case["hash_alg"], reuse=case.get("existing_longer_artifacts"))
        return msg is None, msg
    finally:
        B.done()


ASSUMPTIONS = [
    "AES-GCM correctness (cryptography.hazmat AESGCM): decrypt(key, n, AESGCM_ENC(key, n, p, aad), aad) == p; output = ciphertext || 16-byte tag",
    "os.urandom returns fresh, unpredictable bytes",
    "plug-in loading is verified against a model of importlib (given path, executed once, factory once); assumed: the scripts handed to it are the shipped ncs/encrypt_script.py / ncs/basic_kms.py and SuitKMS.init_kms derives the key directory from the context",
]
