"""C17 — Parsing untrusted bytes fails cleanly.

P (exception-escape analysis, modular, unbounded):  every `from_cbor` of every model class reachable from
SuitEnvelopeTagged (incl. the anonymous cbstr() wrappers) is executed by the path executor on ARBITRARY bytes; what
cbor2.loads returns is an arbitrary value of the `Plain` sum (pyvc/plain.py), narrowed only by the checks the code itself
makes.  Calls to a child's from_cbor are replaced by the INTERFACE CONTRACT

    T.from_cbor(b: bytes)  raises ⊆ {ValueError, SUITError}  returns an instance of T satisfying T's payload invariant

(never the child's body), so the result is for every nesting depth and every container size.  Loops over decoded
containers are verified by the invariant rule (declared shape of the loop-carried variables; init / step obligations).
The same is done for every `to_obj` on an arbitrary instance satisfying the payload invariant (result: JSON-shaped).

Every obligation `raises` says: no exception other than ValueError / SUITError / CBORDecodeError escapes.
B (bounded stand-in): node replacement / truncation / inflation fuzz of real envelopes through the real parser.
"""
import os
import z3
from pyvc.contract import Contract, LOOP_SPECS
from pyvc.types import Computed, Bytes, Int, Str
from pyvc.values import VClass, VObj, VBytes, VNone, NONE, VExc, PyRaise, OutOfSubset, VTuple
from pyvc import shapes, plain
from pyvc.shapes import InstT, AbsListT, AbsDictT, PlainT, JSON

PROPERTY = "C17"
LEVEL = "other"
ACTIVE = os.environ.get("VERIF_PID") in ("C17",)
ALLOWED = ("ValueError", "SUITError", "cbor2.CBORDecodeError")
ROOTS = [("suit_generator/suit/envelope.py", "SuitEnvelopeTagged"), ("suit_generator/suit/envelope.py", "SuitEnvelopeTaggedSimplified")]


class AnyInternalError(Exception):
    """Stands for whatever a callee raises when its precondition (argument is `bytes`) is violated."""


# ------------------------------------------------------------------------------------------------ class graph (native walk -> labels)
def _native_children(cls):
    md = getattr(cls, "_metadata", None)
    out = []
    if md is not None:
        if md.children:
            for i, ch in enumerate(md.children):
                if isinstance(ch, type) and hasattr(ch, "from_cbor"):
                    out.append((("children", i), ch))
        if md.map:
            for i, (k, v) in enumerate(md.map.items()):
                if isinstance(k, type) and hasattr(k, "from_cbor"):
                    out.append((("mapkey", i), k))
                if isinstance(v, type) and hasattr(v, "from_cbor"):
                    out.append((("map", i), v))
    bc = getattr(cls, "_bit_class", None)
    if bc is not None and any(c.__name__ == "SuitBitfield" for c in cls.__mro__):
        out.append((("bit",), bc))
    return out


def class_graph():
    """[(label, relpath-of-root, root name, steps, native class)] for every class reachable from the roots."""
    from pyvc import native, front
    import importlib
    native.ensure_repo_on_path()
    seen, out, work = {}, [], []
    for rel, name in ROOTS:
        cls = getattr(importlib.import_module(front.relpath_to_module(rel)), name)
        work.append((cls, rel, name, ()))
    while work:
        cls, rel, root, steps = work.pop(0)
        if id(cls) in seen:
            continue
        seen[id(cls)] = True
        # a module-level class is addressed directly, an anonymous wrapper through its path
        mod = importlib.import_module(cls.__module__)
        if getattr(mod, cls.__name__, None) is cls and cls.__qualname__ == cls.__name__:
            rel2, root2, steps2 = cls.__module__.replace(".", "/") + ".py", cls.__name__, ()
        else:
            rel2, root2, steps2 = rel, root, steps
        wrapped = "cbstr(" if cls.__qualname__.startswith("cbstr.") else ""
        label = f"{wrapped}{cls.__name__}{')' if wrapped else ''}" + (f"@{root2}" + "".join(f".{s[0]}{s[1] if len(s) > 1 else ''}" for s in steps2) if steps2 else "")
        out.append((label, rel2, root2, steps2, cls))
        for step, ch in _native_children(cls):
            work.append((ch, rel2, root2, steps2 + (step,)))
    return out


class ClassAt(Computed):
    def __init__(self, relpath, root, steps):
        self.relpath, self.root, self.steps = relpath, root, steps
        self.fn = self.build

    def build(self, it, env):
        vc = VClass(info=it.get_class(self.relpath, self.root))
        for st in self.steps:
            ci = vc.info
            if st[0] == "bit":
                vc, _ = ci.lookup("_bit_class")
                continue
            md, _ = ci.lookup("_metadata")
            if st[0] == "children":
                vc = it.getattr_(md, "children").items[st[1]]
            else:
                mp = it.getattr_(md, "map")
                k = list(mp.entries)[st[1]]
                vc = k if st[0] == "mapkey" else mp.entries[k].value
        if not isinstance(vc, VClass):
            raise OutOfSubset(f"class path {self.root}{self.steps} does not lead to a class")
        return vc

    def native(self):
        from pyvc import native, front
        import importlib
        native.ensure_repo_on_path()
        cls = getattr(importlib.import_module(front.relpath_to_module(self.relpath)), self.root)
        for st in self.steps:
            if st[0] == "bit":
                cls = cls._bit_class
            elif st[0] == "children":
                cls = cls._metadata.children[st[1]]
            elif st[0] == "mapkey":
                cls = list(cls._metadata.map.keys())[st[1]]
            else:
                cls = list(cls._metadata.map.values())[st[1]]
        return cls


# ------------------------------------------------------------------------------------------------ interface contracts (call sites)
def _may_raise_suiterror(it, vc, seen=None):
    seen = set() if seen is None else seen
    ci = vc.info
    if ci is None or id(ci) in seen:
        return False
    seen.add(id(ci))
    if any(c.name == "SuitTag" for c in ci.mro()):
        return True
    md, _ = ci.lookup("_metadata")
    kids = []
    if md is not None and not isinstance(md, VNone):
        ch = it.getattr_(md, "children")
        if not isinstance(ch, VNone):
            kids += [x for x in ch.items if isinstance(x, VClass)]
        mp = it.getattr_(md, "map")
        if not isinstance(mp, VNone):
            for k, e in mp.entries.items():
                kids += [x for x in (k, e.value) if isinstance(x, VClass)]
    bc, _ = ci.lookup("_bit_class")
    if isinstance(bc, VClass):
        kids.append(bc)
    return any(_may_raise_suiterror(it, k, seen) for k in kids)


# classes whose from_cbor always raises ValueError (object-only helpers); part of THEIR interface contract, checked on their bodies
NEVER_RETURNS = {"SuitDigestExt", "SuitEncryptionInfoExt"}


def _never_returns(it, ctx):
    cls = ctx.arg("cls") or ctx.arg("self")
    if cls is None or cls.info.node.name not in NEVER_RETURNS:
        return None
    return [("never_returns_normally", z3.BoolVal(ctx.outcome != "return"))]


def _union_payload(it, vc):
    children = shapes._meta(it, vc.info, "children")
    return InstT([c for c in children.items if not (isinstance(c, VClass) and c.info is not None and c.info.node.name in NEVER_RETURNS)])


def iface_from_cbor(it, c, fi, args, kwargs):
    from pyvc.interp import Env
    env = Env(None, None)
    it.bind_args(fi, args, kwargs, env)  # arity mismatch -> TypeError, as in Python
    cls = args[0]
    params = [p.arg for p in fi.node.args.args]
    x = env.lookup(params[1]) if len(params) > 1 else None
    if isinstance(x, plain.VPlain):
        if not plain.split(it, x, ("bytes",)):
            it.raise_(AnyInternalError, "from_cbor called with a non-bytes argument")
        x = plain.force(it, x)
    if not isinstance(x, VBytes):
        it.raise_(AnyInternalError, "from_cbor called with a non-bytes argument")
    it.assumptions_used.add("interface contract of from_cbor at call sites: raises only ValueError/SUITError, returns an instance satisfying the payload invariant (every implementation is verified against it)")
    outcomes = ([] if cls.info.node.name in NEVER_RETURNS else ["return"]) + ["ValueError"] + (["SUITError"] if _may_raise_suiterror(it, cls) else [])
    k = outcomes[it.choose(len(outcomes), f"{cls.name}.from_cbor")]
    if k == "ValueError":
        it.raise_(ValueError, "interface: invalid data")
    if k == "SUITError":
        from pyvc import clauses
        it.raise_(clauses.resolve_exception(it, "SUITError"), "interface: tag mismatch")
    return shapes.abstract_instance(it, cls, it.fresh_name(cls.name))


def iface_to_obj(it, c, fi, args, kwargs):
    slf = args[0] if args else None
    if fi.kind == "class":
        # SuitEncryptionInfoExt.to_obj is a classmethod that always raises ValueError
        it.raise_(ValueError, "interface: to_obj not available")
    it.assumptions_used.add("interface contract of to_obj at call sites: raises only ValueError/SUITError, returns a JSON-shaped value (every implementation is verified against it)")
    if it.choose(2, "to_obj_raises") == 1:
        it.raise_(ValueError, "interface: to_obj")
    return plain.fresh_json(it, it.fresh_name("obj"))


# ------------------------------------------------------------------------------------------------ checks on the verified bodies
def _result_shape(it, ctx):
    if ctx.outcome != "return":
        return None
    cls, r = ctx.arg("cls") or ctx.arg("self"), ctx.result
    ok = isinstance(r, VObj) and r.cls.is_subclass_of(cls.info)
    goals = [("result_is_instance_of_cls", z3.BoolVal(ok))]
    if ok:
        if getattr(r, "abstract", False):
            goals.append(("payload_invariant", z3.BoolVal(True)))  # produced by a callee's interface contract
        else:
            payload = r.attrs.get(shapes.payload_attr(r.cls))
            sh = shapes.payload_shape(it, VClass(info=r.cls))
            good = payload is not None and shapes.conforms(it, payload, sh)
            if not good:
                it.shape_failures = getattr(it, "shape_failures", []) + [("payload_invariant", f"{payload!r} is not of shape {sh!r}")]
            goals.append(("payload_invariant", z3.BoolVal(good)))
    return goals


def _json_result(it, ctx):
    if ctx.outcome != "return":
        return None
    ok = shapes.conforms(it, ctx.result, JSON)
    if not ok:
        it.shape_failures = getattr(it, "shape_failures", []) + [("result_is_json", f"{ctx.result!r}")]
    return [("result_is_json_shaped", z3.BoolVal(ok))]


# ------------------------------------------------------------------------------------------------ payload invariants that refine the generic ones
def _tuple_named_payload(it, vc):
    mp = shapes._meta(it, vc.info, "map")
    keys = list(mp.entries)
    vals = [e.value for e in mp.entries.values()]
    if any(isinstance(k, str) and k.endswith("*") for k in keys):
        return AbsListT(InstT(vals))
    from pyvc.types import ListT
    return ListT([InstT([v]) for v in vals])


def _scalar(kinds):
    return lambda it, vc: PlainT(kinds)


GENERIC_PAYLOADS = {
    "SuitTupleNamed": _tuple_named_payload, "SuitUnion": _union_payload,
    "SuitInt": _scalar(("int", "bool", "none")), "SuitUint": _scalar(("int", "bool", "none")), "SuitBool": _scalar(("bool", "none")),
    # what from_cbor can store (SuitBstr/Bchar/Enum.from_cbor never construct the None form their __init__ tolerates)
    "SuitTstr": _scalar(("str", "none")), "SuitBstr": _scalar(("bytes",)), "SuitHex": _scalar(("bytes",)),
    "SuitEmptyBstr": _scalar(("bytes",)), "SuitBchar": _scalar(("str",)), "SuitEnum": _scalar(("str",)),
    "SuitNull": _scalar(("none",)),
}


def install_payload_overrides(it):
    """Refinements keyed by GENERIC kind are applied to every class deriving from it."""
    class _ByGeneric(dict):
        def get(self, name, default=None):
            return None
    orig = shapes.payload_shape

    def refined(it_, vc):
        g = shapes._generic_kind(it_, vc.info)
        if g in GENERIC_PAYLOADS:
            return GENERIC_PAYLOADS[g](it_, vc)
        return orig(it_, vc)
    if not getattr(shapes, "_c17_refined", False):
        shapes.payload_shape = refined
        shapes._c17_refined = True


def _setup(it, env):
    install_payload_overrides(it)


# ------------------------------------------------------------------------------------------------ loop invariants (sidecar, per function)
def _payload_of_cls(it, env):
    return shapes.payload_shape(it, env.lookup("cls"))


def _payload_of_self(it, env):
    return shapes.payload_shape(it, VClass(info=env.lookup("self").cls))


def _remaining(it, env):
    """Variant of the `*` loop of SuitTupleNamed.from_cbor: the number of list elements not consumed yet (+1: the iteration that runs
    past the end leaves through IndexError)."""
    from pyvc.values import VInt
    from pyvc import plain as P_
    vl = P_.resolve(it, env.lookup("value_list"))
    n = vl.n if isinstance(vl, P_.VPList) else VInt(len(vl.items))
    return VInt(n.e - env.lookup("index").e + 1)


COMMON = "suit_generator/suit/types/common.py"
LOOPS_FROM_CBOR = {
    "SuitKeyValue.from_cbor": dict(value=_payload_of_cls),
    "SuitKeyValueUnnamed.from_cbor": dict(ret=_payload_of_cls),
    "SuitTupleNamed.from_cbor": dict(__while__=True, __decreases__=lambda it, env: _remaining(it, env),
                                     value=lambda it, env: AbsListT(InstT([e.value for e in shapes._meta(it, env.lookup("cls").info, "map").entries.values()])), index=Int(0)),
    "SuitBitfield.from_cbor": dict(__all_for__=True, value=_payload_of_cls, bitsum=Int(0)),
}


JSON_OBJ = AbsDictT(lambda it, key: JSON, key=Str(), label="json-object")
LOOPS_TO_OBJ = {
    "SuitKeyValue.to_obj": dict(obj=JSON_OBJ),
    "SuitTupleNamed.to_obj": dict(value=JSON_OBJ, keys=AbsListT(Str()), multiple_elements_index=Int(1)),
    "SuitBitfield.to_obj": dict(value=AbsListT(JSON)),
}


class _SelfOf(Computed):
    """An arbitrary instance of the class (as from_cbor returns it: payload invariant, nothing else)."""

    def __init__(self, cls_at):
        self.cls_at = cls_at
        self.fn = self.build

    def build(self, it, env):
        install_payload_overrides(it)
        return shapes.abstract_instance(it, self.cls_at.build(it, env), "self")


# ------------------------------------------------------------------------------------------------ registration
def _register():
    graph = class_graph()
    by_fn = {}
    for label, rel, root, steps, cls in graph:
        for meth in ("from_cbor", "to_obj"):
            f = getattr(cls, meth, None)
            f = getattr(f, "__func__", f)
            f = getattr(f, "__wrapped__", f)
            if f is None:
                continue
            qn = f.__qualname__
            if qn.startswith("cbstr.<locals>."):
                continue  # Cbstr defines neither from_cbor nor to_obj
            frel = f.__module__.replace(".", "/") + ".py"
            by_fn.setdefault((frel, qn, meth), []).append((label, ClassAt(rel, root, steps)))
    for (frel, qn, meth), variants in sorted(by_fn.items()):
        c = Contract(frel, qn, ["C17"])
        c.scope = {"C17"}
        c.setup = _setup
        c.max_paths = 6000
        for exc in ALLOWED:
            c.raises(exc)
        if meth == "from_cbor":
            import inspect
            names = list(inspect.signature(getattr(variants[0][1].native(), "from_cbor").__func__).parameters)
            c.param(names[0], variants[0][1])  # the class (named `cls`, or `self` in SuitEncryptionInfoExt)
            if len(names) > 1:
                c.param(names[1], Bytes())
            c.variants = [(lab, {names[0]: t}) for lab, t in variants]
            c.apply_fn = iface_from_cbor
            c.check("interface", _result_shape)
            c.check("never_returns", _never_returns)
            if qn in LOOPS_FROM_CBOR:
                LOOP_SPECS[c.key] = dict(LOOPS_FROM_CBOR[qn])
        else:
            c.param("self", _SelfOf(variants[0][1]))
            c.variants = [(lab, {"self": _SelfOf(t)}) for lab, t in variants]
            c.apply_fn = iface_to_obj
            c.check("interface", _json_result)
            if qn in LOOPS_TO_OBJ:
                LOOP_SPECS[c.key] = dict(LOOPS_TO_OBJ[qn])


def iface_deserialize(it, c, fi, args, kwargs):
    """Call-site semantics of deserialize_cbor while C17 is verified: ValueError, or the decoded Plain value (the same
    value for the same byte term: cbor2.loads is a function)."""
    data = args[-1]
    if isinstance(data, plain.VPlain):
        if not plain.split(it, data, ("bytes",)):
            it.raise_(AnyInternalError, "deserialize_cbor called with a non-bytes argument")
        data = plain.force(it, data)
    if not isinstance(data, VBytes):
        it.raise_(AnyInternalError, "deserialize_cbor called with a non-bytes argument")
    if data.conc is not None:
        return it.call_function(fi, args, kwargs, force_inline=True)
    it.des_cache = getattr(it, "des_cache", {})
    key = z3.simplify(data.e).sexpr()
    if key not in it.des_cache:
        if it.choose(2, "deserialize_fails") == 1:
            it.des_cache[key] = None
        else:
            it.des_cache[key] = plain.VPlain(it.fresh_name("decoded"), plain.TOP_KINDS)
    r = it.des_cache[key]
    if r is None:
        it.raise_(ValueError, "Cannot deserialize data!")
    return r


def _plain_result(it, ctx):
    if ctx.outcome != "return":
        return None
    return [("returns_a_decoded_value", z3.BoolVal(isinstance(ctx.result, plain.VPlain) or shapes.conforms(it, ctx.result, PlainT())))]


def _register_helpers():
    c = Contract(COMMON, "SuitObject.deserialize_cbor", ["C17"])  # replaces the C00 call-site contract while C17 is checked
    c.scope = {"C17"}
    c.param("cbstr", Bytes())
    c.raises("ValueError")
    c.check("result", _plain_result)
    c.apply_fn = iface_deserialize
    c = Contract(COMMON, "SuitObject.validate_cbor", ["C17"])
    c.scope = {"C17"}
    c.param("cbstr", Bytes())
    c.raises("ValueError")
    c.callers_inline = True
    c.check("rejects_inflated_length", _inflated_rejected)
    c = Contract(COMMON, "SuitObject.decode_cbor_length", ["C17"])
    c.scope = {"C17"}
    c.param("subtype", Int(0, 31))
    c.param("data", Bytes())
    c.raises("cbor2.CBORDecodeError")
    c.callers_inline = True


def _inflated_rejected(it, ctx):
    """validate_cbor returns normally only if a top-level bstr/tstr/array/map head with a 1/2/4/8-byte length field does not
    declare more than len(cbstr) items/bytes (the property's `absurd length fields`)."""
    if ctx.outcome != "return":
        return None
    b = ctx.arg("cbstr")
    n = z3.Length(b.e)
    first = b.e[0]
    major, info = first / 32, first % 32
    in_scope = z3.And(n >= 1, major >= 2, major <= 5)
    goals = []
    for code, width in ((24, 1), (25, 2), (26, 4), (27, 8)):
        declared = z3.Sum([b.e[1 + i] * (256 ** (width - 1 - i)) for i in range(width)])
        goals.append((f"declared_length_le_input_w{width}", z3.Implies(z3.And(in_scope, info == code, n >= 1 + width), declared <= n)))
    return goals


# ------------------------------------------------------------------------------------------------ native replay: witness search
def candidate_values():
    """Representatives of every kind of the Plain sum, alone and one / two levels inside containers."""
    import cbor2
    atoms = [0, 1, 5, 23, 24, -1, -16, 2 ** 32, True, False, None, 1.5, b"", b"\x01", b"A", bytes(16), "", "a", "suit",
             cbor2.CBORTag(107, {}), cbor2.CBORTag(18, []), cbor2.CBORTag(96, [b"", {}, None, []]), cbor2.CBORTag(1, 0), cbor2.CBORSimpleValue(5),
             cbor2.CBORTag(258, [1, 2]), cbor2.CBORTag(4, [1, 2]), cbor2.CBORTag(35, "a"), cbor2.CBORTag(37, bytes(16))]
    yield from atoms
    wrapped = []
    for a in atoms:
        try:
            wrapped.append(cbor2.dumps(a))
        except Exception:
            pass
    yield from wrapped
    lists = [[]] + [[a] for a in atoms + wrapped] + [[a, b] for a in atoms[:12] + wrapped[:6] for b in atoms[:14] + wrapped[:6]]
    yield from lists
    yield from ([a, b, c] for a in (1, -16, b"", "a") for b in (b"", 0, None, "a", []) for c in (None, 0, b"", []))
    dg = cbor2.dumps([-16, bytes(32)])
    yield from ([dg, x] for x in (0, cbor2.dumps(0), cbor2.dumps(cbor2.CBORTag(17, [b"", {}, None, b""])), cbor2.dumps([b"", {}, None, b""]), cbor2.dumps(cbor2.CBORTag(18, [b"", {}, None, b""]))))
    yield from ([a, b, c, d] for a in (b"", b"\xa0", 1) for b in ({}, 0, []) for c in (None, b"", 0) for d in (b"", [], 0, None))
    keys = list(range(0, 31)) + [99, -1, "x", "#a", b"k", None, 1.5, (1, 2)]
    vals = atoms + wrapped[:10] + [[], [1], {}, {1: 1}, [[]], [b""]]
    yield {}
    for k in keys:
        for v in vals:
            yield {k: v}
    for l in lists[:40]:
        yield cbor2.dumps(l)
        yield [l]
        yield {1: l}
    for k in (1, 2, 3, 99):
        for v in vals[:20]:
            yield cbor2.dumps({k: v})
            yield cbor2.CBORTag(107, {k: v})
            yield cbor2.CBORTag(18, [v])


def _allowed_native():
    import cbor2
    from suit_generator.exceptions import SUITError
    return (ValueError, SUITError, cbor2.CBORDecodeError)


def find_witness(cls, what="from_cbor", limit=20000):
    """First candidate on which cls.from_cbor (then .to_obj() for what == 'to_obj') lets a disallowed exception escape."""
    import cbor2
    from pyvc import native
    native.ensure_repo_on_path()
    native.install_log_shim()
    ok = _allowed_native()
    n = 0
    for v in candidate_values():
        n += 1
        if n > limit:
            break
        try:
            data = cbor2.dumps(v)
        except Exception:
            continue
        import signal

        class _Hang(BaseException):
            pass

        def _alarm(signum, frame):
            raise _Hang()
        prev_alarm = signal.alarm(0)
        old_handler = signal.signal(signal.SIGALRM, _alarm)
        signal.alarm(3)
        try:
            obj = cls.from_cbor(data)
        except _Hang:
            if what == "from_cbor":
                return data, None, TimeoutError("no result within 3 s (hang)")
            continue
        except ok:
            continue
        except RecursionError:
            continue
        except Exception as e:  # noqa: BLE001
            if what == "from_cbor":
                return data, None, e
            continue
        finally:
            signal.alarm(0)
            signal.signal(signal.SIGALRM, old_handler)
            if prev_alarm:
                signal.alarm(prev_alarm)
        if what == "to_obj":
            try:
                obj.to_obj()
            except ok:
                continue
            except Exception as e:  # noqa: BLE001
                return data, obj, e
    return None


def _adapter(c, cex, tmp):
    t = c.params[0][1]
    if isinstance(t, _SelfOf):
        cls = t.cls_at.native()
        w = find_witness(cls, "to_obj")
        if w is None:
            return None
        return {"self": w[1], "__witness_bytes__": w[0]}, (lambda inp: inp["self"].to_obj()), None
    cls = t.native()
    w = find_witness(cls, "from_cbor")
    if w is None:
        return None
    name0 = c.params[0][0]
    return {name0: cls, "cbstr": w[0]}, (lambda inp: inp[name0].from_cbor(inp["cbstr"])), None


class _AdapterTable(dict):
    def get(self, key, default=None):
        # class-based witness search for the from_cbor / to_obj contracts; the helpers replay the solver's model directly
        return _adapter if key.endswith(".from_cbor") or key.endswith(".to_obj") else default


NATIVE = _AdapterTable()

if ACTIVE:
    _register()
    _register_helpers()

EXPLANATION = ("P: exception-escape analysis of every from_cbor reachable from the envelope root on arbitrary bytes, children by the "
               "interface contract, loops by declared invariants; B: mutation fuzz of real envelopes.")
TRUSTED_BASE = ["interface contract of from_cbor/to_obj (verified for every implementation reachable from the envelope root)"]
ASSUMPTIONS = [
    "cbor2.loads(arbitrary bytes) raises some Exception or returns a value of the Plain sum; time and memory of cbor2's C decoder are proportional to the input (NOT decidable by contracts; probed by the bounded stand-in under RLIMIT_AS)",
    "termination/recursion depth: every recursive from_cbor call is on bytes re-encoded from a strict sub-value of the decoded input (not discharged; CPython's recursion limit is reachable by deep nesting - see known findings)",
]


# ------------------------------------------------------------------------------------------------ B: bounded stand-in
def _sample_envelopes():
    """Real envelopes produced by the tool itself from the shipped examples (rich: text, severed members, parameters); the files
    the examples refer to are created with dummy content in a scratch directory."""
    import glob, yaml, json, os, shutil, tempfile
    from pyvc import front
    from suit_generator.suit.envelope import SuitEnvelopeTagged
    out = []
    cwd = os.getcwd()
    tmp = tempfile.mkdtemp(prefix="verif_c17_")
    try:
        for p in glob.glob(os.path.join(front.REPO, "examples", "input_files", "*")):
            shutil.copy(p, tmp)
        os.chdir(tmp)
        for p in sorted(glob.glob("*.yaml") + glob.glob("*.json")):
            for _ in range(12):
                try:
                    with open(p) as fh:
                        d = yaml.safe_load(fh) if p.endswith(".yaml") else json.load(fh)
                    e = SuitEnvelopeTagged.from_obj(d)
                    e.update_severable_digests()
                    e.update_digest()
                    out.append((p, e.to_cbor()))
                    break
                except FileNotFoundError as ex:
                    if not ex.filename or os.path.isabs(ex.filename):
                        break
                    with open(ex.filename, "wb") as fh:
                        fh.write(bytes(range(64)) * 3)
                except Exception:
                    break
    finally:
        os.chdir(cwd)
        shutil.rmtree(tmp, ignore_errors=True)
    return out


def _tree(data):
    """cbor2 value with bstr-wrapped CBOR containers opened: ('bstr', subtree) marks a wrap."""
    import cbor2
    v = cbor2.loads(data)

    def open_(x, depth=0):
        if isinstance(x, cbor2.CBORTag):
            return cbor2.CBORTag(x.tag, open_(x.value, depth + 1))
        if isinstance(x, (list, tuple)):
            return [open_(i, depth + 1) for i in x]
        if isinstance(x, (dict, cbor2.frozendict)):
            return {k: open_(val, depth + 1) for k, val in x.items()}
        if isinstance(x, bytes) and len(x) > 1 and depth < 12:
            try:
                inner = cbor2.loads(x)
                if isinstance(inner, (list, tuple, dict, cbor2.frozendict, cbor2.CBORTag)) and cbor2.dumps(inner) == x:
                    return ("bstr", open_(inner, depth + 1))
            except Exception:
                pass
        return x
    return open_(v)


def _paths(t, prefix=()):
    yield prefix
    if isinstance(t, tuple) and len(t) == 2 and t[0] == "bstr":
        yield from _paths(t[1], prefix + ("w",))
    elif hasattr(t, "tag") and hasattr(t, "value"):
        yield from _paths(t.value, prefix + ("t",))
    elif isinstance(t, list):
        for i, x in enumerate(t):
            yield from _paths(x, prefix + (i,))
    elif isinstance(t, dict):
        for k, x in t.items():
            yield from _paths(x, prefix + (("k", k),))


def _rebuild(t, path, repl):
    import cbor2
    if not path:
        return repl
    h, rest = path[0], path[1:]
    if h == "w":
        return ("bstr", _rebuild(t[1], rest, repl))
    if h == "t":
        return cbor2.CBORTag(t.tag, _rebuild(t.value, rest, repl))
    if isinstance(h, int):
        return [(_rebuild(x, rest, repl) if i == h else x) for i, x in enumerate(t)]
    return {k: (_rebuild(x, rest, repl) if k == h[1] else x) for k, x in t.items()}


def _encode(t):
    import cbor2

    def close(x):
        if isinstance(x, tuple) and len(x) == 2 and x[0] == "bstr":
            return cbor2.dumps(close(x[1]))
        if isinstance(x, cbor2.CBORTag):
            return cbor2.CBORTag(x.tag, close(x.value))
        if isinstance(x, list):
            return [close(i) for i in x]
        if isinstance(x, dict):
            return {k: close(v) for k, v in x.items()}
        return x
    return cbor2.dumps(close(t))


REPRESENTATIVES = None


def _representatives():
    import cbor2
    return [0, -1, 2 ** 40, True, None, 1.5, b"", b"\x01\x02", "", "text", [], [1], [[]], {}, {1: 1}, {"a": b""}, cbor2.CBORTag(107, {}), cbor2.CBORTag(18, [1]),
            cbor2.CBORTag(1, 0), cbor2.CBORSimpleValue(7), cbor2.dumps([1, 2]), cbor2.dumps({1: 2}), cbor2.dumps(5), cbor2.dumps("t")]


def _quiet(*a):
    pass


def parse_cleanly(data, time_limit=10.0):
    """None if the parser returns a model or raises an input error within the limit; else a description."""
    import time
    from suit_generator.suit.envelope import SuitEnvelopeTagged
    ok = _allowed_native()
    t0 = time.time()
    import sys, signal
    sys.unraisablehook = _quiet  # a RecursionError inside a finaliser / repr would otherwise dump the whole input to stderr

    class _Hang(BaseException):
        pass

    def _alarm(signum, frame):
        raise _Hang()
    old_handler = signal.signal(signal.SIGALRM, _alarm)
    signal.alarm(4)
    try:
        SuitEnvelopeTagged.from_cbor(data).to_obj()
    except _Hang:
        return f"no result within 4 s for {len(data)} input bytes (hang)"
    except ok:
        pass
    except RecursionError as e:
        return f"RecursionError ({len(data)} input bytes)"
    except BaseException as e:  # noqa: BLE001
        return f"{type(e).__name__}: {str(e)[:120]}"
    finally:
        signal.alarm(0)
        signal.signal(signal.SIGALRM, old_handler)
    dt = time.time() - t0
    if dt > time_limit:
        return f"took {dt:.1f}s for {len(data)} bytes"
    return None


def _nested_run_sequence(depth):
    import cbor2, hashlib
    seq = cbor2.dumps([14, 15])  # condition-abort
    for _ in range(depth):
        seq = cbor2.dumps([32, seq])  # run-sequence(bstr .cbor sequence)
    manifest = cbor2.dumps({1: 1, 2: 1, 3: cbor2.dumps({2: [[b"M"]]}), 7: seq})
    digest = cbor2.dumps([-16, hashlib.sha256(cbor2.dumps(manifest)).digest()])
    return cbor2.dumps(cbor2.CBORTag(107, {2: cbor2.dumps([digest]), 3: manifest}))


def _inflate_positions(data):
    """(offset, width) of every bstr/tstr/array/map head with a 1/2/4/8-byte length field, found by a shallow scan of the top-level
    structure with cbor2 offsets approximated by searching head bytes (over-approximation: some positions are inside strings)."""
    out = []
    for i, b in enumerate(data[:-1]):
        major, info = b >> 5, b & 31
        if 2 <= major <= 5 and 24 <= info <= 27:
            out.append((i, {24: 1, 25: 2, 26: 4, 27: 8}[info]))
    return out


def _memory_probe(cases):
    """Parse the cases in a forked child under RLIMIT_AS = current + 768 MiB; report cases where cbor2 hit the limit
    (ValueError whose cause is MemoryError), i.e. memory far beyond the input size was requested."""
    import multiprocessing as mp

    def child(q):
        import resource, cbor2
        from suit_generator.suit.envelope import SuitEnvelopeTagged
        try:
            with open("/proc/self/statm") as fh:
                cur = int(fh.read().split()[0]) * resource.getpagesize()
        except Exception:
            cur = 2 << 30
        resource.setrlimit(resource.RLIMIT_AS, (cur + (768 << 20), cur + (768 << 20)))
        bad = []
        for i, data in enumerate(cases):
            try:
                SuitEnvelopeTagged.from_cbor(data).to_obj()
            except MemoryError:
                bad.append((i, "MemoryError escaped"))
            except BaseException as e:  # noqa: BLE001
                c = e
                seen = 0
                while c is not None and seen < 6:
                    if isinstance(c, MemoryError):
                        bad.append((i, "the decoder requested more than 768 MiB"))
                        break
                    c = c.__context__ or c.__cause__
                    seen += 1
        q.put(bad)
    ctx = mp.get_context("fork")
    q = ctx.Queue()
    p = ctx.Process(target=child, args=(q,))
    p.start()
    p.join(180)
    if p.is_alive():
        p.kill()
        return [(-1, "memory probe did not finish within 180 s")]
    if p.exitcode != 0:
        return [(-1, f"memory probe child died with exit code {p.exitcode}")]
    return q.get()


def _get(t, path):
    for h in path:
        t = t[1] if h == "w" else t.value if h == "t" else t[h] if isinstance(h, int) else t[h[1]]
    return t


def _parse_cpu(data):
    """CPU seconds (process time, best of two) of one parse attempt, whatever its outcome."""
    import time
    from suit_generator.suit.envelope import SuitEnvelopeTagged
    import signal

    class _Hang(BaseException):
        pass

    def _alarm(signum, frame):
        raise _Hang()
    best = None
    old_handler = signal.signal(signal.SIGALRM, _alarm)
    try:
        for _ in range(2):
            t0 = time.process_time()
            signal.alarm(20)  # far beyond anything proportional to these inputs (the largest costs a few seconds at most)
            try:
                SuitEnvelopeTagged.from_cbor(data).to_obj()
            except _Hang:
                return float("inf")
            except BaseException:  # noqa: BLE001  (outcome kinds are the business of the other clauses)
                pass
            finally:
                signal.alarm(0)
            dt = time.process_time() - t0
            best = dt if best is None or dt < best else best
    finally:
        signal.signal(signal.SIGALRM, old_handler)
    return best


def _scaling_probe(B, name, data, max_nodes):
    """Time proportional to the input size: every ARRAY node of the envelope (bstr wraps opened) is blown up to N and to 4N elements by repeating its
    own elements (so the items stay well-formed: command / argument pairs, components, authentication blocks ...), and the top-level map gets N and
    4N integrated payloads.  N is raised until one parse costs >= 0.05 CPU-seconds; a parser whose cost is linear in the number of items then needs
    about 4x for 4N - more than 10x (quadratic growth gives 16x) is reported.  CPU time, best of two, so that a loaded machine does not matter."""
    import cbor2
    t = _tree(data)
    arrays = [p for p in _paths(t) if isinstance(_get(t, p), list) and len(_get(t, p)) >= 1]
    # "array": the container's own (well-formed) elements repeated; "array-of-integers": N copies of the integer 0 - items that cost next to nothing (they are
    # rejected or skipped at once), so that what the parser does with the CONTAINER itself (decode, regroup, copy, index) is what is measured
    probes = [(k_, p) for p in arrays[:max_nodes] for k_ in ("array", "array-of-integers")] + [("payloads", ())]
    for kind, path in probes:
        top = 64000 if kind != "array-of-integers" else 128000

        def build(n):
            if kind == "array":
                elems = _get(t, path)
                return _encode(_rebuild(t, path, (elems * (n // len(elems) + 1))[:n]))
            if kind == "array-of-integers":
                return _encode(_rebuild(t, path, [0] * n))
            v = cbor2.loads(data)
            m = dict(v.value)
            for i in range(n):
                m[f"#p{i}"] = b"x"
            return cbor2.dumps(cbor2.CBORTag(v.tag, m))
        n, t1 = 2000, 0.0
        while n <= top:
            try:
                small = build(n)
            except Exception:  # noqa: BLE001
                small = None
                break
            t1 = _parse_cpu(small)
            if t1 == float("inf"):
                B.case((name, "scaling", kind, str(path)))
                B.fail("parse-time-proportional-to-input-size", {"kind": "scaling", "envelope": name, "container": kind, "path": str(path), "items": [n], "input_bytes": [len(small)]},
                       f"no result within 20 s for {len(small)} input bytes ({n} items in this container): the parser hangs")
                return "hang"  # one hanging input is the finding; further probes would each wait for the alarm again
            if t1 >= 0.05:
                break
            n *= 2
        if small is None or t1 < 0.05:
            continue  # rejected at once / too cheap to measure: nothing grows with this container
        big = build(4 * n)
        t4 = _parse_cpu(big)
        B.case((name, "scaling", kind, str(path)))
        if t4 == float("inf"):
            B.fail("parse-time-proportional-to-input-size", {"kind": "scaling", "envelope": name, "container": kind, "path": str(path), "items": [n, 4 * n], "input_bytes": [len(small), len(big)]},
                   f"{t1:.2f} s CPU for {len(small)} bytes but no result within 20 s for {len(big)} bytes")
            return "hang"
        if t4 > 10 * t1:
            t4b, t1b = _parse_cpu(big), _parse_cpu(small)  # measured again before it is reported
            if t4b > 10 * t1b:
                B.fail("parse-time-proportional-to-input-size", {"kind": "scaling", "envelope": name, "container": kind, "path": str(path), "items": [n, 4 * n],
                                                                 "input_bytes": [len(small), len(big)], "cpu_seconds": [round(t1b, 3), round(t4b, 3)]},
                       f"{len(small)} -> {len(big)} input bytes (x{len(big) / len(small):.1f}) but {t1b:.2f} s -> {t4b:.2f} s CPU (x{t4b / t1b:.1f}): parse time grows faster than the input")


def bounded(ctx):
    from bounded.harness import Bounded
    from pyvc import native
    import cbor2
    native.install_log_shim()
    import logging
    logging.disable(logging.CRITICAL)  # the parser logs a warning for every member it skips
    quick = ctx["tier"] == "quick"
    B = Bounded(ctx, rule="SuitEnvelopeTagged.from_cbor(b).to_obj() on mutated real envelopes: every single-node replacement of every node (bstr wraps opened) by a "
                          "representative of every CBOR kind, all truncations, seeded random byte edits, length-field inflation at every long head (+ memory probe "
                          "under RLIMIT_AS), run-sequence nesting; must return or raise ValueError/SUITError/CBORDecodeError within 10 s",
                bound="envelopes created from the shipped examples; 24 representatives per node; nesting depth 10/50/90 (quick) .. 1000 (thorough)", budget_s=100 if quick else 900)
    envs = _sample_envelopes()
    # the shipped examples are unsigned: add a variant of each with two COSE_Sign1 authentication blocks, so that the block positions exist for replacement
    import cbor2 as _c
    for name, data in list(envs)[:2]:
        t = _c.loads(data)
        m = dict(t.value)
        w = list(_c.loads(m[2]))
        blk = lambda kid: _c.dumps(_c.CBORTag(18, [_c.dumps({1: -7, 4: _c.dumps(kid)}), {}, None, bytes(64)]))
        m[2] = _c.dumps(w + [blk(5), blk(0x7FFFFFE0)])
        envs.append((name + "+signed", _c.dumps(_c.CBORTag(107, m))))
    if not envs:
        B.fail("sample-envelopes", {}, "no example envelope could be created")
        return B.done()
    reps = _representatives()
    for name, data in envs:
        if parse_cleanly(data) is not None:
            B.fail("unmutated-envelope-parses", {"envelope": name}, parse_cleanly(data))
        t = _tree(data)
        paths = list(_paths(t))
        step = 1 if not quick else max(1, len(paths) // 120)
        for pi, path in enumerate(paths):
            if pi % step and quick:
                continue
            if B.out_of_time():
                break
            for ri, r in enumerate(reps):
                try:
                    m = _encode(_rebuild(t, path, r))
                except Exception:
                    continue
                B.case((name, pi, ri), sample={"envelope": name, "path": str(path), "replacement": repr(r)[:40]} if (pi, ri) in ((3, 2), (17, 9)) else None)
                msg = parse_cleanly(m)
                if msg:
                    B.fail("node-replacement-fails-cleanly", {"kind": "bytes", "hex": m.hex(), "envelope": name, "path": str(path), "replacement": repr(r)[:60]}, msg)
        for n in range(0, len(data), 1 if not quick else 7):
            if B.out_of_time():
                break
            B.case((name, "trunc", n))
            msg = parse_cleanly(data[:n])
            if msg:
                B.fail("truncation-fails-cleanly", {"kind": "bytes", "hex": data[:n].hex(), "envelope": name}, msg)
        for k in range(300 if quick else 5000):
            if B.out_of_time():
                break
            b = bytearray(data)
            for _ in range(B.rng.choice((1, 1, 2, 3))):
                b[B.rng.randrange(len(b))] = B.rng.randrange(256)
            B.case((name, "edit", k))
            msg = parse_cleanly(bytes(b))
            if msg:
                B.fail("random-edit-fails-cleanly", {"kind": "bytes", "hex": bytes(b).hex(), "envelope": name}, msg)
        inflated = []
        for off, w in _inflate_positions(data)[: (40 if quick else 400)]:
            for val in (2 ** (8 * w) - 1, 2 ** (8 * w - 1)):
                inflated.append(data[: off + 1] + val.to_bytes(w, "big") + data[off + 1 + w:])
        # a long head put in front of a short item: declared length far beyond the input
        inflated += [bytes([0x5B]) + (2 ** 40).to_bytes(8, "big") + data[:8], bytes([0x9B]) + (2 ** 40).to_bytes(8, "big"), bytes([0xBA]) + (2 ** 31).to_bytes(4, "big"),
                     cbor2.dumps(cbor2.CBORTag(107, {3: b"\x9b" + (2 ** 40).to_bytes(8, "big")}))]
        for k, m in enumerate(inflated):
            if B.out_of_time():
                break
            B.case((name, "inflate", k))
            msg = parse_cleanly(m)
            if msg:
                B.fail("length-inflation-fails-cleanly", {"kind": "bytes", "hex": m.hex(), "envelope": name}, msg)
        for i, why in _memory_probe(inflated):
            B.fail("length-inflation-memory-bounded", {"kind": "bytes", "hex": inflated[i].hex() if i >= 0 else "", "envelope": name}, why)
    # quick: the first sample envelope and the largest one (most containers), every array node of each
    for name, data in ([envs[0], max(envs, key=lambda e: len(e[1]))] if quick else envs):
        if B.failures or B.out_of_time():
            break  # a violation is reported already / the budget is used up: the probe (seconds of CPU per container) adds nothing
        if _scaling_probe(B, name, data, 120 if quick else 400) == "hang":
            break
    for depth in ((10, 50, 90, 200, 600) if quick else (10, 50, 90, 120, 200, 400, 600, 1000)):
        B.case(("nest", depth))
        msg = parse_cleanly(_nested_run_sequence(depth))
        if msg:
            B.fail("deep-nesting-recursion-limit" if msg.startswith("RecursionError") else "deep-nesting-fails-cleanly", {"kind": "nested-run-sequence", "depth": depth}, msg)
    return B.done()


def replay_case(case):
    from pyvc import native
    native.install_log_shim()
    if case.get("kind") == "scaling":
        return False, "re-run the check: the scaling probe rebuilds its inputs from the sample envelopes (" + str(case.get("path")) + ")"
    if case.get("kind") == "nested-run-sequence":
        msg = parse_cleanly(_nested_run_sequence(case["depth"]))
    else:
        msg = parse_cleanly(bytes.fromhex(case["hex"]))
    return msg is None, msg
