"""Spec functions used in contract clauses.

This file is ordinary Python in the executor's subset: the SAME text is (a) interpreted symbolically by pyvc
when a clause is turned into a z3 term and (b) imported natively when a clause is evaluated at run time
(replay of counterexamples, bounded stand-ins).  Keep it loop-free and expression-oriented.
"""


def be(n, k):
    """k-byte big-endian encoding of n."""
    return n.to_bytes(k, "big")


def le(n, k):
    return n.to_bytes(k, "little")


def zeros(k):
    return b"\x00" * k


def ones(k):
    return b"\xff" * k


def implies(a, b):
    return (not a) or b


def pad_entry_ok(tail):
    """`tail` reads as ONE CBOR map entry: empty text key (0x60) then a byte string of zeros, occupying all of tail.

    Accepts every valid definite-length head width for the byte string (so harmless re-encodings stay silent)."""
    return len(tail) >= 2 and tail[0] == 0x60 and (
        (0x40 <= tail[1] <= 0x57 and len(tail) == 2 + (tail[1] - 0x40) and tail[2:] == zeros(len(tail) - 2))
        or (tail[1] == 0x58 and len(tail) >= 3 and len(tail) == 3 + tail[2] and tail[3:] == zeros(len(tail) - 3))
        or (tail[1] == 0x59 and len(tail) >= 4 and len(tail) == 4 + tail[2] * 256 + tail[3] and tail[4:] == zeros(len(tail) - 4))
        or (tail[1] == 0x5A and len(tail) >= 6 and len(tail) == 6 + ((tail[2] * 256 + tail[3]) * 256 + tail[4]) * 256 + tail[5] and tail[6:] == zeros(len(tail) - 6))
    )
