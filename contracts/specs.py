"""Spec functions used in contract clauses.

This file is ordinary Python in the executor's subset: the SAME text is (a) interpreted symbolically by pyvc
when a clause is turned into a z3 term and (b) imported natively when a clause is evaluated at run time
(replay of counterexamples, bounded stand-ins).  Keep it loop-free and expression-oriented.
"""


def be(n, k):
    """k-byte big-endian encoding of n."""
    return n.to_bytes(k, "big")


def le(n, k):
    return n.to_bytes(k, "little")


def zeros(k):
    return b"\x00" * k


def ones(k):
    return b"\xff" * k


def implies(a, b):
    return (not a) or b


def pad_entry_ok(tail):
    """`tail` reads as ONE CBOR map entry: empty text key (0x60) then a byte string of zeros, occupying all of tail.

    Accepts every valid definite-length head width for the byte string (so harmless re-encodings stay silent)."""
    return len(tail) >= 2 and tail[0] == 0x60 and (
        (0x40 <= tail[1] <= 0x57 and len(tail) == 2 + (tail[1] - 0x40) and tail[2:] == zeros(len(tail) - 2))
        or (tail[1] == 0x58 and len(tail) >= 3 and len(tail) == 3 + tail[2] and tail[3:] == zeros(len(tail) - 3))
        or (tail[1] == 0x59 and len(tail) >= 4 and len(tail) == 4 + tail[2] * 256 + tail[3] and tail[4:] == zeros(len(tail) - 4))
        or (tail[1] == 0x5A and len(tail) >= 6 and len(tail) == 6 + ((tail[2] * 256 + tail[3]) * 256 + tail[4]) * 256 + tail[5] and tail[6:] == zeros(len(tail) - 6))
    )


# ---- C12: merged MPI areas ---------------------------------------------------------------------------
def hex_merged(contents):
    """Union of the partial maps stored in the given .hex file contents (in order)."""
    m = HEX_EMPTY()
    for c in contents:
        m = HEX_MERGE(m, HEXMAP(c))
    return m


def all_inside(contents, address, size):
    return all([HEX_MIN(HEXMAP(c)) >= address and HEX_MAX(HEXMAP(c)) <= address + size - 1 for c in contents])


def no_overlaps(contents):
    """No input overlaps the union of the inputs before it."""
    return all([not HEX_OVERLAP(hex_merged(contents[:i]), HEXMAP(contents[i])) for i in range(len(contents))])


def mpi_record(vendor_name, class_name, downgrade_prevention, independent_updates, signature_verification, size):
    vid = UUID5(NAMESPACE_DNS, vendor_name)
    cid = UUID5(vid, class_name)
    return (b"\x01"
            + (b"\x02" if downgrade_prevention else b"\x01")
            + (b"\x02" if independent_updates else b"\x01")
            + (b"\x01" if signature_verification is None else b"\x02" if signature_verification == "update" else b"\x03")
            + ones(12) + vid + cid + ones(size - 48))


# ---- C20: default version values --------------------------------------------------------------------
def default_seq_num(version, major, minor, patch, tweak):
    return (int(version[major]) << 24) + (int(version[minor]) << 16) + (int(version[patch]) << 8) + (int(version[tweak]) if tweak in version else 0)


def is_numeral(s):
    return s.isdecimal()


# ---- C06 / C14: encryption artifacts --------------------------------------------------------------------
def enc_structure():
    """COSE Enc_structure ['Encrypt', protected, external_aad] for the published protected header {1: 3} (AES-GCM-256)."""
    return ENC(["Encrypt", ENC({1: 3}), b""])


def encryption_info(iv, kw_alg, key_id, encrypted_cek):
    """bstr-wrapped COSE_Encrypt_Tagged: AES-GCM-256 in the protected header, IV unprotected, one recipient naming the key."""
    return ENC(ENC(TAG(96, [ENC({1: 3}), {5: iv}, None, [[b"", {1: kw_alg, 4: ENC(key_id)}, encrypted_cek]]])))


def digest_alg(name):
    """(hashlib-style name, output size) of the five SUIT digest algorithm names used by the encrypt command."""
    return (("sha256", 32) if name == "sha-256" else ("sha384", 48) if name == "sha-384" else ("sha512", 64) if name == "sha-512"
            else ("shake128", 16) if name == "shake128" else ("shake256", 32))


# ---- C13: vendor / class identifiers -----------------------------------------------------------------
def vendor_id(vendor_name):
    return UUID5(NAMESPACE_DNS, vendor_name)


def class_id(vendor_name, class_name):
    return UUID5(UUID5(NAMESPACE_DNS, vendor_name), class_name)


# ---- C04 / C09: COSE_Sign1 ---------------------------------------------------------------------------
def cose_sign_alg(name):
    """COSE algorithm identifier of the five supported signing algorithms (RFC 9053 / draft-ietf-cose-hash-eddsa)."""
    return (-7 if name == "es-256" else -35 if name == "es-384" else -36 if name == "es-521" else -8 if name == "eddsa" else -65537)


def protected_header(alg_name, key_id):
    return {1: cose_sign_alg(alg_name), 4: ENC(key_id)}


def sig_structure(alg_name, key_id, digest_bstr):
    """COSE Sig_structure ['Signature1', protected bstr, external_aad, payload] with the envelope's (bstr-wrapped) digest."""
    return ENC(["Signature1", ENC(protected_header(alg_name, key_id)), b"", digest_bstr])


def auth_block(alg_name, key_id, signature):
    return ENC(TAG(18, [ENC(protected_header(alg_name, key_id)), {}, None, signature]))


# ---- C05: external artifacts ---------------------------------------------------------------------------
def hash_by_name(alg_name, data):
    """Digest of `data` under a description-language algorithm name (cose-alg-sha-256, ...)."""
    return (HASH("sha256", 32, data) if alg_name == "cose-alg-sha-256" else HASH("shake128", 16, data) if alg_name == "cose-alg-shake128"
            else HASH("sha384", 48, data) if alg_name == "cose-alg-sha-384" else HASH("sha512", 64, data) if alg_name == "cose-alg-sha-512"
            else HASH("shake256", 32, data))
