"""C13 — Vendor/class UUIDs are derived identically everywhere (contracts).

Three derivation sites get the SAME postcondition terms vendor_id(v) = UUID5(DNS, v), class_id(v, c) = UUID5(UUID5(DNS, v), c)
with UUID5 uninterpreted: create (SuitUUID.from_obj), the MPI record (MpiGenerator.generate, contract in C12_mpi.py tagged C13)
and the role table of `image boot` (EnvelopeStorage.assign_role / _find_role).
"""
from pyvc.contract import Contract
from pyvc.types import Int, Bool, Bytes, Str, Obj, PathStr, OneOf, ListT, NoneT, Const, DictT, EnumT, ClsT, Opt, Computed

PROPERTY = "C13"
LEVEL = "proof"
FM = "suit_generator/suit/manifest.py"
FI = "suit_generator/cmd_image.py"

# ------------------------------------------------------------------------------------------------
c = Contract(FM, "SuitUUID.from_obj", ["C13"])
c.param("cls", ClsT(FM, "SuitUUID"))
c.param("obj", DictT())
c.variants = [
    ("namespace+name", {"obj": DictT(required={"RFC4122_UUID": DictT(required={"namespace": Str(), "name": Str()})})}),
    ("name-only", {"obj": DictT(required={"RFC4122_UUID": DictT(required={"name": Str()})})}),
    ("plain-name", {"obj": DictT(required={"RFC4122_UUID": Str()})}),
    ("raw", {"obj": DictT(required={"raw": Str()})}),
    ("no-name", {"obj": DictT(required={"RFC4122_UUID": DictT(required={"namespace": Str()})})}),
    ("other-key", {"obj": DictT(required={"something": Str()})}),
]
c.callers_inline = True  # probed with arbitrary (non-dict) descriptions by SuitUnion.from_obj; callers execute the body
c.let("u", "obj['RFC4122_UUID'] if 'RFC4122_UUID' in obj else None")
c.returns("class_id_from_namespace_and_name",
          "not (isinstance(u, dict) and 'namespace' in u) or result.SuitUUID == class_id(u['namespace'], u['name'])")
c.returns("vendor_id_from_name",
          "not (isinstance(u, dict) and 'namespace' not in u) or result.SuitUUID == vendor_id(u['name'])")
c.returns("vendor_id_from_plain_name", "not isinstance(u, str) or result.SuitUUID == vendor_id(u)")
c.returns("raw", "u is not None or result.SuitUUID == UNHEX(obj['raw'])")
c.raises("ValueError")

# ------------------------------------------------------------------------------------------------
ENTRY = DictT(required={"vendor_id": Bytes(16), "class_id": Bytes(16), "role": EnumT(FI, "ManifestRole", members=["APP_ROOT", "APP_LOCAL_1", "RAD_LOCAL_1"])})
c = Contract(FI, "EnvelopeStorage.assign_role", ["C13"])
c.param("self", Obj(FI, "EnvelopeStorage", _assignments=DictT()))
c.param("vendor_name", Str())
c.param("class_name", Str())
c.param("role", EnumT(FI, "ManifestRole", members=["APP_ROOT", "APP_LOCAL_1", "APP_LOCAL_2", "RAD_LOCAL_1", "SEC_TOP"]))
c.returns("keyed_by_class_id", "HEX(class_id(vendor_name, class_name)) in self._assignments")
c.returns("entry", "self._assignments[HEX(class_id(vendor_name, class_name))] == "
                   "{'vendor_id': vendor_id(vendor_name), 'class_id': class_id(vendor_name, class_name), 'role': role}")
c.returns("one_entry_added", "len(self._assignments) == 1")
c.callers_inline = True  # stated for an empty table; callers (EnvelopeStorage.__init__) execute the body on their own table

c = Contract(FI, "EnvelopeStorage._find_role", ["C13"])
c.param("self", Obj(FI, "EnvelopeStorage", _assignments=DictT()))
c.param("class_id", Bytes())
c.ghost("K0", Str())
c.ghost("K1", Str())
c.ghost("R0", EnumT(FI, "ManifestRole", members=["APP_ROOT", "RAD_LOCAL_1"]))
c.ghost("R1", EnumT(FI, "ManifestRole", members=["APP_LOCAL_1", "RAD_LOCAL_1"]))


def _two_entries(it, env):
    """State: a role table with two arbitrary, distinct keys K0, K1 (complete for the lookup: any table is a finite list of such)."""
    import z3
    from pyvc.values import VDict, DEntry, SymKey, VBytes
    from pyvc.types import make_value, Bytes as B
    slf = env.lookup("self")
    d = VDict()
    for kname, rname in (("K0", "R0"), ("K1", "R1")):
        k = env.lookup(kname)
        val = VDict([("vendor_id", make_value(it, B(16), kname + ".vid")), ("class_id", make_value(it, B(16), kname + ".cid")), ("role", env.lookup(rname))])
        d.entries[SymKey(k)] = DEntry(SymKey(k), val)
    it.assume(env.lookup("K0").e != env.lookup("K1").e)
    slf.attrs["_assignments"] = d


c.setup = _two_entries
c.callers_inline = True  # the ghost table belongs to this contract's own verification; callers (add_envelope, C07) execute the body
c.returns("lookup_by_hex_of_class_id",
          "(result == R0) if HEX(class_id) == K0 else ((result == R1) if HEX(class_id) == K1 else (result is None))")


# ------------------------------------------------------------------------------------------------
# Build-configuration role assignments.  BuildConfiguration(file) is ASSUMED to yield the dict of the SB_CONFIG_* entries
# of the file (the line parser `_parse` is NOT under contract: exercised by the stand-ins of C13 and C19 through real .config files); the configuration is modelled for the three
# configurable roles in two file orders, every combination of presence and arbitrary vendor/class strings.
FCFG = "build_configuration/configuration.py"
NAMES = ["ROOT", "APP_LOCAL_1", "RAD_LOCAL_1"]


def _cfg_type(order):
    opt = {}
    for m in order:
        opt[f"SB_CONFIG_SUIT_MPI_{m}_VENDOR_NAME"] = Str()
        opt[f"SB_CONFIG_SUIT_MPI_{m}_CLASS_NAME"] = Str()
    opt["SB_CONFIG_SOMETHING_ELSE"] = Str()
    return DictT(optional=opt)


c = Contract(FCFG, "BuildConfiguration.__init__", ["C13"])
c.model_only = True
c.modular_only_reason = "file reading + line loop; assumed to populate the dict with the entries of the file (exercised on real .config files by the stand-ins of C13 and C19)"
c.param("self", Obj(FCFG, "BuildConfiguration"))
c.param("input_file", Str())
# the configuration modelled for EnvelopeStorage.__init__ (every configured class id is compared with every default: one path per
# coincidence) has two configurable roles in the quick tier, three in the thorough tier
import os as _os
# (named in the variant label: quick ROOT+APP_LOCAL_1; thorough every pair of the three)
INIT_PAIRS = [("ROOT", "APP_LOCAL_1")] + ([("ROOT", "RAD_LOCAL_1"), ("APP_LOCAL_1", "RAD_LOCAL_1")] if _os.environ.get("VERIF_TIER") == "thorough" else [])


def _cfg_for(it, env):
    if it.verifying == (FI, "EnvelopeStorage.__init__"):
        lab = (getattr(it, "variant_label", None) or "").split("/")[-1]
        return _cfg_type(lab.split("+") if "+" in lab else list(INIT_PAIRS[0]))
    return _cfg_type(NAMES)


c.modifies(**{"self.__dict_base__": Computed(_cfg_for)})
c.raises("SystemExit")

c = Contract(FI, "EnvelopeStorage._get_role_assignments_from_kconfig", ["C13"])
c.param("kconfig", Str())


def _kconfig_checks(it, ctx):
    """Post over the modelled configuration: read back from the assumed BuildConfiguration contract's havoced dict."""
    import z3
    calls = [t for t in it.trace if t[0] == "call" and t[1] == "BuildConfiguration.__init__"]
    if len(calls) != 1:
        return None if ctx.outcome == "raise" and ctx.exc is SystemExit else [("kconfig_roles", None)]
    cfg = calls[0][2]["self"].attrs["__dict_base__"]
    pres, v, cl = {}, {}, {}
    for m in NAMES:
        ev, ec = cfg.entries[f"SB_CONFIG_SUIT_MPI_{m}_VENDOR_NAME"], cfg.entries[f"SB_CONFIG_SUIT_MPI_{m}_CLASS_NAME"]
        pres[m] = (z3.BoolVal(True) if ev.present is True else ev.present, z3.BoolVal(True) if ec.present is True else ec.present)
        v[m], cl[m] = ev.value.e, ec.value.e
    both = {m: z3.And(*pres[m]) for m in NAMES}
    dup = z3.Or(*[z3.And(both[a], both[b], v[a] == v[b], cl[a] == cl[b]) for i, a in enumerate(NAMES) for b in NAMES[i + 1:]])
    wellformed = z3.And(*[pres[m][0] == pres[m][1] for m in NAMES])
    goals = []
    if ctx.outcome == "return":
        goals.append(("duplicate_pair_rejected", z3.Implies(wellformed, z3.Not(dup))))
        res = ctx.result
        roles = {"ROOT": "APP_ROOT", "APP_LOCAL_1": "APP_LOCAL_1", "RAD_LOCAL_1": "RAD_LOCAL_1"}
        # every present M yields exactly (vendor_M, class_M, role(M)), in file order, nothing else
        conds = []
        idx = 0
        items = res.items if hasattr(res, "items") else None
        if items is None:
            return goals + [("entries_exactly_the_configured_pairs", None)]
        expect = [m for m in NAMES]
        # the number of entries equals the number of present Ms on this path
        n_present = z3.Sum([z3.If(both[m], 1, 0) for m in NAMES])
        goals.append(("entry_count", z3.Implies(wellformed, n_present == len(items))))
        for e in items:
            ok = []
            for m in NAMES:
                ok.append(z3.And(both[m], e.entries["vendor_name"].value.e == v[m], e.entries["class_name"].value.e == cl[m],
                                 z3.BoolVal(e.entries["role"].value.name == roles[m])))
            conds.append(z3.Or(*ok))
        goals.append(("entries_exactly_the_configured_pairs", z3.Implies(wellformed, z3.And(*conds) if conds else z3.BoolVal(True))))
    elif ctx.exc.__name__ == "GeneratorError":
        goals.append(("rejection_only_for_duplicates", dup))
    return goals


c.check("kconfig", _kconfig_checks)
c.callers_inline = True  # its postcondition is read off the modelled configuration: callers (EnvelopeStorage.__init__) execute the body
c.raises("GeneratorError")
c.raises("KeyError")  # a *_VENDOR_NAME entry without its *_CLASS_NAME (malformed configuration)
c.raises("SystemExit")


# ================================================================================================
# B — bounded stand-in: the three derivation sites compared byte for byte with an independent UUIDv5, and build configurations
# ================================================================================================
def bounded(ctx):
    import importlib, itertools, copy
    from bounded.harness import Bounded
    from bounded import cborx, hexread
    from contracts.specs_native import UUID5, NAMESPACE_DNS
    from pyvc import native
    import logging
    native.install_log_shim()
    logging.disable(logging.CRITICAL)
    quick = ctx["tier"] == "quick"
    B = Bounded(ctx, rule="for vendor/class names (ASCII, non-ASCII, empty, long): the class id in a manifest created from a namespace/name description, bytes 16..47 of the MPI "
                          "record and the id under which EnvelopeStorage files the role are compared with sha1-based UUIDv5(UUIDv5(DNS, vendor), class); build configurations "
                          "assigning the three configurable roles from a pool of pairs (incl. collisions with each other and with the defaults, non-ASCII names) through the real "
                          "configuration file reader: duplicates rejected, otherwise exactly the named pairs get the configured role and configured roles win over defaults",
                bound="9 x 9 names; all 1-, 2- and 3-role configurations over a pool of 6 pairs (quick: every 3rd)", budget_s=60 if quick else 400)
    img = importlib.import_module("suit_generator.cmd_image")
    mpi = importlib.import_module("suit_generator.cmd_mpi")
    GeneratorError = importlib.import_module("suit_generator.exceptions").GeneratorError
    from suit_generator.suit.envelope import SuitEnvelopeTagged
    d = B.fresh_dir("c13")
    names = ["nordicsemi.com", "", "a", "vendor-é中", "x" * 300, "Nordic Semiconductor ASA®", "with space", "UPPER", "nRF54H20_sample_app"]
    n = 0
    for vendor, cls in itertools.product(names, names):
        n += 1
        if quick and n % 3:
            continue
        want_v = UUID5(NAMESPACE_DNS, vendor)
        want_c = UUID5(want_v, cls)
        case = {"vendor": vendor[:24], "class": cls[:24]}
        B.case((vendor[:8], cls[:8], n), sample=case if n in (4, 30) else None)
        desc = {"SUIT_Envelope_Tagged": {"suit-authentication-wrapper": {"SuitDigest": {"suit-digest-algorithm-id": "cose-alg-sha-256"}},
                                         "suit-manifest": {"suit-manifest-version": 1, "suit-manifest-sequence-number": 1, "suit-common": {"suit-components": [["M"]], "suit-shared-sequence": [
                                             {"suit-directive-override-parameters": {"suit-parameter-vendor-identifier": {"RFC4122_UUID": vendor},
                                                                                     "suit-parameter-class-identifier": {"RFC4122_UUID": {"namespace": vendor, "name": cls}}}}]},
                                                           "suit-manifest-component-id": ["INSTLD_MFST", {"RFC4122_UUID": {"namespace": vendor, "name": cls}}]}}}
        b = SuitEnvelopeTagged.from_obj(copy.deepcopy(desc)).to_cbor()
        man = cborx.decode_all(cborx.decode_all(b).value.get(3))
        params = cborx.decode_all(cborx.decode_all(man.get(3)).get(4))[1]
        if params.get(1) != want_v or params.get(2) != want_c or man.get(5)[1] != want_c:
            B.fail("manifest-ids-are-uuid5-of-the-names", case, f"vendor {params.get(1).hex()} class {params.get(2).hex()}")
        out = f"{d}/m.hex"
        mpi.MpiGenerator.generate(out, vendor, cls, 0x100, 48, False, False, None)
        mem = hexread.parse_file(out)
        rec = bytes(mem[0x100 + i] for i in range(48))
        if rec[16:32] != want_v or rec[32:48] != want_c:
            B.fail("mpi-record-ids-are-uuid5-of-the-names", case, f"vendor {rec[16:32].hex()} class {rec[32:48].hex()}")
        st = img.EnvelopeStorageNrf54h20(0, load_defaults=False)
        st.assign_role(vendor, cls, img.ManifestRole.APP_LOCAL_3)
        if st._find_role(want_c) != img.ManifestRole.APP_LOCAL_3:
            B.fail("storage-role-is-filed-under-uuid5-of-the-names", case, f"assignments keyed by {list(st._assignments)[:1]}")
    # build configurations
    pool = [("nordicsemi.com", "nRF54H20_sample_app"), ("nordicsemi.com", "nRF54H20_sample_rad"), ("acme.com", "acme_app"), ("acme.com", "acme_rad"), ("vendor-é中", "class ü"), ("nordicsemi.com", "nRF54H20_sample_root")]
    cfg_roles = ["ROOT", "APP_LOCAL_1", "RAD_LOCAL_1"]
    role_of = {"ROOT": "APP_ROOT", "APP_LOCAL_1": "APP_LOCAL_1", "RAD_LOCAL_1": "RAD_LOCAL_1"}
    defaults = {(e["vendor_name"], e["class_name"]): e["role"].name for e in img.EnvelopeStorageNrf54h20._CLASS_ROLE_ASSIGNMENTS}
    k = 0
    for r in (1, 2, 3):
        for roles in itertools.combinations(cfg_roles, r):
            for pairs in itertools.product(pool, repeat=r):
                k += 1
                if quick and k % 3:
                    continue
                if B.out_of_time():
                    break
                cfgp = f"{d}/kc"
                with open(cfgp, "w", encoding="utf-8") as fh:
                    for role, (v, c) in zip(roles, pairs):
                        fh.write(f'SB_CONFIG_SUIT_MPI_{role}_VENDOR_NAME="{v}"\nSB_CONFIG_SUIT_MPI_{role}_CLASS_NAME="{c}"\n')
                case = {"config": {role: list(p) for role, p in zip(roles, pairs)}}
                B.case(("kconfig", roles, pairs), sample=case if k in (3, 60) else None)
                dup = len(set(pairs)) != len(pairs)
                try:
                    st = img.EnvelopeStorageNrf54h20(0, load_defaults=True, kconfig=cfgp)
                except GeneratorError:
                    if not dup:
                        B.fail("valid-configuration-accepted", case, "rejected")
                    continue
                except Exception as e:  # noqa: BLE001
                    B.fail("valid-configuration-accepted", case, f"{type(e).__name__}: {e}")
                    continue
                if dup:
                    B.fail("one-pair-given-to-two-roles-is-rejected", case, "accepted")
                    continue
                want = dict(defaults)
                for role, p in zip(roles, pairs):
                    want[p] = role_of[role]
                for (v, c), role in want.items():
                    got = st._find_role(UUID5(UUID5(NAMESPACE_DNS, v), c))
                    if got is None or got.name != role:
                        B.fail("configured-role-applies-to-exactly-the-named-pair", case, f"{v}/{c}: role {got} expected {role}")
                        break
    return B.done()


# ------------------------------------------------------------------------------------------------
# EnvelopeStorage.__init__: the ORDER of the two sources (defaults first, build configuration second, later wins) decides which
# role a class gets.  The body is executed with the real assign_role / _get_role_assignments_from_kconfig on the modelled
# configuration (three configurable roles, arbitrary vendor/class strings, any presence combination; BuildConfiguration assumed);
# every way a configured class id can coincide with a default's or with another configured one is a separate path.
def _init_checks(it, ctx):
    import z3
    import uuid as _uuid
    from pyvc.values import VDict, VStr, VBytes, SymKey, VNone
    from pyvc import stubs
    if ctx.outcome != "return":
        return None
    slf = ctx.arg("self")
    table = slf.attrs.get("_assignments")
    if not isinstance(table, VDict):
        return [("assignments_is_a_table", z3.BoolVal(False))]
    goals = [("base_address_kept", z3.BoolVal(slf.attrs.get("_base_address") is ctx.arg("base_address"))),
             ("no_envelopes_yet", z3.BoolVal(isinstance(slf.attrs.get("_envelopes"), VDict) and not slf.attrs["_envelopes"].entries))]
    roles = {"ROOT": "APP_ROOT", "APP_LOCAL_1": "APP_LOCAL_1", "RAD_LOCAL_1": "RAD_LOCAL_1"}
    # configured pairs that are present on this path, in file order
    calls = [t for t in it.trace if t[0] == "call" and t[1] == "BuildConfiguration.__init__"]
    kc = ctx.arg("kconfig")
    conf = []
    if calls:
        cfg = calls[0][2]["self"].attrs["__dict_base__"]
        for key in it.dict_keys(cfg):
            if isinstance(key, str) and key.endswith("_VENDOR_NAME") and key.startswith("SB_CONFIG_SUIT_MPI_"):
                m = key[len("SB_CONFIG_SUIT_MPI_"):-len("_VENDOR_NAME")]
                ck = f"SB_CONFIG_SUIT_MPI_{m}_CLASS_NAME"
                if m in roles and ck in cfg.entries:
                    conf.append((m, cfg.entries[key].value, cfg.entries[ck].value))
    elif not (isinstance(kc, VNone) or (isinstance(kc, VStr) and kc.conc == "")):
        if not it.must(z3.Length(kc.e) == 0):
            return goals + [("configuration_was_read", z3.BoolVal(False))]
    dns = VBytes(_uuid.NAMESPACE_DNS.bytes).e
    K = {m: stubs.HEX(stubs.UUID5(stubs.UUID5(dns, v.e), c.e)) for m, v, c in conf}
    # defaults (read from the class under verification)
    ld = ctx.arg("load_defaults")
    defaults = []
    loaded = ld.conc if getattr(ld, "conc", None) is not None else (True if it.must(ld.e) else (False if it.must(z3.Not(ld.e)) else None))
    if loaded is None:
        return goals + [("defaults_decided_on_this_path", None)]
    if loaded:
        asg, _ = slf.cls.lookup("_CLASS_ROLE_ASSIGNMENTS")
        for e in asg.items:
            v, cname, role = e.entries["vendor_name"].value.conc, e.entries["class_name"].value.conc, e.entries["role"].value.name
            cid = _uuid.uuid5(_uuid.uuid5(_uuid.NAMESPACE_DNS, v), cname)
            defaults.append((cid.hex, role, cid.bytes, _uuid.uuid5(_uuid.NAMESPACE_DNS, v).bytes))

    def key_term(k):
        return k.v.e if isinstance(k, SymKey) else z3.StringVal(k)

    entries = [(key_term(k), e.value) for k, e in table.entries.items()]

    def role_is(val, name):
        r = val.entries["role"].value if isinstance(val, VDict) and "role" in val.entries else None
        return z3.BoolVal(r is not None and getattr(r, "name", None) == name)

    # (1) every configured pair maps to ITS role (unless a later configured pair has the same class id), with the ids of that pair
    for i, (m, v, c) in enumerate(conf):
        later_same = [K[m2] == K[m] for m2, _, _ in conf[i + 1:]]
        alts = []
        for kt, val in entries:
            ids_ok = z3.BoolVal(False)
            if isinstance(val, VDict) and "class_id" in val.entries and "vendor_id" in val.entries:
                ids_ok = z3.And(val.entries["class_id"].value.e == stubs.UUID5(stubs.UUID5(dns, v.e), c.e), val.entries["vendor_id"].value.e == stubs.UUID5(dns, v.e))
            alts.append(z3.And(kt == K[m], z3.Or(z3.And(role_is(val, roles[m]), ids_ok), *later_same)))
        goals.append((f"configured_pair_gets_its_role[{m}]", z3.Or(*alts) if alts else z3.BoolVal(False)))
    # (2) a default stays unless the configuration names the same class id (the configuration wins)
    for hx, role, cid, vid in defaults:
        overridden = [K[m] == z3.StringVal(hx) for m, _, _ in conf]
        alts = [z3.And(kt == z3.StringVal(hx), z3.Or(role_is(val, role), *overridden)) for kt, val in entries]
        goals.append((f"default_kept_unless_configured[{role}]", z3.Or(*alts) if alts else z3.BoolVal(False)))
    # (3) nothing else is in the table
    for n, (kt, val) in enumerate(entries):
        goals.append((f"only_defaults_and_configured_pairs[{n}]", z3.Or(*([kt == z3.StringVal(hx) for hx, _, _, _ in defaults] + [kt == K[m] for m, _, _ in conf]))
                      if (defaults or conf) else z3.BoolVal(False)))
    return goals


c = Contract(FI, "EnvelopeStorage.__init__", ["C13", "C07"])
c.param("self", Obj(FI, "EnvelopeStorageNrf54h20"))
c.param("base_address", Int(0, 2 ** 32 - 1))
c.param("load_defaults", Bool())
c.param("kconfig", OneOf(NoneT(), Str()))
c.variants = [(f"{cls}/{a}+{b}", {"self": Obj(FI, cls)}) for cls in ("EnvelopeStorageNrf54h20", "EnvelopeStorageNrf9280") for a, b in INIT_PAIRS]
c.check("order", _init_checks)
c.raises("GeneratorError")
c.raises("KeyError")
c.raises("SystemExit")
# call sites (the boot orchestration, C07) see the constructor as: sets the three attributes, may reject the configuration
c.modifies(**{"self._assignments": DictT(), "self._base_address": Int(), "self._envelopes": DictT()})
