"""C13 — Vendor/class UUIDs are derived identically everywhere (contracts).

Three derivation sites get the SAME postcondition terms vendor_id(v) = UUID5(DNS, v), class_id(v, c) = UUID5(UUID5(DNS, v), c)
with UUID5 uninterpreted: create (SuitUUID.from_obj), the MPI record (MpiGenerator.generate, contract in C12_mpi.py tagged C13)
and the role table of `image boot` (EnvelopeStorage.assign_role / _find_role).
"""
from pyvc.contract import Contract
from pyvc.types import Int, Bool, Bytes, Str, Obj, PathStr, OneOf, ListT, NoneT, Const, DictT, EnumT, ClsT, Opt

PROPERTY = "C13"
LEVEL = "proof"
FM = "suit_generator/suit/manifest.py"
FI = "suit_generator/cmd_image.py"

# ------------------------------------------------------------------------------------------------
c = Contract(FM, "SuitUUID.from_obj", ["C13"])
c.param("cls", ClsT(FM, "SuitUUID"))
c.param("obj", DictT())
c.variants = [
    ("namespace+name", {"obj": DictT(required={"RFC4122_UUID": DictT(required={"namespace": Str(), "name": Str()})})}),
    ("name-only", {"obj": DictT(required={"RFC4122_UUID": DictT(required={"name": Str()})})}),
    ("plain-name", {"obj": DictT(required={"RFC4122_UUID": Str()})}),
    ("raw", {"obj": DictT(required={"raw": Str()})}),
    ("no-name", {"obj": DictT(required={"RFC4122_UUID": DictT(required={"namespace": Str()})})}),
    ("other-key", {"obj": DictT(required={"something": Str()})}),
]
c.callers_inline = True  # probed with arbitrary (non-dict) descriptions by SuitUnion.from_obj; callers execute the body
c.let("u", "obj['RFC4122_UUID'] if 'RFC4122_UUID' in obj else None")
c.returns("class_id_from_namespace_and_name",
          "not (isinstance(u, dict) and 'namespace' in u) or result.SuitUUID == class_id(u['namespace'], u['name'])")
c.returns("vendor_id_from_name",
          "not (isinstance(u, dict) and 'namespace' not in u) or result.SuitUUID == vendor_id(u['name'])")
c.returns("vendor_id_from_plain_name", "not isinstance(u, str) or result.SuitUUID == vendor_id(u)")
c.returns("raw", "u is not None or result.SuitUUID == UNHEX(obj['raw'])")
c.raises("ValueError")

# ------------------------------------------------------------------------------------------------
ENTRY = DictT(required={"vendor_id": Bytes(16), "class_id": Bytes(16), "role": EnumT(FI, "ManifestRole", members=["APP_ROOT", "APP_LOCAL_1", "RAD_LOCAL_1"])})
c = Contract(FI, "EnvelopeStorage.assign_role", ["C13"])
c.param("self", Obj(FI, "EnvelopeStorage", _assignments=DictT()))
c.param("vendor_name", Str())
c.param("class_name", Str())
c.param("role", EnumT(FI, "ManifestRole", members=["APP_ROOT", "APP_LOCAL_1", "APP_LOCAL_2", "RAD_LOCAL_1", "SEC_TOP"]))
c.returns("keyed_by_class_id", "HEX(class_id(vendor_name, class_name)) in self._assignments")
c.returns("entry", "self._assignments[HEX(class_id(vendor_name, class_name))] == "
                   "{'vendor_id': vendor_id(vendor_name), 'class_id': class_id(vendor_name, class_name), 'role': role}")
c.returns("one_entry_added", "len(self._assignments) == 1")

c = Contract(FI, "EnvelopeStorage._find_role", ["C13"])
c.param("self", Obj(FI, "EnvelopeStorage", _assignments=DictT()))
c.param("class_id", Bytes())
c.ghost("K0", Str())
c.ghost("K1", Str())
c.ghost("R0", EnumT(FI, "ManifestRole", members=["APP_ROOT", "RAD_LOCAL_1"]))
c.ghost("R1", EnumT(FI, "ManifestRole", members=["APP_LOCAL_1", "RAD_LOCAL_1"]))


def _two_entries(it, env):
    """State: a role table with two arbitrary, distinct keys K0, K1 (complete for the lookup: any table is a finite list of such)."""
    import z3
    from pyvc.values import VDict, DEntry, SymKey, VBytes
    from pyvc.types import make_value, Bytes as B
    slf = env.lookup("self")
    d = VDict()
    for kname, rname in (("K0", "R0"), ("K1", "R1")):
        k = env.lookup(kname)
        val = VDict([("vendor_id", make_value(it, B(16), kname + ".vid")), ("class_id", make_value(it, B(16), kname + ".cid")), ("role", env.lookup(rname))])
        d.entries[SymKey(k)] = DEntry(SymKey(k), val)
    it.assume(env.lookup("K0").e != env.lookup("K1").e)
    slf.attrs["_assignments"] = d


c.setup = _two_entries
c.returns("lookup_by_hex_of_class_id",
          "(result == R0) if HEX(class_id) == K0 else ((result == R1) if HEX(class_id) == K1 else (result is None))")


# ------------------------------------------------------------------------------------------------
# Build-configuration role assignments.  BuildConfiguration(file) is ASSUMED to yield the dict of the SB_CONFIG_* entries
# of the file (its line parser `_parse` is verified separately below); the configuration is modelled for the three
# configurable roles in two file orders, every combination of presence and arbitrary vendor/class strings.
FCFG = "build_configuration/configuration.py"
NAMES = ["ROOT", "APP_LOCAL_1", "RAD_LOCAL_1"]


def _cfg_type(order):
    opt = {}
    for m in order:
        opt[f"SB_CONFIG_SUIT_MPI_{m}_VENDOR_NAME"] = Str()
        opt[f"SB_CONFIG_SUIT_MPI_{m}_CLASS_NAME"] = Str()
    opt["SB_CONFIG_SOMETHING_ELSE"] = Str()
    return DictT(optional=opt)


c = Contract(FCFG, "BuildConfiguration.__init__", ["C13"])
c.model_only = True
c.modular_only_reason = "file reading + line loop; assumed to populate the dict with the entries of the file (line parser verified separately)"
c.param("self", Obj(FCFG, "BuildConfiguration"))
c.param("input_file", Str())
c.modifies(**{"self.__dict_base__": _cfg_type(NAMES)})
c.raises("SystemExit")

c = Contract(FI, "EnvelopeStorage._get_role_assignments_from_kconfig", ["C13"])
c.param("kconfig", Str())


def _kconfig_checks(it, ctx):
    """Post over the modelled configuration: read back from the assumed BuildConfiguration contract's havoced dict."""
    import z3
    calls = [t for t in it.trace if t[0] == "call" and t[1] == "BuildConfiguration.__init__"]
    if len(calls) != 1:
        return None if ctx.outcome == "raise" and ctx.exc is SystemExit else [("kconfig_roles", None)]
    cfg = calls[0][2]["self"].attrs["__dict_base__"]
    pres, v, cl = {}, {}, {}
    for m in NAMES:
        ev, ec = cfg.entries[f"SB_CONFIG_SUIT_MPI_{m}_VENDOR_NAME"], cfg.entries[f"SB_CONFIG_SUIT_MPI_{m}_CLASS_NAME"]
        pres[m] = (z3.BoolVal(True) if ev.present is True else ev.present, z3.BoolVal(True) if ec.present is True else ec.present)
        v[m], cl[m] = ev.value.e, ec.value.e
    both = {m: z3.And(*pres[m]) for m in NAMES}
    dup = z3.Or(*[z3.And(both[a], both[b], v[a] == v[b], cl[a] == cl[b]) for i, a in enumerate(NAMES) for b in NAMES[i + 1:]])
    wellformed = z3.And(*[pres[m][0] == pres[m][1] for m in NAMES])
    goals = []
    if ctx.outcome == "return":
        goals.append(("duplicate_pair_rejected", z3.Implies(wellformed, z3.Not(dup))))
        res = ctx.result
        roles = {"ROOT": "APP_ROOT", "APP_LOCAL_1": "APP_LOCAL_1", "RAD_LOCAL_1": "RAD_LOCAL_1"}
        # every present M yields exactly (vendor_M, class_M, role(M)), in file order, nothing else
        conds = []
        idx = 0
        items = res.items if hasattr(res, "items") else None
        if items is None:
            return goals + [("entries_exactly_the_configured_pairs", None)]
        expect = [m for m in NAMES]
        # the number of entries equals the number of present Ms on this path
        n_present = z3.Sum([z3.If(both[m], 1, 0) for m in NAMES])
        goals.append(("entry_count", z3.Implies(wellformed, n_present == len(items))))
        for e in items:
            ok = []
            for m in NAMES:
                ok.append(z3.And(both[m], e.entries["vendor_name"].value.e == v[m], e.entries["class_name"].value.e == cl[m],
                                 z3.BoolVal(e.entries["role"].value.name == roles[m])))
            conds.append(z3.Or(*ok))
        goals.append(("entries_exactly_the_configured_pairs", z3.Implies(wellformed, z3.And(*conds) if conds else z3.BoolVal(True))))
    elif ctx.exc.__name__ == "GeneratorError":
        goals.append(("rejection_only_for_duplicates", dup))
    return goals


c.check("kconfig", _kconfig_checks)
c.raises("GeneratorError")
c.raises("KeyError")  # a *_VENDOR_NAME entry without its *_CLASS_NAME (malformed configuration)
c.raises("SystemExit")
