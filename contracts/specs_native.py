"""Native bindings of the spec functions that are UNINTERPRETED on the solver side (independent implementations)."""
import hashlib

from bounded import cborx, hexread


def HASH(name, size, data):
    name = name.lower().replace("-", "")
    if name in ("shake128", "shake256"):
        return getattr(hashlib, {"shake128": "shake_128", "shake256": "shake_256"}[name])(data).digest(size)
    d = hashlib.new(name, data).digest()
    assert len(d) == size, (name, size)
    return d


NAMESPACE_DNS = bytes.fromhex("6ba7b8109dad11d180b400c04fd430c8")


def UUID5(ns_bytes, name):
    """RFC 4122 version 5 (SHA-1, name-based) computed with hashlib only."""
    if isinstance(name, str):
        name = name.encode("utf-8")
    h = bytearray(hashlib.sha1(bytes(ns_bytes) + name).digest()[:16])
    h[6] = (h[6] & 0x0F) | 0x50
    h[8] = (h[8] & 0x3F) | 0x80
    return bytes(h)


def HEX(b):
    return "".join("%02x" % x for x in b)


def ENC(v):
    return cborx.encode(v)


def utf8(s):
    return s.encode("utf-8")


def TAG(t, v):
    return cborx.Tag(t, v)


# ---- ghost file system (native: the real file system) -------------------------------------------------
def FILE(path):
    with open(path, "rb") as fh:
        return fh.read()


def TEXTFILE(path):
    with open(path, "r") as fh:
        return fh.read()


def EXISTS(path):
    import os
    return os.path.isfile(path)


# ---- hex maps (native: dict address -> byte, read with the independent reader) ------------------------
def HEXMAP(content):
    return hexread.parse(content)


def HEX_FILE_OK(content):
    try:
        hexread.parse(content)
        return True
    except Exception:
        return False


def HEX_EMPTY():
    return {}


def HEX_PUT(m, addr, data):
    r = dict(m)
    for i, x in enumerate(data):
        r[addr + i] = x
    return r


def HEX_MERGE(a, b):
    r = dict(a)
    r.update(b)
    return r


def HEX_OVERLAP(a, b):
    return bool(set(a) & set(b))


def HEX_ISEMPTY(a):
    return not a


def HEX_MIN(a):
    return min(a)


def HEX_MAX(a):
    return max(a)


def HEX_TOBIN(m, start, end, pad):
    return bytes(m.get(i, pad) for i in range(start, end + 1))


def in_version_grammar(s):
    import re
    return re.fullmatch(r"[0-9]+(\.[0-9]+)*(-(alpha|beta|rc)(\.[0-9]+)?)?", s) is not None


def AESGCM_ENC(key, nonce, pt, aad):
    """AES-GCM with pycryptodome (independent of the `cryptography` package the tool uses): ciphertext || tag."""
    from Crypto.Cipher import AES
    c = AES.new(key, AES.MODE_GCM, nonce=nonce)
    c.update(aad)
    ct, tag = c.encrypt_and_digest(pt)
    return ct + tag


def AESGCM_DEC(key, nonce, ct, tag, aad):
    from Crypto.Cipher import AES
    c = AES.new(key, AES.MODE_GCM, nonce=nonce)
    c.update(aad)
    return c.decrypt_and_verify(ct, tag)


def pathstr(p):
    return str(p)


def KEYS_DIR(context):
    """Key directory of ncs/basic_kms.py for a context string (mirrors parse_context for path and None contexts)."""
    import pathlib, json, os
    if context is None:
        import ncs.basic_kms as m
        return str(pathlib.Path(m.__file__).parent)
    if os.path.isdir(context):
        return str(pathlib.Path(context))
    return str(pathlib.Path(json.loads(context)["keys_directory"]))


def UNHEX(s):
    return bytes.fromhex(s)


def KEY_IS_EC(k):
    from cryptography.hazmat.primitives.asymmetric.ec import EllipticCurvePrivateKey
    return isinstance(k, EllipticCurvePrivateKey)


def KEY_SIZE(k):
    return k.key_size if KEY_IS_EC(k) else 256


def KEY_KIND(k):
    return "ec" if KEY_IS_EC(k) else type(k).__name__.lower().replace("privatekey", "").replace("_", "")
