"""Pinned vocabulary of the description language: (class name in keys.py) -> (symbolic name, registered integer).

Written from draft-ietf-suit-manifest, -trust-domains, -update-management, RFC 9052/9053 (COSE), RFC 8392 (CWT) and the
Nordic invoke-args extension; the name strings are pinned as they are today (they are the user-facing language;
`suit_uninstall` is spelled with an underscore and pinned like that).  C08 compares the vocabulary READ FROM THE AST of
/repo with this table on every run; C01/C02 take ids from here, never from the code under test."""

VOCAB = {
    'suit_reference_uri': ('suit-reference-uri', 4),  # (defined in keys.py without the suit_key base class)
    'suit_digest_bytes': ('suit-digest-bytes', None),
    'suit_digest_algorithm_id': ('suit-digest-algorithm-id', None),
    'suit_manifest_version': ('suit-manifest-version', 1),
    'suit_manifest_sequence_number': ('suit-manifest-sequence-number', 2),
    'suit_directive_process_dependency': ('suit-directive-process-dependency', 11),
    'suit_directive_set_component_index': ('suit-directive-set-component-index', 12),
    'suit_directive_try_each': ('suit-directive-try-each', 15),
    'suit_directive_write': ('suit-directive-write', 18),
    'suit_directive_set_parameters': ('suit-directive-set-parameters', 19),
    'suit_directive_override_parameters': ('suit-directive-override-parameters', 20),
    'suit_directive_fetch': ('suit-directive-fetch', 21),
    'suit_directive_copy': ('suit-directive-copy', 22),
    'suit_directive_invoke': ('suit-directive-invoke', 23),
    'suit_directive_swap': ('suit-directive-swap', 31),
    'suit_directive_run_sequence': ('suit-directive-run-sequence', 32),
    'suit_directive_unlink': ('suit-directive-unlink', 33),
    'suit_parameter_version': ('suit-parameter-version', 28),
    'suit_parameter_vendor_identifier': ('suit-parameter-vendor-identifier', 1),
    'suit_parameter_class_identifier': ('suit-parameter-class-identifier', 2),
    'suit_parameter_image_digest': ('suit-parameter-image-digest', 3),
    'suit_parameter_component_slot': ('suit-parameter-component-slot', 5),
    'suit_parameter_strict_order': ('suit-parameter-strict-order', 12),
    'suit_parameter_soft_failure': ('suit-parameter-soft-failure', 13),
    'suit_parameter_image_size': ('suit-parameter-image-size', 14),
    'suit_parameter_content': ('suit-parameter-content', 18),
    'suit_parameter_encryption_info': ('suit-parameter-encryption-info', 19),
    'suit_parameter_uri': ('suit-parameter-uri', 21),
    'suit_parameter_source_component': ('suit-parameter-source-component', 22),
    'suit_parameter_invoke_args': ('suit-parameter-invoke-args', 23),
    'suit_parameter_device_identifier': ('suit-parameter-device-identifier', 24),
    'suit_dependencies': ('suit-dependencies', 1),
    'suit_components': ('suit-components', 2),
    'suit_shared_sequence': ('suit-shared-sequence', 4),
    'suit_common': ('suit-common', 3),
    'suit_manifest_component_id': ('suit-manifest-component-id', 5),
    'suit_current_version': ('suit-current-version', 6),
    'suit_validate': ('suit-validate', 7),
    'suit_load': ('suit-load', 8),
    'suit_invoke': ('suit-invoke', 9),
    'suit_payload_fetch': ('suit-payload-fetch', 16),
    'suit_install_legacy': ('suit-install-legacy', 17),
    'suit_install': ('suit-install', 20),
    'suit_text': ('suit-text', 23),
    'suit_integrated_payloads': ('suit-integrated-payloads', -1),
    'suit_integrated_dependencies': ('suit-integrated-dependencies', -2),
    'suit_uninstall': ('suit_uninstall', 24),
    'suit_text_manifest_description': ('suit-text-manifest-description', 1),
    'suit_text_update_description': ('suit-text-update-description', 2),
    'suit_text_manifest_json_source': ('suit-text-manifest-json-source', 3),
    'suit_text_manifest_yaml_source': ('suit-text-manifest-yaml-source', 4),
    'suit_text_vendor_name': ('suit-text-vendor-name', 1),
    'suit_text_model_name': ('suit-text-model-name', 2),
    'suit_text_vendor_domain': ('suit-text-vendor-domain', 3),
    'suit_text_model_info': ('suit-text-model-info', 4),
    'suit_text_component_description': ('suit-text-component-description', 5),
    'suit_text_component_version': ('suit-text-component-version', 6),
    'suit_delegation': ('suit-delegation', 1),
    'suit_authentication_wrapper': ('suit-authentication-wrapper', 2),
    'suit_manifest': ('suit-manifest', 3),
    'suit_dependency_resolution': ('suit-dependency-resolution', 15),
    'suit_candidate_verification': ('suit-candidate-verification', 18),
    'suit_condition_version': ('suit-condition-version', 28),
    'suit_condition_version_comparison_greater': ('suit-condition-version-comparison-greater', 1),
    'suit_condition_version_comparison_greater_equal': ('suit-condition-version-comparison-greater-equal', 2),
    'suit_condition_version_comparison_equal': ('suit-condition-version-comparison-equal', 3),
    'suit_condition_version_comparison_lesser_equal': ('suit-condition-version-comparison-lesser-equal', 4),
    'suit_condition_version_comparison_lesser': ('suit-condition-version-comparison-lesser', 5),
    'suit_condition_vendor_identifier': ('suit-condition-vendor-identifier', 1),
    'suit_condition_class_identifier': ('suit-condition-class-identifier', 2),
    'suit_condition_image_match': ('suit-condition-image-match', 3),
    'suit_condition_component_slot': ('suit-condition-component-slot', 5),
    'suit_condition_check_content': ('suit-condition-check-content', 6),
    'suit_condition_dependency_integrity': ('suit-condition-dependency-integrity', 7),
    'suit_condition_is_dependency': ('suit-condition-is-dependency', 8),
    'suit_condition_abort': ('suit-condition-abort', 14),
    'suit_condition_device_identifier': ('suit-condition-device-identifier', 24),
    'suit_dependency_prefix': ('suit-dependency-prefix', 1),
    'suit_cose_algorithm_id': ('suit-cose-algorithm-id', 1),
    'suit_cose_key_id': ('suit-cose-key-id', 4),
    'suit_cose_iv': ('suit-cose-iv', 5),
    'suit_issuer': ('Issuer', 1),
    'suit_subject': ('Subject', 2),
    'suit_audience': ('Audience', 3),
    'suit_expiration_time': ('Expiration Time', 4),
    'suit_not_before': ('Not Before', 5),
    'suit_issued_at': ('Issued At', 6),
    'suit_cw_id': ('CW ID', 7),
    'cose_alg_sha_256': ('cose-alg-sha-256', -16),
    'cose_alg_shake128': ('cose-alg-shake128', -18),
    'cose_alg_sha_384': ('cose-alg-sha-384', -43),
    'cose_alg_sha_512': ('cose-alg-sha-512', -44),
    'cose_alg_shake256': ('cose-alg-shake256', -45),
    'cose_alg_es_256': ('cose-alg-es-256', -7),
    'cose_alg_es_384': ('cose-alg-es-384', -35),
    'cose_alg_es_521': ('cose-alg-es-521', -36),
    'cose_alg_eddsa': ('cose-alg-eddsa', -8),
    'cose_alg_vs_hash_eddsa': ('cose-alg-vs-hash-eddsa', -65537),
    'cose_alg_aes_gcm_128': ('cose-alg-aes-gcm-128', 1),
    'cose_alg_aes_gcm_192': ('cose-alg-aes-gcm-192', 2),
    'cose_alg_aes_gcm_256': ('cose-alg-aes-gcm-256', 3),
    'cose_alg_a256kw': ('cose-alg-a256kw', -5),
    'cose_alg_a192kw': ('cose-alg-a192kw', -4),
    'cose_alg_a128kw': ('cose-alg-a128kw', -3),
    'cose_alg_direct': ('cose-alg-direct', -6),
    'suit_send_record_success': ('suit-send-record-success', 1),
    'suit_send_record_failure': ('suit-send-record-failure', 2),
    'suit_send_sysinfo_success': ('suit-send-sysinfo-success', 4),
    'suit_send_sysinfo_failure': ('suit-send-sysinfo-failure', 8),
    'suit_synchronous_invoke': ('suit-synchronous-invoke', 1),
    'suit_timeout': ('suit-timeout', 2),
}

# key spaces: which names are legal where (key space -> list of class names)  — from the CDDL
SPACES = {
    "envelope": ["suit_delegation", "suit_authentication_wrapper", "suit_manifest", "suit_dependency_resolution", "suit_payload_fetch",
                 "suit_candidate_verification", "suit_install", "suit_install_legacy", "suit_text", "suit_integrated_payloads", "suit_integrated_dependencies"],
    "manifest": ["suit_manifest_version", "suit_manifest_sequence_number", "suit_common", "suit_reference_uri", "suit_manifest_component_id",
                 "suit_current_version", "suit_validate", "suit_load", "suit_invoke", "suit_payload_fetch", "suit_install", "suit_install_legacy",
                 "suit_text", "suit_dependency_resolution", "suit_candidate_verification", "suit_uninstall"],
    "common": ["suit_dependencies", "suit_components", "suit_shared_sequence"],
    "condition": ["suit_condition_vendor_identifier", "suit_condition_class_identifier", "suit_condition_image_match", "suit_condition_component_slot",
                  "suit_condition_check_content", "suit_condition_dependency_integrity", "suit_condition_is_dependency", "suit_condition_abort",
                  "suit_condition_device_identifier", "suit_condition_version"],
    "directive": ["suit_directive_set_component_index", "suit_directive_try_each", "suit_directive_write", "suit_directive_set_parameters",
                  "suit_directive_override_parameters", "suit_directive_fetch", "suit_directive_copy", "suit_directive_invoke", "suit_directive_swap",
                  "suit_directive_run_sequence", "suit_directive_process_dependency", "suit_directive_unlink"],
    "parameter": ["suit_parameter_vendor_identifier", "suit_parameter_class_identifier", "suit_parameter_image_digest", "suit_parameter_component_slot",
                  "suit_parameter_strict_order", "suit_parameter_soft_failure", "suit_parameter_image_size", "suit_parameter_content",
                  "suit_parameter_encryption_info", "suit_parameter_uri", "suit_parameter_source_component", "suit_parameter_invoke_args",
                  "suit_parameter_device_identifier", "suit_parameter_version"],
    "text": ["suit_text_manifest_description", "suit_text_update_description", "suit_text_manifest_json_source", "suit_text_manifest_yaml_source"],
    "text_component": ["suit_text_vendor_name", "suit_text_model_name", "suit_text_vendor_domain", "suit_text_model_info",
                       "suit_text_component_description", "suit_text_component_version"],
    "cose_header": ["suit_cose_algorithm_id", "suit_cose_key_id", "suit_cose_iv"],
    "cose_alg": ["cose_alg_es_256", "cose_alg_es_384", "cose_alg_es_521", "cose_alg_eddsa", "cose_alg_vs_hash_eddsa", "cose_alg_aes_gcm_128",
                 "cose_alg_aes_gcm_192", "cose_alg_aes_gcm_256", "cose_alg_a256kw", "cose_alg_a192kw", "cose_alg_a128kw", "cose_alg_direct"],
    "hash_alg": ["cose_alg_sha_256", "cose_alg_shake128", "cose_alg_sha_384", "cose_alg_sha_512", "cose_alg_shake256"],
    "cwt": ["suit_issuer", "suit_subject", "suit_audience", "suit_expiration_time", "suit_not_before", "suit_issued_at", "suit_cw_id"],
    "report_policy": ["suit_send_record_success", "suit_send_record_failure", "suit_send_sysinfo_success", "suit_send_sysinfo_failure"],
    "version_comparison": ["suit_condition_version_comparison_greater", "suit_condition_version_comparison_greater_equal",
                           "suit_condition_version_comparison_equal", "suit_condition_version_comparison_lesser_equal", "suit_condition_version_comparison_lesser"],
    "invoke_args": ["suit_synchronous_invoke", "suit_timeout"],
    "dependency_metadata": ["suit_dependency_prefix"],
}

TAGS = {"SUIT_Envelope_Tagged": 107, "CoseSign1Tagged": 18, "CoseEncryptTagged": 96}

# digest algorithms: COSE id -> (hashlib-style name, output length in bytes)   (RFC 9054; SHAKE128 -> 128 bit... 256-bit digests per SUIT MTI)
HASHES = {-16: ("sha256", 32), -18: ("shake128", 16), -43: ("sha384", 48), -44: ("sha512", 64), -45: ("shake256", 32)}


def name_of(cls):
    return VOCAB[cls][0]


def id_of(cls):
    return VOCAB[cls][1]


def id_by_name(space, name):
    for c in SPACES[space]:
        if VOCAB[c][0] == name:
            return VOCAB[c][1]
    raise KeyError((space, name))

