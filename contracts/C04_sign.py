"""C04 (+ C09) — signing attaches a verifiable COSE_Sign1 and changes nothing else; signing policy (contracts)."""
import z3
from pyvc.contract import Contract
from pyvc.types import Int, Bool, Bytes, Str, Obj, PathStr, OneOf, ListT, NoneT, Const, DictT, EnumT, Lib, Opt, TupleT, Enc, TagT, Computed

PROPERTY = "C04"
LEVEL = "proof"
FS = "ncs/sign_script.py"
FK = "ncs/basic_kms.py"
FB = "suit_generator/suit_sign_script_base.py"
FC = "suit_generator/cmd_sign.py"

KMS = Obj(FK, "SuitKMS", keys_directory=Lib("Path", s=Str()))
KEY_ID = Int(0, 2 ** 64 - 1)
DIGEST = ListT([Int(-65536, 65535), Bytes()])  # SUIT_Digest = [algorithm id, digest bytes]
ALGS = EnumT(FB, "SuitSignAlgorithms")


def _key(kind, size):
    return Lib("PrivateKey", ktype=kind, key_size=Const(size), data=Bytes())


KEY_VARIANTS = [("P-256", {"private_key": _key("ec", 256)}), ("P-384", {"private_key": _key("ec", 384)}), ("P-521", {"private_key": _key("ec", 521)}),
                ("Ed25519", {"private_key": _key("ed25519", 256)}), ("Ed448", {"private_key": _key("ed448", 456)})]

# ------------------------------------------------------------------------------------------------
c = Contract(FK, "SuitKMS._verify_signing_key_type", ["C09", "C04"])
c.param("self", KMS)
c.param("private_key", _key("ec", 256))
c.param("algorithm", OneOf("es-256", "es-384", "es-521", "eddsa", "hash-eddsa", Str()))
c.variants = KEY_VARIANTS
c.returns("key_matches_algorithm",
          "result == ((algorithm == 'es-256' and KEY_SIZE(private_key) == 256) or (algorithm == 'es-384' and KEY_SIZE(private_key) == 384) "
          "or (algorithm == 'es-521' and KEY_SIZE(private_key) == 521)) "
          "if KEY_IS_EC(private_key) else result == (algorithm == 'eddsa' or algorithm == 'hash-eddsa')")
c.result(Bool())


# ------------------------------------------------------------------------------------------------
c = Contract(FK, "SuitKMS._create_cose_es_signature", ["C04"])
c.param("self", KMS)
c.param("input_data", Bytes())
c.param("private_key", _key("ec", 256))
c.variants = KEY_VARIANTS[:3]
c.let("W", "(KEY_SIZE(private_key) + 7) // 8")
c.returns("fixed_width", "len(result) == 2 * W")
c.returns("r_then_s_big_endian", "result == be(ECDSA_R(KEY_DATA(private_key), KEY_SIZE(private_key), input_data), W) "
                                 "+ be(ECDSA_S(KEY_DATA(private_key), KEY_SIZE(private_key), input_data), W)", native="True")
c.result(Bytes())

# ------------------------------------------------------------------------------------------------
c = Contract(FK, "SuitKMS.sign", ["C04", "C09"])
c.param("self", KMS)
c.param("data", Bytes())
c.param("key_name", Str())
c.param("algorithm", OneOf("es-256", "es-384", "es-521", "eddsa", "hash-eddsa"))
c.param("context", Opt(Str()))


def _sign_checks(it, ctx):
    """On normal return the loaded key matched the algorithm and exactly one signature was produced, over `data`."""
    signs = [t for t in it.trace if t[0] == "crypto-sign"]
    for t in it.trace:  # ECDSA signing happens inside a callee under contract
        if t[0] == "call" and t[1] == "SuitKMS._create_cose_es_signature":
            k = t[2]["private_key"]
            signs.append(("crypto-sign", k.f["ktype"], k.f["key_size"].conc, t[2]["input_data"], k.f.get("data")))
    if ctx.outcome != "return":
        return [("no_signature_on_rejection", z3.BoolVal(len(signs) == 0))]
    goals = [("exactly_one_signature", z3.BoolVal(len(signs) == 1))]
    if len(signs) == 1:
        kind, size, msg = signs[0][1], signs[0][2], signs[0][3]
        alg = ctx.arg("algorithm").conc
        ok = {"es-256": (kind, size) == ("ec", 256), "es-384": (kind, size) == ("ec", 384), "es-521": (kind, size) == ("ec", 521),
              "eddsa": kind in ("ed25519", "ed448"), "hash-eddsa": kind in ("ed25519ph",)}[alg]
        goals.append(("key_type_matches_algorithm", z3.BoolVal(ok)))
        goals.append(("signs_the_given_data", msg.e == ctx.arg("data").e))
        # ... with the private key stored under the GIVEN name (<keys directory>/<key_name>.pem or .der), whatever characters the name contains
        kd = signs[0][4] if len(signs[0]) > 4 else None
        if kd is not None and hasattr(kd, "e"):
            ctx.env.set("KEY_DATA_USED", kd)
            goals.append(("signs_with_the_key_stored_under_the_given_name", ctx.formula(
                "KEY_DATA_USED == old(FILE(pathstr(self.keys_directory) + '/' + key_name + '.pem')) or KEY_DATA_USED == old(FILE(pathstr(self.keys_directory) + '/' + key_name + '.der'))")))
    return goals


c.check("policy", _sign_checks)
c.raises("ValueError")
c.raises("FileNotFoundError")
c.result(Bytes())

# ------------------------------------------------------------------------------------------------
# Signer: the envelope is assembled from ghost parts so that clauses can name them:
#   D   = the bstr-wrapped digest (first element of the authentication wrapper)
#   OLD = a previously attached COSE_Sign1 block (signed variant), M = the manifest bstr, P17 / PAY = other members
def _long_tag_head(it, env):
    """Variant `signed-long-tag-head`: the block that is already attached carries its COSE_Sign1 tag 18 in the two-byte head form d8 12 (well-formed CBOR that
    cbor2 decodes to the same tagged value; other tools emit it) - it is a signature all the same.  OLD is replaced by those bytes, with the same origin."""
    from pyvc import cbor, symdesc
    from pyvc.values import VBytes
    old = env.lookup("OLD")
    o = symdesc.origin(it, old)
    if o is None or not hasattr(o, "tag"):
        return
    long_form = it.stubs.concat_bytes(VBytes(b"\xd8\x12"), cbor.enc(it, o.value))
    cbor.register(it, long_form, o)
    env.set("OLD", long_form)


def _envelope(signed):
    def build(it, env):
        from pyvc import cbor
        from pyvc.values import VTag, VDict, DEntry, VInt, VList
        if "long-tag-head" in (it.variant_label or "") and not getattr(it, "_long_tag_done", False):
            it._long_tag_done = True
            _long_tag_head(it, env)
        D = env.lookup("D")
        items = [D] + ([env.lookup("OLD")] if signed else [])
        wrapper = cbor.enc(it, VList(items))
        d = VDict(frozen=True)
        d.entries[2] = DEntry(2, wrapper)
        d.entries[3] = DEntry(3, env.lookup("M"))
        d.entries[17] = DEntry(17, env.lookup("P17"))
        d.entries["#payload"] = DEntry("#payload", env.lookup("PAY"), z3.Bool(it.fresh_name("has_payload")))
        return VTag(VInt(107), d)
    return Computed(build)


OLD_BLOCK = Enc(TagT(18, ListT([Bytes(), DictT(), NoneT(), Bytes()])))
ENV_GHOSTS = [("D", Enc(DIGEST)), ("OLD", OLD_BLOCK), ("M", Bytes()), ("P17", Bytes()), ("PAY", Bytes())]
ACTIONS = EnumT(FB, "SignatureAlreadyPresentActions")

# init_kms_backend: VERIFIED against the importlib model (pyvc/stubs_lib): the KMS module is loaded from exactly the given script path and executed once, its
# suit_kms_factory is called once, what it returns becomes self.kms and is initialised once with the signer's context; a script without the factory is refused.
# Assumed: the file at that path is the shipped ncs/basic_kms.py (then the factory yields a SuitKMS), and SuitKMS.init_kms derives the key directory from the context.
def plugin_checks(factory_name, script_arg, object_class_file, object_class, init_call=None, context_of=None):
    def setup(it, env):
        import contracts.C00_common as C00
        from pyvc.values import VObj

        def result(it_, m, fname):
            it_.assumptions_used.add(f"the script handed to the plug-in loader is the shipped one: its {factory_name}() returns a {object_class}")
            return VObj(it_.get_class(object_class_file, object_class))
        it.plugin_factory_result = result
        if init_call:
            it.call_site_summaries = {init_call: C00.recording_summary(init_call, ("ValueError",))}

    def checks(it, ctx):
        specs = [t for t in it.trace if t[0] == "import-spec"]
        execs = [t for t in it.trace if t[0] == "import-exec"]
        facts = [t for t in it.trace if t[0] == "plugin-factory"]
        inits = [t for t in it.trace if t[0] == "call" and t[1] == init_call] if init_call else []
        if ctx.outcome != "return":
            return [("at_most_one_object_is_made", z3.BoolVal(len(facts) <= 1))]
        ok = len(specs) == 1 and len(execs) == 1 and len(facts) == 1
        goals = [("script_loaded_executed_and_its_factory_called_exactly_once", z3.BoolVal(ok))]
        if ok:
            goals.append(("loaded_from_the_given_script_path", it.stubs.path_term(it, specs[0][2]) == it.stubs.path_term(it, ctx.arg(script_arg))))
            goals.append((f"the_factory_is_{factory_name}_of_that_module", z3.BoolVal(facts[0][1] == factory_name and facts[0][2] is execs[0][2])))
        if init_call:
            obj = ctx.arg("self").attrs.get("kms")
            goals.append(("the_object_made_by_the_factory_is_installed_and_initialised_once", z3.BoolVal(len(inits) == 1 and inits[0][2]["self"] is obj
                                                                                                      and getattr(obj, "cls", None) is it.get_class(object_class_file, object_class))))
            if len(inits) == 1:
                want = context_of(it, ctx)
                got = inits[0][2]["context"]
                goals.append(("initialised_with_the_context_of_this_request", z3.BoolVal(got is want) if not (hasattr(got, "e") and hasattr(want, "e")) else got.e == want.e))
        return goals
    return setup, checks


# SuitKMS.parse_context: where the keys are looked up.  No context -> the directory of the KMS script; a context that names an existing directory -> that
# directory; otherwise the context is JSON and the directory is EXACTLY its "keys_directory" member (not joined with anything: a relative path stays relative to
# the working directory); anything else is refused with ValueError.  (json.loads of the symbolic context text: JSONDecodeError or SOME JSON value that is a function of the
# text; the member is read off that value.)  The bounded stand-in signs with all three context forms beside it.
def _parse_context_checks(it, ctx):
    from pyvc.values import VNone, VLib, VStr
    if ctx.outcome != "return":
        return None
    kd = ctx.arg("self").attrs.get("keys_directory")
    if not (isinstance(kd, VLib) and kd.kind == "Path"):
        return [("keys_directory_is_a_path", z3.BoolVal(False))]
    got = kd.f["s"]
    context = ctx.arg("context")
    loads = [t for t in it.trace if t[0] == "json.loads"]
    if isinstance(context, VNone):
        return [("no_context_reads_no_json", z3.BoolVal(not loads))]  # (the default is the directory of the KMS script: Path(__file__).parent, an ambient constant)
    if not loads:
        return [("a_directory_context_is_used_as_it_is", got.e == context.e)]
    member = None
    v = loads[0][2]
    from pyvc import plain
    try:
        member = plain.dict_getitem(it, plain.resolve(it, v), VStr("keys_directory")) if not hasattr(v, "entries") else v.entries["keys_directory"].value
    except Exception:  # noqa: BLE001
        member = None
    if member is not None and hasattr(member, "kind") and not isinstance(member, VStr):
        try:
            member = plain.resolve(it, member)
        except Exception:  # noqa: BLE001
            pass
    return [("json_context_parsed_from_the_given_text", loads[0][1].e == context.e),
            ("keys_directory_is_exactly_the_json_member", z3.BoolVal(False) if not isinstance(member, VStr) else got.e == member.e)]


c = Contract(FK, "SuitKMS.parse_context", ["C04", "C06"])
c.param("self", Obj(FK, "SuitKMS"))
c.param("context", Opt(Str()))
c.variants = [("context", {})]
c.check("directory", _parse_context_checks)
c.modifies(**{"self.keys_directory": Lib("Path", s=Str())})
c.raises("ValueError")
c.raises("TypeError")  # a JSON context that is not an object (e.g. '5', '[1]') is subscripted with a str: TypeError escapes (observation; no property clause covers it)
c.callers_inline = True

c = Contract(FS, "Signer.init_kms_backend", ["C04", "C09"])
c.param("self", Obj(FS, "Signer", _context=Str()))
c.param("kms_script", Str())
c.variants = [("plug-in", {})]
_st, _ck = plugin_checks("suit_kms_factory", "kms_script", FK, "SuitKMS", init_call="SuitKMS.init_kms", context_of=lambda it, ctx: ctx.old("self").attrs["_context"])
c.setup = _st
c.check("loading", _ck)
c.modifies(**{"self.kms": KMS})
c.raises("ValueError")
c.raises("FileNotFoundError")

c = Contract(FS, "Signer.already_signed_action", ["C09", "C04"])
for g, t in ENV_GHOSTS:
    c.ghost(g, t)
c.param("self", Obj(FS, "Signer", _skip_signing=Const(False)))
c.param("action", ACTIONS)
c.variants = [("unsigned", {}), ("signed", {}), ("signed-long-tag-head", {})]


def _setup_signer(it, env):
    """self.envelope := a mutable copy of the envelope assembled from the ghost parts (variant: unsigned / signed)."""
    from pyvc.values import VTag, VDict, VInt, VBool
    signed = (it.variant_label or "").startswith("signed")
    e = _envelope(signed).fn(it, env)
    d = VDict()
    for k, en in e.value.entries.items():
        d.entries[k] = en
    env.lookup("self").attrs["envelope"] = VTag(VInt(107), d)
    env.set("signed", VBool(signed))


c.setup = _setup_signer
c.callers_inline = True
c.returns("unsigned_untouched", "signed or (self.envelope.value[2] == old(self.envelope.value[2]) and not self._skip_signing)")
c.returns("skip_keeps_envelope", "not (signed and action.value == 'skip') or (self._skip_signing and self.envelope.value[2] == old(self.envelope.value[2]))")
c.returns("remove_old_leaves_only_digest", "not (signed and action.value == 'remove-old') or (self.envelope.value[2] == ENC([D]) and not self._skip_signing)")
c.returns("other_members_untouched", "self.envelope.value[3] == M and (17 in self.envelope.value) == old(17 in self.envelope.value) and ('#payload' in self.envelope.value) == old('#payload' in self.envelope.value)")
c.raises("SignerError", when="signed and action.value == 'error'", label="error_action_refuses")
c.raises("NotImplementedError", when="signed and action.value == 'append'", label="append_unsupported")

# ------------------------------------------------------------------------------------------------
c = Contract(FS, "Signer.sign_envelope", ["C04", "C09"])
for g, t in ENV_GHOSTS:
    c.ghost(g, t)
# `self` may have served earlier calls: every attribute the class assigns holds an ARBITRARY value on entry (history havoc),
# so state that leaks from one call into the next (a flag that is not reset, a cached key) fails the postconditions
c.param("self", Obj(FS, "Signer", _skip_signing=Bool(), _key_name=Str(), _context=Str(), _key_id=Int()))
c.param("input_envelope", _envelope(False))
c.param("key_name", Str())
c.param("key_id", KEY_ID)
c.param("algorithm", ALGS)
c.param("context", Str())
c.param("kms_script", Str())
c.param("already_signed_action", ACTIONS)
c.variants = [(f"{st}/{a}", {"input_envelope": _envelope(st == "signed"), "algorithm": EnumT(FB, "SuitSignAlgorithms", members=[a])})
              for st in ("unsigned", "signed") for a in ("ES_256", "ES_384", "ES_521", "EdDSA", "VS_HashEdDSA")]
c.variants.append(("signed-long-tag-head/EdDSA", {"input_envelope": _envelope(True), "algorithm": EnumT(FB, "SuitSignAlgorithms", members=["EdDSA"])}))


def _sign_env_setup(it, env):
    from pyvc.values import VBool
    env.set("signed", VBool((it.variant_label or "").startswith("signed")))


c.setup = _sign_env_setup


def _sig_witness(it, ctx):
    """Ghost result SIG: the value returned by the KMS for this envelope (the single kms.sign call of the path)."""
    calls = [t for t in it.trace if t[0] == "call" and t[1] == "SuitKMS.sign"]
    if len(calls) == 1:
        return calls[0][3]
    from pyvc.values import VBytes
    return VBytes(b"")  # no signing on this path (skip): SIG is unused by the clauses guarded with `signs`


def _kms_call_checks(it, ctx):
    calls = [t for t in it.trace if t[0] == "call" and t[1] == "SuitKMS.sign"]
    if ctx.outcome != "return":
        return None
    skip = ctx.formula("signed and already_signed_action.value == 'skip'")
    goals = [("kms_called_once_unless_skipped", z3.If(skip, z3.BoolVal(len(calls) == 0), z3.BoolVal(len(calls) == 1)))]
    if len(calls) == 1:
        a = calls[0][2]
        ctx.env.set("SIGNED_DATA", a["data"])
        ctx.env.set("USED_KEY_NAME", a["key_name"])
        ctx.env.set("USED_ALG", a["algorithm"])
        goals.append(("signs_the_sig_structure_of_this_digest", ctx.formula("SIGNED_DATA == sig_structure(algorithm.value, key_id, D)")))
        goals.append(("with_the_named_key_and_algorithm", ctx.formula("USED_KEY_NAME == key_name and USED_ALG == algorithm.value")))
    return goals


c.ghost_out("SIG", Bytes(), _sig_witness, native="signature_of_last_block(result.value[2])")
c.let("signs", "not (signed and already_signed_action.value == 'skip')")
c.returns("one_block_appended", "not signs or result.value[2] == (ENC([D, auth_block(algorithm.value, key_id, SIG)]) "
                                "if (not signed or already_signed_action.value == 'remove-old') else ENC([D, OLD, auth_block(algorithm.value, key_id, SIG)]))")
c.returns("skip_returns_envelope_unchanged", "signs or result.value[2] == ENC([D, OLD])")
c.returns("manifest_and_other_members_identical",
          "result.tag == 107 and result.value[3] == M and len(result.value) == len(input_envelope.value) "
          "and (17 in result.value) == (17 in input_envelope.value) and (17 not in result.value or result.value[17] == P17) "
          "and ('#payload' in result.value) == ('#payload' in input_envelope.value) and ('#payload' not in result.value or result.value['#payload'] == PAY)")
c.returns("error_action_never_returns_for_signed_input", "not (signed and already_signed_action.value == 'error')")
c.check("kms", _kms_call_checks)
c.raises("SignerError", when="signed and already_signed_action.value == 'error'", label="error_action_refuses")
c.raises("NotImplementedError", when="signed and already_signed_action.value == 'append'", label="append_unsupported")
c.raises("ValueError")
c.raises("FileNotFoundError")


# ================================================================================================
# B — bounded stand-in: real signing through cmd_sign.main with harness keys, independent verification.
# ================================================================================================
def bounded(ctx):
    from bounded.harness import Bounded
    from bounded import signing as S
    from pyvc import front
    quick = ctx["tier"] == "quick"
    reps = 12 if quick else 2000  # ECDSA signatures per curve (short r/s occur with probability ~2^-7 per signature)
    B = Bounded(ctx, rule="cmd_sign.main single-level on envelopes built with an independent CBOR encoder; output compared member by member with the "
                          "input, the appended COSE_Sign1 verified with cryptography/pycryptodome; non-trivial = every signing; distinct by (alg, key id, shape, repetition)",
                bound=f"5 algorithms x key ids at CBOR width boundaries up to 2**32-1 x envelope shapes (payloads / dependency / extra members) + {reps} ECDSA signatures per curve",
                budget_s=60 if quick else 1500)
    d = B.fresh_dir("keys")
    keys = S.make_keys(d)
    key_ids = [0, 1, 23, 24, 255, 256, 65535, 65536, 0x40000000, 2 ** 32 - 1]
    shapes = [dict(payloads=[], deps=[], extra=False), dict(payloads=[("#p", b"\x01\x02")], deps=[], extra=True),
              dict(payloads=[("#zz-longer-name", b"\x09"), ("#a", b"\x08\x07")], deps=[], extra=True),  # members NOT in canonical CBOR key order: the order must survive

              dict(payloads=[("#a", b""), ("#b", bytes(300))], deps=[("#dep", S.make_envelope("child", seed=3))], extra=True)]
    for ai, alg in enumerate(S.ALGS):
        for ki, kid in enumerate(key_ids):
            if B.out_of_time():
                break
            shape = shapes[(ai + ki) % len(shapes)]
            env = S.make_envelope(f"e{ai}{ki}", seed=ki, **shape)
            msg, _ = S.check_single(front.REPO, d, keys, env, alg, kid)
            case = {"alg": alg, "key_id": kid, "shape": (ai + ki) % len(shapes)}
            B.case((alg, kid), sample=case)
            if msg:
                B.fail("signed-output-is-input-plus-one-valid-block", case, msg)
    # the three ways of naming the key directory to the KMS: a directory path, a JSON context with an absolute path, a JSON context with a path RELATIVE to
    # the working directory - the key that signs is <that directory>/<key name>.pem in every form
    for form in ("json-absolute", "json-relative"):
        S.CONTEXT_FORM["form"] = form
        try:
            for alg in ("es-256", "eddsa"):
                env = S.make_envelope(f"ctx{form}", seed=5, payloads=[("#p", b"\x01")], extra=True)
                msg, _ = S.check_single(front.REPO, d, keys, env, alg, 9)
                B.case(("context-form", form, alg))
                if msg:
                    B.fail("signed-output-is-input-plus-one-valid-block", {"alg": alg, "key_id": 9, "context_form": form}, f"context given as {form}: {msg}")
        finally:
            S.CONTEXT_FORM["form"] = "path"
    for alg in ("es-256", "es-384", "es-521"):
        for i in range(reps):
            if B.out_of_time():
                break
            env = S.make_envelope(f"r{i}", seed=i, extra=bool(i % 2))
            msg, _ = S.check_single(front.REPO, d, keys, env, alg, 7)
            B.case((alg, "rep", i))
            if msg:
                B.fail("ecdsa-fixed-width-and-valid", {"alg": alg, "key_id": 7, "rep": i}, msg)
                break
    return B.done()


def replay_case(case):
    from bounded.harness import Bounded
    from bounded import signing as S
    from pyvc import front
    B = Bounded({"tier": "quick", "seed": 0}, "", "")
    try:
        d = B.fresh_dir("keys")
        keys = S.make_keys(d)
        env = S.make_envelope("replay", seed=1, payloads=[("#p", b"\x01")], extra=True)
        S.CONTEXT_FORM["form"] = case.get("context_form", "path")
        try:
            msg, _ = S.check_single(front.REPO, d, keys, env, case["alg"], case["key_id"])
        finally:
            S.CONTEXT_FORM["form"] = "path"
        return msg is None, msg
    finally:
        B.done()


ASSUMPTIONS = [
    "cryptographic validity of ECDSA / Ed25519 / Ed448 / Ed25519ph signatures is the library's (assumed: verify(pub(k), sign(k, m), m)); 0 < r, s < 2**key_size",
    "plug-in loading is verified against a model of importlib (given path, executed once, factory once); assumed: the scripts handed to it are the shipped ncs/sign_script.py / ncs/basic_kms.py",
    "cbor2.loads(ENC(x)) == x (law A1) and ENC(loads(ENC x)) == ENC x (A2) for the envelope parts named by the contract's ghosts",
]



# ------------------------------------------------------------------------------------------------ native replay adapters
def _es_adapter(c, cex, tmp):
    """Replay of a counter-model of _create_cose_es_signature: the real function is run with a stub key whose sign() returns the
    DER encoding of the model's (r, s) - or, when the model gives none, of values with leading zero bytes - so that the width
    clause is evaluated on the real code for exactly that signature value (the ECDSA primitive itself is the assumed part)."""
    import importlib
    from cryptography.hazmat.primitives.asymmetric.utils import encode_dss_signature
    from pyvc import native
    native.ensure_repo_on_path()
    kms_mod = importlib.import_module("ncs.basic_kms")
    size = 256
    for name, t in c.params:
        if name == "private_key" and hasattr(t, "fields"):
            ks = t.fields.get("key_size")
            size = getattr(ks, "value", size) if ks is not None else size
    try:
        size = int(cex["private_key"]["key_size"])
    except Exception:  # noqa: BLE001
        pass
    W = (size + 7) // 8
    results = []
    for r, s_ in ((1, 1), (256 ** (W - 2) - 1, 256 ** (W - 1) + 5), (256 ** (W - 1) - 1, 256 ** (W - 3)), (2 ** (size - 1), 2 ** (size - 1) + 1)):
        class _Key:
            key_size = size

            def sign(self, data, alg, _r=r, _s=s_):
                return encode_dss_signature(_r, _s)
        results.append((_Key(), r, s_))

    def call(inp):
        out = None
        for key, r, s_ in results:
            out = kms_mod.SuitKMS._create_cose_es_signature(object.__new__(kms_mod.SuitKMS), inp["input_data"], key)
            if len(out) != 2 * W or out != r.to_bytes(W, "big") + s_.to_bytes(W, "big"):
                return out  # the failing signature value
        return out
    return {"self": None, "input_data": b"message", "private_key": results[0][0], "W": W}, call, {"KEY_SIZE": lambda k: k.key_size}


NATIVE = {"SuitKMS._create_cose_es_signature": _es_adapter}
