"""C02 — Envelope wire format is the SUIT/COSE encoding of the description.

Oracle: the reference translation contracts/refspec.py, written from the CDDL and the pinned registry (it does not import
suit_generator).  The same text is used twice:

P  the real `to_suit_file` (create) is executed by the path executor on description TEMPLATES whose leaves are symbolic
   (every integer, string, hex string, name; every digest algorithm / policy / alternative by case split) and the bytes it
   writes must EQUAL the bytes the reference translation - interpreted by the same executor on the same symbolic description -
   assigns: for all leaf values at once (every CBOR head width of every integer and length).  Only the SHAPE is per template.
B  the whole grammar: every name of every key space, every union alternative, nesting, width boundaries and random
   combinations, through the library and the CLI, JSON and YAML; byte comparison with the natively run reference.
E  the vocabulary (names <-> registered integers) is C08's table check; it is not repeated here.
"""
import copy
import z3
from pyvc.contract import Contract, REGISTRY
from pyvc.types import Computed, Obj, PathStr
from pyvc import symdesc as SD
from pyvc.symdesc import INT, STR, HEXSTR, CHOICE
from contracts import registry as R

PROPERTY = "C02"
LEVEL = "other"
FIO = "suit_generator/input_output.py"
ALG = ["cose-alg-sha-256", "cose-alg-shake128", "cose-alg-sha-384", "cose-alg-sha-512", "cose-alg-shake256"]
POL = [R.name_of(c) for c in R.SPACES["report_policy"]]


# ------------------------------------------------------------------------------------------------ templates
import os
THOROUGH = os.environ.get("VERIF_TIER") == "thorough"
SALGS = ["cose-alg-es-256", "cose-alg-es-384", "cose-alg-es-521", "cose-alg-eddsa", "cose-alg-vs-hash-eddsa"]
KWS = ["cose-alg-a256kw", "cose-alg-a192kw", "cose-alg-a128kw", "cose-alg-direct"]
EALGS = ["cose-alg-aes-gcm-128", "cose-alg-aes-gcm-192", "cose-alg-aes-gcm-256"]


def _dg(tag, alg=None):
    """Digest description; the algorithm of ONE field per template is case-split over all five (quick: every template uses
    a different fixed algorithm elsewhere, so each of the five still occurs)."""
    # thorough: ONE shared case split per template over the five algorithms (all digest fields of the template use the chosen one,
    # 5 paths - not the 5**k product), except `img`, which is split on its own in both tiers
    if alg is None:
        alg = CHOICE("alg_img", *ALG) if tag == "img" else (CHOICE("alg_all", *ALG) if THOROUGH else ALG[hash_index(tag)])
    return {"suit-digest-algorithm-id": alg, "suit-digest-bytes": HEXSTR(f"dg_{tag}")}


def hash_index(tag):
    return sum(ord(ch) for ch in tag) % 5


def _base(tag, **manifest_members):
    m = {"suit-manifest-version": 1, "suit-manifest-sequence-number": INT(f"seq_{tag}"),
         "suit-common": {"suit-components": [[STR(f"comp_{tag}"), INT(f"slot_{tag}")]]}}
    m.update(manifest_members)
    return {"SUIT_Envelope_Tagged": {"suit-authentication-wrapper": {"SuitDigest": _dg(f"w{tag}", "cose-alg-sha-256")}, "suit-manifest": m}}


def t_parameters_a():
    """Half of the parameters, every value symbolic."""
    p = {"suit-parameter-vendor-identifier": {"RFC4122_UUID": STR("vendor")},
         "suit-parameter-class-identifier": {"RFC4122_UUID": {"namespace": STR("ns"), "name": STR("cls")}},
         "suit-parameter-device-identifier": {"raw": HEXSTR("devid")},
         "suit-parameter-image-digest": _dg("img"),
         "suit-parameter-component-slot": INT("cslot"), "suit-parameter-strict-order": True, "suit-parameter-soft-failure": False,
         "suit-parameter-image-size": {"raw": INT("size")}}
    return _base("pa", **{"suit-install": [{"suit-directive-override-parameters": p}], "suit-reference-uri": STR("ref")})


def t_parameters_b():
    p = {"suit-parameter-content": HEXSTR("content"), "suit-parameter-uri": STR("uri"), "suit-parameter-source-component": INT("src"),
         "suit-parameter-invoke-args": {"suit-synchronous-invoke": True, "suit-timeout": INT("timeout")},
         "suit-parameter-version": {"suit-condition-version-comparison-lesser-equal": [INT("v0", 0, 2 ** 32), INT("v1", -3, 2 ** 32), INT("v2", 0, 2 ** 32)]}}
    return _base("pb", **{"suit-load": [{"suit-directive-set-parameters": p}], "suit-current-version": [INT("cv0", 0, 2 ** 32), INT("cv1", 0, 2 ** 32)]})


def t_parameter_content_int():
    return _base("pc", **{"suit-validate": [{"suit-directive-override-parameters": {"suit-parameter-content": INT("content_int")}}]})


def t_commands():
    conds = [R.name_of(c) for c in R.SPACES["condition"]]
    simple = ["suit-directive-write", "suit-directive-fetch", "suit-directive-copy", "suit-directive-invoke", "suit-directive-swap",
              "suit-directive-process-dependency", "suit-directive-unlink"]
    seq = [{c: POL[: i % 5]} for i, c in enumerate(conds + simple)]
    seq.append({"suit-directive-set-component-index": INT("idx")})
    seq.append({"suit-directive-set-component-index": [INT("idx0"), INT("idx1")]})
    seq.append({"suit-directive-set-component-index": True})
    return _base("cm", **{"suit-validate": seq, "suit-invoke": [{"suit-condition-abort": []}], "suit_uninstall": [{"suit-directive-unlink": [POL[3]]}]})


def t_nesting():
    inner = [{"suit-directive-override-parameters": {"suit-parameter-uri": STR("nested_uri")}}, {"suit-directive-fetch": [POL[0], POL[1]]}]
    seq = [{"suit-directive-try-each": [inner, [{"suit-directive-run-sequence": [{"suit-condition-image-match": [POL[1]]}, {"suit-directive-try-each": [[{"suit-condition-abort": []}], []]}]}]]},
           {"suit-directive-run-sequence": inner}]
    return _base("ns", **{"suit-install": seq})


def t_severed():
    e = _base("sv", **{"suit-install": _dg("inst"), "suit-payload-fetch": _dg("pf"), "suit-text": _dg("txt"), "suit-candidate-verification": _dg("cv"),
                       "suit-dependency-resolution": [{"suit-condition-dependency-integrity": []}], "suit-install-legacy": _dg("leg")})
    env = e["SUIT_Envelope_Tagged"]
    env["suit-install"] = [{"suit-directive-override-parameters": {"suit-parameter-uri": STR("iuri")}}, {"suit-directive-fetch": [POL[0]]}]
    env["suit-payload-fetch"] = [{"suit-directive-set-component-index": INT("pidx")}]
    env["suit-text"] = {"en": {"suit-text-manifest-description": STR("descr"), "suit-text-update-description": STR("upd"),
                                      '["M", 2]': {"suit-text-vendor-name": STR("vn"), "suit-text-model-name": STR("mn"), "suit-text-vendor-domain": STR("vd"),
                                                   "suit-text-model-info": STR("mi"), "suit-text-component-description": STR("cd"), "suit-text-component-version": STR("cver")}}}
    env["suit-integrated-payloads"] = {"#file": HEXSTR("payload")}
    return e


def t_auth():
    e = _base("au", **{"suit-manifest-component-id": [{"RFC4122_UUID": STR("cid_name")}, INT("cid_int"), STR("cid_text")]})
    aw = e["SUIT_Envelope_Tagged"]["suit-authentication-wrapper"]
    aw["SuitDigest"] = _dg("wau")
    # member names deliberately NOT in lexicographic order: the wire order is the description order
    aw["SuitAuthenticationVendor"] = {"CoseSign1Tagged": {"protected": {"suit-cose-algorithm-id": CHOICE("salg", *(SALGS if THOROUGH else SALGS[3:])),
                                                                   "suit-cose-key-id": INT("kid", -2 ** 63, 2 ** 64 - 1)},
                                                     "unprotected": {}, "payload": None, "signature": HEXSTR("sig0")}}
    aw["SuitAuthenticationOperator"] = {"CoseSign1Tagged": {"protected": {"suit-cose-algorithm-id": "cose-alg-es-256"}, "unprotected": {"suit-cose-key-id": HEXSTR("kid_hex")},
                                                     "payload": {"Issuer": STR("iss"), "Subject": STR("sub"), "Audience": STR("aud"), "Expiration Time": INT("exp"),
                                                                 "Not Before": INT("nbf"), "Issued At": INT("iat"), "CW ID": HEXSTR("cwid")}, "signature": HEXSTR("sig1")}}
    return e


def t_encryption():
    rec_inner = {"protected": "", "unprotected": {"suit-cose-algorithm-id": "cose-alg-direct", "suit-cose-key-id": HEXSTR("rk2")}, "ciphertext": None}
    rec = {"protected": {"suit-cose-algorithm-id": CHOICE("kw", *(KWS if THOROUGH else KWS[2:]))},
           "unprotected": {"suit-cose-key-id": INT("rk")}, "ciphertext": HEXSTR("cek"), "recipients": [rec_inner]}
    enc = {"CoseEncryptTagged": {"protected": {"suit-cose-algorithm-id": CHOICE("ealg", *(EALGS if THOROUGH else EALGS[2:]))},
                                 "unprotected": {"suit-cose-iv": HEXSTR("iv")}, "ciphertext": None, "recipients": [rec, {"protected": {}, "unprotected": {}, "ciphertext": None}]}}
    return _base("en", **{"suit-install": [{"suit-directive-override-parameters": {"suit-parameter-encryption-info": enc}}]})


def t_dependencies():
    e = _base("dp")
    e["SUIT_Envelope_Tagged"]["suit-manifest"]["suit-common"]["suit-dependencies"] = {"0": {"suit-dependency-prefix": [STR("prefix"), INT("pint")]}, "1": {}}
    e["SUIT_Envelope_Tagged"]["suit-manifest"]["suit-common"]["suit-shared-sequence"] = [{"suit-directive-set-component-index": 0}, {"suit-condition-is-dependency": []}]
    child = _base("ch", **{"suit-validate": [{"suit-condition-image-match": [POL[0]]}]})
    e["SUIT_Envelope_Tagged"]["suit-integrated-dependencies"] = {"#child.suit": child}
    return e


TEMPLATES = {"parameters-a": t_parameters_a, "parameters-b": t_parameters_b, "parameter-content-int": t_parameter_content_int, "commands": t_commands, "nesting": t_nesting,
             "severed-members-text-payload": t_severed, "auth-blocks-cwt": t_auth, "encryption-info-recipients": t_encryption, "dependencies-nested-envelope": t_dependencies}


def _desc(name):
    def build(it, env):
        return SD.build(it, TEMPLATES[name](), {})
    return Computed(build)


# ------------------------------------------------------------------------------------------------ reference, interpreted symbolically
def ref_env(it):
    """Namespace of contracts/refspec.py executed by the executor (ID / HASH_ALG injected from the pinned registry)."""
    import os
    from pyvc.front import ModuleInfo
    from pyvc.interp import Env
    from pyvc.values import mk
    from pyvc import clauses
    w = it.world
    if "verif_refspec" not in w.modules:
        path = os.path.join(os.path.dirname(os.path.abspath(__file__)), "refspec.py")
        m = ModuleInfo("verif_refspec", path, "contracts/refspec.py")
        w.modules["verif_refspec"] = m
        env = Env(m, clauses.spec_env(it))
        m.ns = env
        ids = {space: {R.name_of(c): R.id_of(c) for c in classes} for space, classes in R.SPACES.items()}
        env.set("ID", mk(ids))
        env.set("HASH_ALG", mk({R.name_of(c): [R.HASHES[R.id_of(c)][0], R.HASHES[R.id_of(c)][1]] for c in R.SPACES["hash_alg"]}))
        for st in m.tree.body:
            it.exec_stmt(st, env)
    return w.modules["verif_refspec"].ns


def tree_goals(it, a, b, label, out, depth=0):
    """Structural comparison of two encodings through law A1/A3 (ENC is injective): equal trees <=> equal bytes.  Appends
    (label, goal) pairs; leaves are compared by the solver, structure by the executor."""
    from pyvc.values import VBytes, VInt, VBool, VStr, VNone, VList, VTuple, VDict, VTag
    from pyvc.interp import mk_key
    def fail(why):
        out.append((label, z3.BoolVal(False)))
        it.shape_failures = getattr(it, "shape_failures", []) + [(label, why)]
    if isinstance(a, VBytes) and isinstance(b, VBytes):
        if (a.conc is not None and a.conc == b.conc) or z3.eq(z3.simplify(a.e), z3.simplify(b.e)):
            return
        oa, ob = SD.origin(it, a), SD.origin(it, b)
        if oa is not None and ob is not None and depth < 40:
            return tree_goals(it, oa, ob, label, out, depth + 1)
        sa, sb = z3.simplify(a.e), z3.simplify(b.e)
        if z3.is_app(sa) and z3.is_app(sb) and sa.decl().name() == "HASH" and sb.decl().name() == "HASH" and sa.num_args() == 3 \
                and z3.eq(sa.arg(0), sb.arg(0)) and z3.eq(sa.arg(1), sb.arg(1)) and depth < 40:
            # equal arguments give equal digests (HASH is a function): compare what was hashed, structurally
            return tree_goals(it, VBytes(sa.arg(2)), VBytes(sb.arg(2)), label, out, depth + 1)
        out.append((label, a.e == b.e))
        return
    if isinstance(a, VBool) and isinstance(b, VBool) or (isinstance(a, VInt) and isinstance(b, VInt) and not isinstance(a, VBool) and not isinstance(b, VBool)) \
            or isinstance(a, VStr) and isinstance(b, VStr):
        if not z3.eq(z3.simplify(a.e), z3.simplify(b.e)):
            out.append((label, a.e == b.e))
        return
    if isinstance(a, VNone) and isinstance(b, VNone):
        return
    if isinstance(a, (VList, VTuple)) and isinstance(b, (VList, VTuple)):
        if len(a.items) != len(b.items):
            return fail(f"arrays of {len(a.items)} vs {len(b.items)} items")
        for i, (x, y) in enumerate(zip(a.items, b.items)):
            tree_goals(it, x, y, label, out, depth + 1)
        return
    if isinstance(a, VDict) and isinstance(b, VDict):
        ka, kb = it.dict_keys(a), it.dict_keys(b)
        if len(ka) != len(kb):
            return fail(f"maps of {len(ka)} vs {len(kb)} entries")
        for x, y in zip(ka, kb):
            tree_goals(it, mk_key(x), mk_key(y), label, out, depth + 1)
            tree_goals(it, a.entries[x].value, b.entries[y].value, label, out, depth + 1)
        return
    if isinstance(a, VTag) and isinstance(b, VTag):
        tree_goals(it, a.tag, b.tag, label, out, depth + 1)
        tree_goals(it, a.value, b.value, label, out, depth + 1)
        return
    fail(f"different kinds: {type(a).__name__} vs {type(b).__name__}")


def _wire_equals_reference(it, ctx):
    if ctx.outcome != "return":
        return None
    from pyvc.values import VBytes
    ns = ref_env(it)
    f = ns.lookup("ref_envelope")
    desc0 = ctx.old("data")  # the description as the caller gave it (create fills digest values into its argument)
    want = it.call_function(f.info, [desc0.entries["SUIT_Envelope_Tagged"].value], {})
    path = ctx.arg("file_name")
    got = VBytes(it.fs.read_bin(it.stubs.path_term(it, path)))
    goals = []
    tree_goals(it, got, want, "bytes_written_equal_reference_encoding", goals)
    if not goals:
        goals.append(("bytes_written_equal_reference_encoding", z3.BoolVal(True)))
    # one named obligation: the conjunction of the leaf equalities
    return [("bytes_written_equal_reference_encoding", z3.And(*[g for _, g in goals]))]


c = Contract(FIO, "InputOutputMixin.to_suit_file", ["C02"])
c.param("self", Obj("suit_generator/envelope.py", "SuitEnvelope"))
c.param("file_name", PathStr())
c.param("data", _desc("commands"))
c.param("parse_hierarchy", Computed(lambda it, env: __import__("pyvc.values", fromlist=["VBool"]).VBool(False)))
c.variants = [(n, {"data": _desc(n)}) for n in TEMPLATES]
c.check("wire", _wire_equals_reference)
c.raises("ValueError")  # descriptions the encoder rejects (odd-length hex ...)
c.raises("FileNotFoundError")  # output directory missing
c.max_paths = 3000
if (FIO, "InputOutputMixin.prepare_suit_data") in REGISTRY:
    REGISTRY[(FIO, "InputOutputMixin.prepare_suit_data")].callers_inline = True


# ------------------------------------------------------------------------------------------------ B
def _create_lib(desc):
    from suit_generator.suit.envelope import SuitEnvelopeTagged
    e = SuitEnvelopeTagged.from_obj(copy.deepcopy(desc))
    e.update_severable_digests()
    e.update_digest()
    return e.to_cbor()


def _create_cli(desc, d, fmt, n):
    import json, yaml, importlib
    create = importlib.import_module("suit_generator.cmd_create")
    inp, out = f"{d}/in{n}.{fmt}", f"{d}/out{n}.suit"
    with open(inp, "w") as fh:
        if fmt == "json":
            json.dump(desc, fh)
        else:
            yaml.safe_dump(desc, fh, sort_keys=False)
    create.main(input_file=inp, output_file=out, input_format="AUTO")
    with open(out, "rb") as fh:
        return fh.read()


def first_difference(got, want):
    i = next((i for i, (a, b) in enumerate(zip(got, want)) if a != b), min(len(got), len(want)))
    return f"lengths {len(got)}/{len(want)}, first difference at byte {i}: ...{got[max(0, i - 12): i + 12].hex()} vs ...{want[max(0, i - 12): i + 12].hex()}"


def bounded(ctx):
    from bounded.harness import Bounded
    from bounded import gen_desc as G
    from contracts import refspec_native as RN
    from pyvc import native
    import logging
    native.install_log_shim()
    logging.disable(logging.CRITICAL)
    quick = ctx["tier"] == "quick"
    B = Bounded(ctx, rule="create (library: from_obj + digest updates + to_cbor; CLI: cmd_create.main on a JSON or YAML file) byte-compared with the reference translation "
                          "(contracts/refspec.py run natively with an independent CBOR encoder, hashlib and the pinned registry) on descriptions enumerated from the grammar: "
                          "every name of every key space, every union alternative, try-each/run-sequence nesting to depth 4, severed text maps, CWT payloads, nested "
                          "recipients, integers and lengths at the CBOR width boundaries, random combinations; distinct by description",
                bound=f"systematic set + {200 if quick else 3000} seeded random descriptions (depth <= 2 dependency nesting)", budget_s=90 if quick else 900)
    cases = G.systematic(ctx["seed"]) + G.sample(ctx["seed"] + 1, 200 if quick else 3000)
    d = B.fresh_dir("c02")
    for n, (name, desc) in enumerate(cases):
        if B.out_of_time():
            break
        try:
            want = RN.reference_bytes(desc)
        except Exception as e:  # noqa: BLE001  (the generator produced something outside the reference: a harness error, not a verdict)
            raise RuntimeError(f"reference translation failed on generated description {name}: {type(e).__name__}: {e}")
        B.case(name, sample={"description": name, "bytes": len(want)} if n in (0, 40) else None)
        case = {"name": name, "seed": ctx["seed"], "description": desc}
        try:
            got = _create_lib(desc)
        except Exception as e:  # noqa: BLE001
            B.fail("create-accepts-the-description", case, f"{type(e).__name__}: {str(e)[:200]}")
            continue
        if got != want:
            B.fail("library-output-equals-reference-encoding", case, first_difference(got, want))
            continue
        if n % (6 if quick else 3) == 0:
            for fmt in ("json", "yaml"):
                try:
                    got2 = _create_cli(desc, d, fmt, n)
                except Exception as e:  # noqa: BLE001
                    B.fail(f"cli-{fmt}-accepts-the-description", case, f"{type(e).__name__}: {str(e)[:200]}")
                    continue
                if got2 != want:
                    B.fail(f"cli-{fmt}-output-equals-reference-encoding", case, first_difference(got2, want))
    return B.done()


def replay_case(case):
    from contracts import refspec_native as RN
    from pyvc import native
    native.install_log_shim()
    want = RN.reference_bytes(case["description"])
    try:
        got = _create_lib(case["description"])
    except Exception as e:  # noqa: BLE001
        return False, f"{type(e).__name__}: {e}"
    return got == want, None if got == want else first_difference(got, want)


EXPLANATION = ("P: create == reference translation on 9 description templates with symbolic leaves (all values, all head widths); "
               "B: whole grammar against the natively run reference through library and CLI.")
TRUSTED_BASE = ["contracts/refspec.py (reference translation written from the CDDL) and contracts/registry.py (pinned registry)"]
ASSUMPTIONS = ["cbor2.dumps == ENC (definite-length, shortest-form, insertion order): assumed, validated differentially",
               "P covers the listed template SHAPES for all leaf values; other shapes (which members / commands are present, container sizes) are covered by B only",
               "excluded as in the property: suit-delegation, text map embedded unsevered in the manifest"]
