"""C07 — Boot storage images place each installed envelope intact in its role's slot (tables, contracts, bounded stand-in)."""
import z3
from pyvc.contract import Contract, REGISTRY
from pyvc.types import Int, Bool, Bytes, Str, Obj, PathStr, OneOf, ListT, NoneT, Const, DictT, EnumT, Opt, Computed
from pyvc import symdesc as SD
from contracts import registry as R

PROPERTY = "C07"
LEVEL = "other"
EXPLANATION = ("E: slot layout tables of both SoCs (roles unique, slots pairwise disjoint, every role of the pinned table present), the list of members removed by "
               "sever(), the +16 class-id offset constant. P: sever() on every subset of the eleven members; EnvelopeStorage.as_intelhex (placement at base+offset, "
               "0xFF fill to the slot size, only the requested domain, nothing else) for every subset of stored roles; EnvelopeStorage.add_envelope with the REAL "
               "prepare_suit_data / SuitManifest.from_obj / cbor_dumps / bytes.find executed on description templates with symbolic leaves (component id first / last / "
               "raw / absent) against a two-key role table and an arbitrary subset of stored roles: exactly one slot {0: 1, 1: off, 2: envelope} is added under the "
               "role of the manifest's class UUID, the 16 bytes at `off` ARE that UUID, it fits the slot, nothing else changes, and a rejection has one of the stated "
               "reasons; ImageCreator._create_suit_storage_files_for_boot for ANY number of envelopes (loop rule; callees by contract): every add_envelope call precedes "
               "every file write (a rejection leaves no file), per domain exactly the map as_intelhex returned is written to <dir>/suit_installed_envelopes_<domain>_merged.hex; "
               "the public ImageCreator.create_files_for_boot for ANY number of input files (each input is loaded from its file and severed before anything is stored; "
               "SuitEnvelope.load assumed). "
               "B: the whole `image boot` flow on generated envelopes read back with the independent HEX/CBOR readers (re-encoding identity of parsed "
               "envelopes, file writing, configuration over defaults are decided there). Level `other`.")
FI = "suit_generator/cmd_image.py"
FE = "suit_generator/envelope.py"

# pinned device ABI (suit storage layout of the SDFW): role -> domain
ROLE_DOMAIN = {"SEC_TOP": "SECURE", "SEC_SDFW": "SECURE", "SEC_SYSCTRL": "SECURE", "RAD_RECOVERY": "RADIO", "RAD_LOCAL_1": "RADIO", "RAD_LOCAL_2": "RADIO",
               "APP_ROOT": "APPLICATION", "APP_RECOVERY": "APPLICATION", "APP_LOCAL_1": "APPLICATION", "APP_LOCAL_2": "APPLICATION", "APP_LOCAL_3": "APPLICATION"}
SOCS = {"nrf54h20": "EnvelopeStorageNrf54h20", "nrf9280": "EnvelopeStorageNrf9280"}
SEVERED = ["suit-payload-fetch", "suit-install", "suit-dependency-resolution", "suit-candidate-verification", "suit-text", "suit-integrated-payloads", "suit-integrated-dependencies"]
ALL_MEMBERS = [R.name_of(c) for c in R.SPACES["envelope"]]


def read_layout(it, cls):
    ci = it.get_class(FI, cls)
    lay, _ = ci.lookup("_LAYOUT")
    out = []
    for e in lay.items:
        out.append({"role": e.entries["role"].value.name, "offset": e.entries["offset"].value.conc, "size": e.entries["size"].value.conc, "domain": e.entries["domain"].value.name})
    return out


def tables(ctx):
    from pyvc.interp import Interp, World
    it = Interp(World(), [], {})
    res = []
    for soc, cls in SOCS.items():
        lay = read_layout(it, cls)
        roles = [e["role"] for e in lay]
        res.append((f"layout/{soc}/roles-unique", len(set(roles)) == len(roles), {"roles": roles}))
        res.append((f"layout/{soc}/all-eleven-roles-have-a-slot", sorted(roles) == sorted(ROLE_DOMAIN), {"roles": roles}))
        for e in lay:
            res.append((f"layout/{soc}/{e['role']}/domain", ROLE_DOMAIN.get(e["role"]) == e["domain"], e))
            res.append((f"layout/{soc}/{e['role']}/size-positive", e["size"] > 0 and e["offset"] >= 0, e))
        overl = [(a["role"], b["role"]) for i, a in enumerate(lay) for b in lay[i + 1:] if a["offset"] < b["offset"] + b["size"] and b["offset"] < a["offset"] + a["size"]]
        res.append((f"layout/{soc}/slots-pairwise-disjoint", not overl, {"overlapping": overl}))
    # default class -> role assignments: one role per class name, roles exist
    for soc, cls in SOCS.items():
        ci = it.get_class(FI, cls)
        asg, _ = ci.lookup("_CLASS_ROLE_ASSIGNMENTS")
        rows = [(e.entries["vendor_name"].value.conc, e.entries["class_name"].value.conc, e.entries["role"].value.name) for e in asg.items]
        res.append((f"defaults/{soc}/pairs-unique", len({(v, c) for v, c, _ in rows}) == len(rows), {"rows": rows}))
        res.append((f"defaults/{soc}/roles-unique-and-known", len({r for _, _, r in rows}) == len(rows) and all(r in ROLE_DOMAIN for _, _, r in rows), {"rows": rows}))
    # the +16 constant: len(ENC([ENC("INSTLD_MFST"), h'23'])) is the distance from the component-id key to the raw class UUID
    from bounded import cborx
    prefix = cborx.encode(5) + cborx.head(4, 2) + cborx.encode(cborx.encode("INSTLD_MFST")) + cborx.head(2, 16)
    res.append(("class-id-offset-constant", len(cborx.encode([cborx.encode("INSTLD_MFST"), b"#"])) == len(prefix) == 16, {"prefix_len": len(prefix)}))
    return res


# ------------------------------------------------------------------------------------------------
c = Contract(FE, "SuitEnvelope.sever", ["C07"])
import os as _os
_THOROUGH = _os.environ.get("VERIF_TIER") == "thorough"
# every subset of the eleven members in the thorough tier (2048 paths); quick: every subset of the seven removed members
_OPT = ALL_MEMBERS if _THOROUGH else SEVERED + ["suit-delegation"]
c.param("self", Obj(FE, "SuitEnvelope", _envelope=DictT(required={"SUIT_Envelope_Tagged": DictT(required={m: Str() for m in ALL_MEMBERS if m not in _OPT},
                                                                                                     optional={m: Str() for m in _OPT})})))
c.let("e", "self._envelope['SUIT_Envelope_Tagged']")
for m in ALL_MEMBERS:
    if m in SEVERED:
        c.returns(f"removed_{m}", f"'{m}' not in e")
    else:
        c.returns(f"kept_{m}", f"('{m}' in e) == old('{m}' in e) and ('{m}' not in e or e['{m}'] == old(e['{m}']))")

# ------------------------------------------------------------------------------------------------
ROLES = list(ROLE_DOMAIN)


def _storage(cls):
    def build(it, env):
        from pyvc.values import VObj, VDict, DEntry, VEnum
        ci = it.get_class(FI, cls)
        o = VObj(ci)
        o.attrs["_base_address"] = env.lookup("BASE")
        d = VDict()
        role_cls = it.get_class(FI, "ManifestRole")
        members = {m.name: m for m in it.iterate(__import__("pyvc.values", fromlist=["VClass"]).VClass(info=role_cls))}
        for r in ROLES:
            d.entries[members[r]] = DEntry(members[r], it.fresh_bytes(f"slot_{r}"), z3.Bool(it.fresh_name(f"has_{r}")))
        o.attrs["_envelopes"] = d
        o.attrs["_assignments"] = VDict()
        it.c07_cls = cls
        return o
    return Computed(build)


c = Contract(FI, "EnvelopeStorage.as_intelhex", ["C07"])
c.ghost("BASE", Int(0, 2 ** 32 - 1))
c.param("self", _storage("EnvelopeStorageNrf54h20"))
c.param("storage_domain", OneOf(NoneT(), EnumT(FI, "ManifestDomain")))
# per (SoC, domain): every subset of that domain's roles (the call sites always pass a domain); domain None (all 2**11 subsets): thorough tier
c.variants = [(f"{soc}/{d}", {"self": _storage(cls), "storage_domain": EnumT(FI, "ManifestDomain", members=[d])}) for soc, cls in SOCS.items() for d in ("SECURE", "RADIO", "APPLICATION")] \
    + ([(f"{soc}/all-domains", {"self": _storage(cls), "storage_domain": NoneT()}) for soc, cls in SOCS.items()] if _THOROUGH else [])


def _placement(it, ctx):
    """The returned hex map is exactly: for every stored role of the requested domain, base+offset(role) -> slot ++ FF.. (slot size)."""
    from pyvc.values import VNone, VLib
    from pyvc.stubs_lib import _hexfns
    from pyvc import stubs
    H = _hexfns()
    lay = read_layout(it, it.c07_cls)
    dom = ctx.arg("storage_domain")
    slf = ctx.arg("self")
    env = slf.attrs["_envelopes"]
    present = {k.name: e for k, e in env.entries.items()}
    if ctx.outcome != "return" and ctx.exc.__name__ != "GeneratorError":
        return None
    if ctx.outcome != "return":
        # rejection only when a stored envelope is larger than its slot
        too_big = []
        for e in lay:
            if isinstance(dom, VNone) or dom.name == e["domain"]:
                en = present[e["role"]]
                too_big.append(z3.And(en.present if en.present is not True else z3.BoolVal(True), z3.Length(en.value.e) > e["size"]))
        return [("rejected_only_if_an_envelope_exceeds_its_slot", z3.Or(*too_big) if too_big else z3.BoolVal(False))]
    # expected state, folded in layout order over the roles decided present on this path
    exp = H["EMPTY"]
    count = 0
    goals = []
    for e in lay:
        if not (isinstance(dom, VNone) or dom.name == e["domain"]):
            continue
        en = present[e["role"]]
        is_present = en.present is True or it.pc_index.get(en.present.sexpr()) is True
        if not is_present:
            continue
        count += 1
        fill = stubs.rep_bytes(it, 0xFF, __import__("pyvc.values", fromlist=["VInt"]).VInt(e["size"] - z3.Length(en.value.e)))
        data = z3.Concat(en.value.e, fill.e)
        seg = H["PUT"](H["EMPTY"], ctx.arg("BASE").e + e["offset"], data)
        exp = seg if z3.eq(exp, H["EMPTY"]) else H["MERGE"](exp, seg)
        goals.append((f"slot_fits", z3.Length(en.value.e) <= e["size"]))
    if count == 0:
        return [("none_when_nothing_stored_for_the_domain", z3.BoolVal(isinstance(ctx.result, VNone)))]
    if not (isinstance(ctx.result, VLib) and ctx.result.kind == "IntelHex"):
        return [("returns_a_hex_map", z3.BoolVal(False))]
    goals.append(("only_the_slots_of_the_domain_at_base_plus_offset_padded_with_FF", z3.simplify(ctx.result.f["state"].e) == z3.simplify(exp)))
    return goals


c.check("placement", _placement)
c.max_paths = 40000  # all-domains (thorough): one path per subset of the eleven roles and per rejection
c.raises("GeneratorError")
c.raises("intelhex.AddressOverlapError")  # cannot happen for disjoint slots (E) - listed so that the table obligation carries it


# ------------------------------------------------------------------------------------------------
# add_envelope: the REAL prepare_suit_data / SuitManifest.from_obj / cbor_dumps / bytes.find are executed on a description
# template with symbolic leaves (vendor and class names or a raw class UUID, sequence number, digest, URI ...), against a role
# table with two arbitrary keys and a storage holding an arbitrary subset of the eleven roles.
from pyvc.symdesc import INT, STR, HEXSTR

_Q_ROLES = ["SEC_TOP", "RAD_LOCAL_1", "APP_ROOT", "APP_LOCAL_3"]  # quick tier: one role per domain + the last slot; thorough: all eleven
AE_ROLES = ROLES if _THOROUGH else _Q_ROLES


def _ae_desc(form, pos):
    comp = {"nsname": ["INSTLD_MFST", {"RFC4122_UUID": {"namespace": STR("vendor"), "name": STR("class")}}],
            "raw": ["INSTLD_MFST", {"raw": HEXSTR("rawuuid")}], "absent": None}[form]
    m = {"suit-manifest-version": 1, "suit-manifest-sequence-number": INT("seq")}
    if comp is not None and pos == "first":
        m["suit-manifest-component-id"] = comp
    m["suit-common"] = {"suit-components": [["M", INT("slot", 0, 255)]],
                        "suit-shared-sequence": [{"suit-directive-override-parameters": {"suit-parameter-vendor-identifier": {"RFC4122_UUID": STR("vendor2")}}}]}
    m["suit-validate"] = [{"suit-condition-image-match": ["suit-send-record-failure"]}]
    m["suit-reference-uri"] = STR("ref")  # a member of unbounded length: the stored slot can exceed any slot size
    if comp is not None and pos == "last":
        m["suit-manifest-component-id"] = comp
    return {"SUIT_Envelope_Tagged": {"suit-authentication-wrapper": {"SuitDigest": {"suit-digest-algorithm-id": "cose-alg-sha-256", "suit-digest-bytes": HEXSTR("old_digest")}},
                                     "suit-manifest": m}}


def _ae_envelope(form, pos):
    def build(it, env):
        from pyvc.values import VObj
        leaves = {}
        d = SD.build(it, _ae_desc(form, pos), leaves)
        it.c07_leaves, it.c07_form = leaves, form
        if form == "raw":
            it.assume(z3.Length(leaves["rawuuid"].e) == 32)  # a UUID: the manifest HAS a class UUID (other lengths: B)
        o = VObj(it.get_class(FE, "SuitEnvelope"))
        o.attrs["_envelope"] = d
        return o
    return Computed(build)


def _ae_storage(cls):
    inner = _storage(cls).fn

    def build(it, env):
        from pyvc.values import VDict, DEntry, SymKey
        from pyvc.types import make_value, Bytes as B
        o = inner(it, env)
        d = VDict()
        for kname, rname in (("K0", "R0"), ("K1", "R1")):
            k = env.lookup(kname)
            val = VDict([("vendor_id", make_value(it, B(16), kname + ".vid")), ("class_id", make_value(it, B(16), kname + ".cid")), ("role", env.lookup(rname))])
            d.entries[SymKey(k)] = DEntry(SymKey(k), val)
        it.assume(env.lookup("K0").e != env.lookup("K1").e)
        o.attrs["_assignments"] = d
        it.c07_old_envelopes = {k.name: (e.present, e.value) for k, e in o.attrs["_envelopes"].entries.items()}
        return o
    return Computed(build)


c = Contract(FI, "EnvelopeStorage.add_envelope", ["C07"])
c.ghost("BASE", Int(0, 2 ** 32 - 1))
c.ghost("K0", Str())
c.ghost("K1", Str())
c.ghost("R0", EnumT(FI, "ManifestRole", members=AE_ROLES))
c.ghost("R1", EnumT(FI, "ManifestRole", members=["APP_ROOT"]))
c.param("self", _ae_storage("EnvelopeStorageNrf54h20"))
c.param("envelope", _ae_envelope("nsname", "first"))
c.variants = [(f"{soc}/{form}/{pos}", {"self": _ae_storage(cls), "envelope": _ae_envelope(form, pos)})
              for soc, cls in SOCS.items() for form, pos in (("nsname", "first"), ("nsname", "last"), ("raw", "last"), ("absent", "-"))]


def _add_envelope_checks(it, ctx):
    """Read off the final state: exactly one slot {0: 1, 1: off, 2: stored} was added under the role the table gives the manifest's
    class UUID; the 16 bytes at `off` inside `stored` ARE that UUID; it fits the role's slot; everything else is unchanged.
    A rejection happens only for: no component id, class not in the table, role already stored, slot too small."""
    from pyvc.values import VDict, VInt, VBytes
    from pyvc.stubs_lib import _hexfns  # noqa: F401
    from pyvc import stubs, cbor
    from contracts import specs  # noqa: F401
    lay = {e["role"]: e for e in read_layout(it, it.c07_cls)}
    slf = ctx.arg("self")
    leaves, form = it.c07_leaves, it.c07_form
    K = [ctx.arg("K0"), ctx.arg("K1")]
    Rn = [ctx.arg("R0").name, ctx.arg("R1").name]
    old = it.c07_old_envelopes
    if form == "nsname":
        import uuid as _uuid
        uuid = stubs.UUID5(stubs.UUID5(VBytes(_uuid.NAMESPACE_DNS.bytes).e, leaves["vendor"].e), leaves["class"].e)
    elif form == "raw":
        uuid = stubs.UNHEX(leaves["rawuuid"].e)
    else:
        uuid = None
    goals = []
    if ctx.outcome == "raise":
        if ctx.exc.__name__ != "GeneratorError":
            return None
        if uuid is None:
            return [("rejected_for_a_stated_reason", z3.BoolVal(True))]
        hx = stubs.HEX(uuid)
        not_in_table = z3.And(hx != K[0].e, hx != K[1].e)
        reasons = [not_in_table]
        slot_terms = [(t, v) for t, v in getattr(it, "enc_origin_terms", {}).values() if isinstance(v, VDict) and sorted(map(str, it.dict_keys(v))) == ["0", "1", "2"]]
        for i in (0, 1):
            pres = old[Rn[i]][0]
            reasons.append(z3.And(hx == K[i].e, pres if pres is not True else z3.BoolVal(True)))
            for t, _ in slot_terms:
                reasons.append(z3.And(hx == K[i].e, z3.Length(t) > lay[Rn[i]]["size"]))
        return [("rejected_for_a_stated_reason", z3.Or(*reasons))]
    if uuid is None:
        return [("missing_component_id_is_rejected", z3.BoolVal(False))]
    hx = stubs.HEX(uuid)
    env = slf.attrs["_envelopes"]
    now = {k.name: e for k, e in env.entries.items()}
    # which role was written on this path?
    changed = [r for r in now if not (now[r].value is old[r][1] and (now[r].present is old[r][0] or (now[r].present is not True and old[r][0] is not True and z3.eq(now[r].present, old[r][0]))))]
    goals.append(("exactly_one_role_written", z3.BoolVal(len(changed) == 1 and len(now) == len(old))))
    if len(changed) != 1:
        return goals
    role = changed[0]
    goals.append(("role_is_the_one_assigned_to_the_manifests_class_uuid", z3.Or(*[z3.And(hx == K[i].e, z3.BoolVal(Rn[i] == role)) for i in (0, 1)])))
    goals.append(("role_was_free", z3.Not(old[role][0]) if old[role][0] is not True else z3.BoolVal(False)))
    goals.append(("entry_present_afterwards", z3.BoolVal(now[role].present is True)))
    stored = now[role].value
    goals.append(("fits_the_slot", z3.Length(stored.e) <= lay[role]["size"]))
    o = SD.origin(it, stored)
    ok_shape = isinstance(o, VDict) and sorted(map(str, it.dict_keys(o))) == ["0", "1", "2"]
    goals.append(("slot_is_a_map_of_version_offset_envelope", z3.BoolVal(ok_shape)))
    if not ok_shape:
        return goals
    ent = {str(k): o.entries[k].value for k in it.dict_keys(o)}
    goals.append(("slot_version_is_1", ent["0"].e == 1 if isinstance(ent["0"], VInt) else z3.BoolVal(False)))
    if not (isinstance(ent["1"], VInt) and isinstance(ent["2"], VBytes)):
        goals.append(("offset_and_envelope_types", z3.BoolVal(False)))
        return goals
    off, sev = ent["1"].e, ent["2"].e
    goals.append(("the_16_bytes_at_the_recorded_offset_are_the_class_uuid", z3.And(off >= 0, off + 16 <= z3.Length(sev), z3.Extract(sev, off, 16) == uuid)))
    # the stored envelope is the tagged envelope created from the description (digest wrapper + manifest for this template)
    e = SD.origin(it, ent["2"])
    from pyvc.values import VTag
    goals.append(("stored_bytes_are_the_created_tagged_envelope", z3.BoolVal(isinstance(e, VTag) and e.tag.conc == R.TAGS["SUIT_Envelope_Tagged"])))
    return goals


c.check("slot", _add_envelope_checks)
c.feas_timeout_ms = 400  # table-key comparisons are satisfiable either way; the solver only finds out slowly in this context
c.raises("GeneratorError")
c.raises("ValueError")  # descriptions the encoder rejects


# ------------------------------------------------------------------------------------------------
# Orchestration: ImageCreator._create_suit_storage_files_for_boot for ANY number of envelopes (invariant loop rule).  Call sites
# see only the contracts of EnvelopeStorage.__init__ / add_envelope / as_intelhex (verified above and in C13): the statement is a
# trace-order one - every add_envelope call precedes every file write (so a rejection by add_envelope or by the constructor
# leaves no file behind), and per domain exactly the hex map as_intelhex(domain) returned is written to
# <dir>/suit_installed_envelopes_<domain>_merged.hex, nothing when it returned None.
REGISTRY[(FI, "EnvelopeStorage.add_envelope")].modifies(**{"self._envelopes": DictT()})


def _hex_result(it, env):
    from pyvc.values import VLib, VOpaque, VInt, NONE
    from pyvc.stubs import ValSort
    if it.choose(2, "as_intelhex_none_or_map") == 0:
        return NONE
    return VLib("IntelHex", state=VOpaque(z3.Const(it.fresh_name("hexmap_of_domain"), ValSort), "hexmap"), padding=VInt(0xFF))


REGISTRY[(FI, "EnvelopeStorage.as_intelhex")].result(Computed(_hex_result))

_WRITES = ("write", "write_hex", "open-w", "open-a")


def _no_write_so_far(it, env, mark):
    w = [t for t in it.trace if t[0] in _WRITES]
    return [("no_file_is_written_before_every_envelope_was_accepted", not w)]


def _envelopes_list(it, env):
    from pyvc import shapes
    from pyvc.values import VClass
    return shapes.make(it, shapes.AbsListT(shapes.InstT(lambda it_: [VClass(info=it_.get_class(FE, "SuitEnvelope"))])), "envelopes")


c = Contract(FI, "ImageCreator._create_suit_storage_files_for_boot", ["C07", "C13"])
c.param("envelopes", Computed(_envelopes_list))
c.param("storage_address", Int(0, 2 ** 32 - 1))
c.param("dir_name", Str())
c.param("config_file", Opt(Str()))
c.param("soc", OneOf(Const("nrf54h20"), Const("nrf9280"), Str()))


def _boot_files_checks(it, ctx, dir_arg="dir_name"):
    from pyvc.values import VNone, VLib
    from pyvc.stubs_lib import _hexfns
    from pyvc import stubs
    H = _hexfns()
    calls = [(i, t) for i, t in enumerate(it.trace) if t[0] == "call"]
    hexcalls = [(i, t) for i, t in calls if t[1] == "EnvelopeStorage.as_intelhex"]
    writes = [(i, t) for i, t in enumerate(it.trace) if t[0] in _WRITES]
    adds = [(i, t) for i, t in calls if t[1] == "EnvelopeStorage.add_envelope"]
    goals = [("every_add_envelope_precedes_every_file_write", z3.BoolVal(all(i < j for i, _ in adds for j, _ in writes)))]
    # the storage is constructed ONCE, for the requested SoC, at the given address and WITH the given build configuration
    inits = [t for _, t in calls if t[1] == "EnvelopeStorage.__init__"]
    if inits or ctx.outcome == "return":
        soc = ctx.arg("soc")
        socs = {"nrf54h20": "EnvelopeStorageNrf54h20", "nrf9280": "EnvelopeStorageNrf9280"}
        want_cls = socs.get(getattr(soc, "conc", None))
        if want_cls is None and hasattr(soc, "e"):  # a symbolic SoC string decided by the path
            want_cls = next((cn for nm, cn in socs.items() if it.must(soc.e == z3.StringVal(nm))), None)
        ok = len(inits) == 1
        if ok:
            a = inits[0][2]
            ld = a.get("load_defaults")
            def same(x, y):
                if isinstance(x, VNone) or isinstance(y, VNone):
                    return isinstance(x, VNone) and isinstance(y, VNone)
                return hasattr(x, "e") and hasattr(y, "e") and type(x) is type(y) and z3.eq(z3.simplify(x.e), z3.simplify(y.e))
            ok = (same(a["base_address"], ctx.arg("storage_address")) and same(a["kconfig"], ctx.arg("config_file")) and getattr(ld, "conc", None) is True
                  and want_cls is not None and getattr(a["self"].cls, "name", None) == want_cls)
        goals.append(("storage_constructed_for_the_soc_with_the_address_and_the_build_configuration", z3.BoolVal(ok)))
    if ctx.outcome == "raise":
        if not hexcalls:
            # rejected by the constructor, by add_envelope, or as an unknown SoC: nothing was written
            goals.append(("rejection_before_the_export_leaves_no_file", z3.BoolVal(not writes)))
        return goals
    doms = ["SECURE", "RADIO", "APPLICATION"]
    names = [getattr(t[2]["storage_domain"], "name", None) for _, t in hexcalls]
    goals.append(("one_export_per_domain", z3.BoolVal(sorted(map(str, names)) == sorted(doms))))
    if sorted(map(str, names)) != sorted(doms):
        return goals
    expect = []
    for _, t in hexcalls:
        r = t[3]
        if isinstance(r, VLib):
            expect.append((t[2]["storage_domain"].name, r))
    hexw = [t for _, t in writes if t[0] == "write_hex"]
    goals.append(("only_hex_files_of_non_empty_domains_are_written", z3.BoolVal(len(hexw) == len(expect) and len(writes) == len([w for w in writes if w[1][0] in ("write_hex", "write")]) and
                                                                            len([w for w in writes if w[1][0] == "write"]) == len(hexw))))
    if len(hexw) != len(expect):
        return goals
    for (dom, r), w in zip(expect, hexw):
        path = stubs.path_term(it, stubs.concat_str(stubs.concat_str(ctx.arg(dir_arg), __import__("pyvc.values", fromlist=["VStr"]).VStr("/suit_installed_envelopes_" + dom.lower() + "_merged.hex")),
                                                    __import__("pyvc.values", fromlist=["VStr"]).VStr("")))
        goals.append((f"file_name[{dom}]", w[1] == path if not isinstance(w[1], bool) else z3.BoolVal(False)))
        st = w[2].e if hasattr(w[2], "e") else w[2]
        goals.append((f"file_holds_exactly_the_exported_map[{dom}]", z3.Or(st == r.f["state"].e, st == H["MERGE"](H["EMPTY"], r.f["state"].e))))
    return goals


c.check("files", _boot_files_checks)
from pyvc.shapes import ObjInvT  # noqa: E402
c.loops(storage=ObjInvT(Obj(FI, "EnvelopeStorage", _assignments=DictT(), _base_address=Int(), _envelopes=DictT()), "True"), body_check=_no_write_so_far)
c.raises("GeneratorError")
c.raises("ValueError")
c.raises("KeyError")
c.raises("SystemExit")
c.raises("FileNotFoundError")  # missing output directory
c.raises("intelhex.AddressOverlapError")


# ------------------------------------------------------------------------------------------------
# The public entry: ImageCreator.create_files_for_boot for ANY number of input files.  SuitEnvelope.load is ASSUMED (sets _envelope to
# some description of the envelope shape; reads only) - parsing is C03/C17's; sever() and the orchestration above by their contracts /
# bodies.  Statement: the same trace-order and file clauses, now including the exception mapping of the public function.
_DESC_T = DictT(required={"SUIT_Envelope_Tagged": DictT(optional={m: Str() for m in ALL_MEMBERS})})
c = Contract(FE, "SuitEnvelope.load", ["C07"])
c.model_only = True
c.modular_only_reason = "file reading + parsing (C03/C17): assumed to set _envelope to a description of the envelope shape and to write nothing"
c.scope = {"C07"}
c.param("self", Obj(FE, "SuitEnvelope"))
c.param("file_name", Str())
c.param("input_type", Str())
c.modifies(**{"self._envelope": _DESC_T})
c.raises("FileNotFoundError")
c.raises("ValueError")
c.raises("AttributeError")

REGISTRY[(FI, "ImageCreator._create_suit_storage_files_for_boot")].callers_inline = True  # it writes files: its caller executes the body


def _input_files(it, env):
    from pyvc import shapes
    from pyvc.types import make_value, SeqStr
    return make_value(it, SeqStr(), "input_files")


def _load_then_sever(it, env, mark):
    """One arbitrary input file: the envelope that is collected was loaded from THAT file and severed, in this order; nothing is written."""
    calls = [t for t in it.trace[mark:] if t[0] == "call" and t[1] in ("SuitEnvelope.load", "SuitEnvelope.sever")]
    ok = len(calls) == 2 and calls[0][1] == "SuitEnvelope.load" and calls[1][1] == "SuitEnvelope.sever" and calls[0][2]["self"] is calls[1][2]["self"]
    goals = _no_write_so_far(it, env, mark) + [("each_input_is_loaded_then_severed", ok)]
    if ok:
        fn = calls[0][2]["file_name"]
        goals.append(("loaded_from_the_named_file", fn.e == it._loop_elem.e if hasattr(fn, "e") and hasattr(it._loop_elem, "e") else False))
    return goals


def _boot_public_checks(it, ctx):
    goals = _boot_files_checks(it, ctx, dir_arg="storage_output_directory")
    if goals is None:
        return None
    loads = [i for i, t in enumerate(it.trace) if t[0] == "call" and t[1] == "SuitEnvelope.load"]
    adds = [i for i, t in enumerate(it.trace) if t[0] == "call" and t[1] == "EnvelopeStorage.add_envelope"]
    goals.append(("every_input_is_loaded_before_anything_is_stored", z3.BoolVal(all(i < j for i in loads for j in adds))))
    return goals


c = Contract(FI, "ImageCreator.create_files_for_boot", ["C07"])
c.param("input_files", Computed(_input_files))
c.param("storage_output_directory", Str())
c.param("storage_address", Int(0, 2 ** 32 - 1))
c.param("config_file", Opt(Str()))
c.param("soc", OneOf(Const("nrf54h20"), Const("nrf9280"), Str()))
c.check("files", _boot_public_checks)
from pyvc.shapes import AbsListT, InstT  # noqa: E402
c.loops(envelopes=AbsListT(InstT(lambda it_: [__import__("pyvc.values", fromlist=["VClass"]).VClass(info=it_.get_class(FE, "SuitEnvelope"))])), body_check=_load_then_sever)
c.raises("GeneratorError")  # incl. FileNotFoundError of a missing input / output directory, mapped by the function
c.raises("SUITError")
c.raises("ValueError")
c.raises("KeyError")
c.raises("SystemExit")
c.raises("intelhex.AddressOverlapError")


# ================================================================================================
# B — bounded stand-in: the whole `image boot` flow on generated envelopes, hex files read back with the independent reader
# ================================================================================================
DEFAULT_CLASSES = {"nrf54h20": {"APP_ROOT": "nRF54H20_sample_root", "APP_LOCAL_1": "nRF54H20_sample_app", "APP_RECOVERY": "nRF54H20_sample_app_recovery",
                                "RAD_LOCAL_1": "nRF54H20_sample_rad", "RAD_RECOVERY": "nRF54H20_sample_rad_recovery", "SEC_TOP": "nRF54H20_nordic_top",
                                "SEC_SDFW": "nRF54H20_sec", "SEC_SYSCTRL": "nRF54H20_sys"},
                   "nrf9280": {"APP_ROOT": "nRF9280_sample_root", "APP_LOCAL_1": "nRF9280_sample_app", "APP_RECOVERY": "nRF9280_sample_app_recovery",
                               "RAD_LOCAL_1": "nRF9280_sample_rad", "RAD_RECOVERY": "nRF9280_sample_rad_recovery", "SEC_TOP": "nRF9280_nordic_top",
                               "SEC_SDFW": "nRF9280_sec", "SEC_SYSCTRL": "nRF9280_sys"}}
# pinned layout (device ABI) — independent copy used only by the bounded oracle
LAYOUT = {"nrf54h20": {"SEC_TOP": (768, 1280), "SEC_SDFW": (2048, 1024), "SEC_SYSCTRL": (3072, 1024), "RAD_RECOVERY": (5120, 1024), "RAD_LOCAL_1": (6144, 1024),
                       "RAD_LOCAL_2": (7168, 1024), "APP_ROOT": (9216, 2048), "APP_RECOVERY": (11264, 2048), "APP_LOCAL_1": (13312, 1024), "APP_LOCAL_2": (14336, 1024),
                       "APP_LOCAL_3": (15360, 1024)},
          "nrf9280": {"SEC_TOP": (4096, 1536), "SEC_SDFW": (2048, 1024), "SEC_SYSCTRL": (3072, 1024), "RAD_RECOVERY": (9216, 1024), "RAD_LOCAL_1": (10240, 1024),
                      "RAD_LOCAL_2": (11264, 1024), "APP_ROOT": (13312, 2048), "APP_RECOVERY": (15360, 2048), "APP_LOCAL_1": (17408, 1024), "APP_LOCAL_2": (18432, 1024),
                      "APP_LOCAL_3": (19456, 1024)}}


def _mk_desc(vendor, cls, seq=1, cid_first=False, severed=True, payload=True, filler=0, with_cid=True):
    cid = ["INSTLD_MFST", {"RFC4122_UUID": {"namespace": vendor, "name": cls}}]
    man = {}
    if cid_first and with_cid:
        man["suit-manifest-component-id"] = cid
    man.update({"suit-manifest-version": 1, "suit-manifest-sequence-number": seq,
                "suit-common": {"suit-components": [["M", 1]], "suit-shared-sequence": [{"suit-directive-override-parameters": {"suit-parameter-uri": "x" * filler}}]}})
    if not cid_first and with_cid:
        man["suit-manifest-component-id"] = cid
    d = {"SUIT_Envelope_Tagged": {"suit-authentication-wrapper": {"SuitDigest": {"suit-digest-algorithm-id": "cose-alg-sha-256", "suit-digest-bytes": ""}}, "suit-manifest": man}}
    e = d["SUIT_Envelope_Tagged"]
    if severed:
        man["suit-install"] = {"suit-digest-algorithm-id": "cose-alg-sha-256", "suit-digest-bytes": ""}
        man["suit-text"] = {"suit-digest-algorithm-id": "cose-alg-sha-512", "suit-digest-bytes": ""}
        e["suit-install"] = [{"suit-directive-fetch": ["suit-send-record-failure"]}]
        e["suit-text"] = {"en": {'["M", 1]': {"suit-text-vendor-name": "v"}}}
    else:
        man["suit-install"] = [{"suit-directive-fetch": ["suit-send-record-failure"]}]
    if payload:
        e["suit-integrated-payloads"] = {"#p": "0102030405"}
    return d


def _expected_slot(env_bytes):
    """(slot record bytes, class uuid) expected for an input envelope, from the statement."""
    from bounded import cborx
    t = cborx.decode_all(env_bytes, strict=True)
    removed = {15, 16, 18, 20, 23}
    kept = [(k, v) for k, v in t.value.pairs if not isinstance(k, str) and k not in removed]
    stored = cborx.encode(cborx.Tag(107, cborx.Map(kept)))
    man = cborx.decode_all(t.value.get(3), strict=True)
    cid = man.get(5)
    uuid = cid[1]
    off = stored.find(uuid)
    return stored, uuid


def bounded(ctx):
    import importlib, os, glob
    from bounded.harness import Bounded
    from bounded import cborx, hexread, signing as S
    from contracts import specs_native as N
    from pyvc import front
    quick = ctx["tier"] == "quick"
    B = Bounded(ctx, rule="ImageCreator.create_files_for_boot / cmd_image.main(image=boot) on envelopes made by cmd_create (signed and unsigned, severed members, "
                          "payloads, component id first/last), subsets of roles, both SoCs, base addresses incl. 0 and near 2**32, kconfig assignments; hex files read "
                          "back with the independent HEX and CBOR readers; distinct by (soc, role subset, base, shape)",
                bound="role subsets: singletons, pairs across domains, all eight default roles; bases 0, 0x0E1ED000, 0xFFFF0000; envelopes 1 byte under/over the slot size",
                budget_s=90 if quick else 900)
    img = importlib.import_module("suit_generator.cmd_image")
    create = importlib.import_module("suit_generator.cmd_create")
    GeneratorError = importlib.import_module("suit_generator.exceptions").GeneratorError
    import json
    d = B.fresh_dir("b")
    keys = S.make_keys(d)

    def make(vendor, cls, name, sign=False, **kw):
        inp, out = f"{d}/{name}.json", f"{d}/{name}.suit"
        json.dump(_mk_desc(vendor, cls, **kw), open(inp, "w"))
        create.main(input_file=inp, output_file=out, input_format="AUTO")
        if sign:
            b = S.single_level(front.REPO, d, open(out, "rb").read(), "ed25519", 7, "eddsa")
            open(out, "wb").write(b)
        return out

    def run(soc, files, base, config=None):
        outdir = B.fresh_dir("out")
        img.ImageCreator.create_files_for_boot(files, outdir, base, config, soc)
        return outdir

    def check(soc, outdir, placed, base, case):
        """placed: {role: envelope file}"""
        by_domain = {}
        for role, f in placed.items():
            by_domain.setdefault(ROLE_DOMAIN[role], {})[role] = f
        for dom in ("SECURE", "RADIO", "APPLICATION"):
            path = f"{outdir}/suit_installed_envelopes_{dom.lower()}_merged.hex"
            if dom not in by_domain:
                if os.path.exists(path):
                    B.fail("only-domains-with-envelopes-get-a-file", case, f"{os.path.basename(path)} written without envelopes")
                continue
            if not os.path.exists(path):
                B.fail("domain-file-written", case, f"{os.path.basename(path)} missing")
                continue
            mem = hexread.parse_file(path)
            want = {}
            for role, f in by_domain[dom].items():
                env = open(f, "rb").read()
                stored, uuid = _expected_slot(env)
                off, size = LAYOUT[soc][role]
                a0 = base + off
                got = bytes(mem.get(a0 + i, 0x100) & 0xFF if (a0 + i) in mem else 0 for i in range(size))
                if any((a0 + i) not in mem for i in range(size)):
                    B.fail("slot-padded-to-slot-size", case, f"{role}: slot not fully written")
                    continue
                try:
                    rec, end = cborx.decode(got, 0)
                except Exception as e:  # noqa: BLE001
                    B.fail("slot-is-a-cbor-map", case, f"{role}: {e}")
                    continue
                if not (isinstance(rec, cborx.Map) and rec.keys() == [0, 1, 2] and rec.get(0) == 1):
                    B.fail("slot-is-map-0-1-2", case, f"{role}: {rec!r}"[:200])
                    continue
                if any(x != 0xFF for x in got[end:]):
                    B.fail("slot-padded-with-FF", case, f"{role}: padding not 0xFF")
                e2 = rec.get(2)
                if e2 != stored:
                    B.fail("stored-envelope-is-input-stripped-with-manifest-and-wrapper-byte-identical", case, f"{role}: stored envelope differs ({len(e2)} vs {len(stored)} bytes)")
                o = rec.get(1)
                if e2[o:o + 16] != uuid:
                    B.fail("class-id-offset-points-at-the-class-uuid", case, f"{role}: bytes at offset {o} are {e2[o:o+16].hex()}, class id {uuid.hex()}")
                for i in range(size):
                    want[a0 + i] = got[i]
            if set(mem) != set(want):
                B.fail("file-holds-only-the-slots-of-its-domain", case, f"{dom}: {len(set(mem) - set(want))} bytes outside the slots")
    n = 0
    for soc in ("nrf54h20", "nrf9280"):
        classes = DEFAULT_CLASSES[soc]
        roles = list(classes)
        subsets = [[r] for r in roles] + [["APP_ROOT", "RAD_LOCAL_1"], ["SEC_TOP", "APP_LOCAL_1", "RAD_RECOVERY"], roles]
        for si, sub in enumerate(subsets):
            for base in ([0x0E1ED000] if si % 3 else [0, 0x0E1ED000, 0xFFFF0000]):
                if B.out_of_time():
                    break
                n += 1
                placed = {}
                for ri, role in enumerate(sub):
                    placed[role] = make("nordicsemi.com", classes[role], f"{soc}_{role}_{n}", sign=(n + ri) % 2 == 0, seq=n, cid_first=(n + ri) % 3 == 0,
                                        severed=(n + ri) % 2 == 1, payload=(n + ri) % 4 != 0, filler=(n * 7) % 60)
                case = {"soc": soc, "roles": sub, "base": base}
                B.case((soc, tuple(sub), base), sample=case if n in (1, 12) else None)
                try:
                    outdir = run(soc, list(placed.values()), base)
                except Exception as e:  # noqa: BLE001
                    B.fail("boot-image-generation-succeeds", case, f"{type(e).__name__}: {e}")
                    continue
                check(soc, outdir, placed, base, case)
    # rejections: unknown class, duplicate role, missing component id, envelope larger than its slot (1 byte under / over)
    soc = "nrf54h20"
    ok_other = make("nordicsemi.com", DEFAULT_CLASSES[soc]["RAD_LOCAL_1"], "other_ok")
    ok_sec = make("nordicsemi.com", DEFAULT_CLASSES[soc]["SEC_TOP"], "sec_ok")  # a valid envelope in a domain that is written FIRST
    def expect_reject(label, files, case):
        B.case(("reject", label, tuple(sorted(case.items()))))
        try:
            outdir = run(soc, files, 0x0E1ED000)
        except (GeneratorError, Exception) as e:  # noqa: BLE001
            left = glob.glob(B.path("out") + "/*.hex")
            if left:
                B.fail("rejected-and-no-file-written", case, f"{label}: rejected ({type(e).__name__}) but {len(left)} hex file(s) were written")
            return
        B.fail("rejected-and-no-file-written", case, f"{label}: accepted")
    expect_reject("unknown-class", [ok_sec, ok_other, make("acme.com", "unknown_class", "unk")], {"reject": "unknown-class"})
    expect_reject("duplicate-role", [ok_sec, ok_other, make("nordicsemi.com", DEFAULT_CLASSES[soc]["APP_LOCAL_1"], "dupa", seq=1), make("nordicsemi.com", DEFAULT_CLASSES[soc]["APP_LOCAL_1"], "dupb", seq=2)], {"reject": "duplicate-role"})
    expect_reject("missing-component-id", [ok_sec, ok_other, make("nordicsemi.com", DEFAULT_CLASSES[soc]["APP_LOCAL_1"], "nocid", with_cid=False)], {"reject": "missing-component-id"})
    # size boundary of a 1024-byte slot: find the filler that makes the slot record exactly 1024 bytes
    sizes = {}
    for filler in range(700, 1000, 1):
        f = make("nordicsemi.com", DEFAULT_CLASSES[soc]["APP_LOCAL_1"], "sz", filler=filler, severed=False, payload=False)
        stored, _ = _expected_slot(open(f, "rb").read())
        reclen = len(cborx.encode(cborx.Map([(0, 1), (1, 300), (2, stored)])))
        sizes[reclen] = filler
        if reclen > 1036:
            break
    for reclen in (1023, 1024, 1025, 1026, 1030, 1034):
        if reclen not in sizes:
            continue
        f = make("nordicsemi.com", DEFAULT_CLASSES[soc]["APP_LOCAL_1"], f"sz{reclen}", filler=sizes[reclen], severed=False, payload=False)
        case = {"slot_record_bytes": reclen, "slot_size": 1024}
        if reclen <= 1024:
            B.case(("fits", reclen))
            try:
                outdir = run(soc, [ok_other, f], 0x0E1ED000)
                check(soc, outdir, {"RAD_LOCAL_1": ok_other, "APP_LOCAL_1": f}, 0x0E1ED000, case)
            except Exception as e:  # noqa: BLE001
                B.fail("envelope-that-fits-is-accepted", case, f"{type(e).__name__}: {e}")
        else:
            expect_reject("larger-than-slot", [ok_sec, ok_other, f], case)
    # kconfig role assignment for a custom vendor/class
    cfg = f"{d}/kconfig"
    open(cfg, "w").write('SB_CONFIG_SUIT_MPI_APP_LOCAL_2_VENDOR_NAME="acme.com"\nSB_CONFIG_SUIT_MPI_APP_LOCAL_2_CLASS_NAME="acme_app"\n')
    f = make("acme.com", "acme_app", "custom")
    case = {"kconfig": "APP_LOCAL_2 -> acme.com/acme_app"}
    B.case("kconfig", sample=case)
    try:
        outdir = B.fresh_dir("out")
        img.ImageCreator.create_files_for_boot([f], outdir, 0x0E1ED000, cfg, soc)
        check(soc, outdir, {"APP_LOCAL_2": f}, 0x0E1ED000, case)
    except Exception as e:  # noqa: BLE001
        B.fail("kconfig-assignment-applies", case, f"{type(e).__name__}: {e}")
    # a build-configuration assignment for a pair that ALSO has a default role: the configured role applies (exactly the named pair)
    for soc2 in ("nrf54h20", "nrf9280"):
        dc = DEFAULT_CLASSES[soc2]
        for role, cls_role in (("APP_LOCAL_2", "APP_LOCAL_1"), ("RAD_LOCAL_2", "RAD_LOCAL_1"), ("APP_LOCAL_1", "RAD_LOCAL_1")):
            if role not in LAYOUT[soc2]:
                continue
            cfg2 = f"{d}/kconfig_{soc2}_{role}"
            open(cfg2, "w").write(f'SB_CONFIG_SUIT_MPI_{role}_VENDOR_NAME="nordicsemi.com"\nSB_CONFIG_SUIT_MPI_{role}_CLASS_NAME="{dc[cls_role]}"\n')
            f2 = make("nordicsemi.com", dc[cls_role], f"reassigned_{soc2}_{role}")
            case = {"kconfig": f"{role} -> nordicsemi.com/{dc[cls_role]} (default role {cls_role})", "soc": soc2}
            B.case(("kconfig-over-default", soc2, role), sample=case)
            try:
                outdir = B.fresh_dir("out")
                img.ImageCreator.create_files_for_boot([f2], outdir, 0x0E1ED000, cfg2, soc2)
                check(soc2, outdir, {role: f2}, 0x0E1ED000, case)
            except Exception as e:  # noqa: BLE001
                B.fail("kconfig-assignment-applies-to-the-named-pair", case, f"{type(e).__name__}: {e}")
    # history in one process: the SAME configuration path with other contents (a rewritten .config) - the second run obeys the second contents
    cfg3 = f"{d}/kconfig_rewritten"
    fa, fb = make("acme.com", "first_app", "hist_a"), make("acme.com", "second_app", "hist_b")
    case = {"kconfig": "same path, rewritten between two runs: APP_LOCAL_2 -> acme.com/first_app, then APP_LOCAL_2 -> acme.com/second_app"}
    B.case("kconfig-rewritten", sample=case)
    try:
        open(cfg3, "w").write('SB_CONFIG_SUIT_MPI_APP_LOCAL_2_VENDOR_NAME="acme.com"\nSB_CONFIG_SUIT_MPI_APP_LOCAL_2_CLASS_NAME="first_app"\n')
        outdir = B.fresh_dir("out")
        img.ImageCreator.create_files_for_boot([fa], outdir, 0x0E1ED000, cfg3, "nrf54h20")
        check("nrf54h20", outdir, {"APP_LOCAL_2": fa}, 0x0E1ED000, case)
        open(cfg3, "w").write('SB_CONFIG_SUIT_MPI_APP_LOCAL_2_VENDOR_NAME="acme.com"\nSB_CONFIG_SUIT_MPI_APP_LOCAL_2_CLASS_NAME="second_app"\n')
        outdir = B.fresh_dir("out")
        img.ImageCreator.create_files_for_boot([fb], outdir, 0x0E1ED000, cfg3, "nrf54h20")
        check("nrf54h20", outdir, {"APP_LOCAL_2": fb}, 0x0E1ED000, case)
    except Exception as e:  # noqa: BLE001
        B.fail("kconfig-assignment-applies", case, f"second run with a rewritten configuration: {type(e).__name__}: {e}")
    return B.done()


ASSUMPTIONS = ["IntelHex partial-map operations incl. the structural overlap laws; the HEX record encoding is inside the IntelHex assumption (read back with an independent reader in B)",
               "re-encoding identity of created manifests / authentication wrappers is C03's (checked byte for byte in B)",
               "boot orchestration: at its call sites EnvelopeStorage.__init__ / add_envelope / as_intelhex are summarised by their frames (the constructor sets "
               "_assignments/_base_address/_envelopes; add_envelope changes only _envelopes; as_intelhex returns None or some hex map and writes no file; each may raise "
               "its declared exceptions) - the frames themselves are checked syntactically per function (frame obligations), not as full postconditions",
               "add_envelope is proved on description templates (component id ['INSTLD_MFST', <class UUID>] by namespace/name or as 32 hex digits, first or last in the "
               "manifest, or absent) with a two-key role table; other component-id forms and the description shapes outside the templates are the bounded stand-in's"]
