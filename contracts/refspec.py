"""Reference translation of the description language into SUIT/COSE CBOR (the oracle of C02, reused by C01/C03/C08).

Written from the CDDL of draft-ietf-suit-manifest, -trust-domains, -update-management, RFC 9052 (COSE) and RFC 8392 (CWT)
and the tool's documented description language; it does NOT import suit_generator and takes every integer from the pinned
registry (contracts/registry.py, injected as ID / HASH_ALG).  Ordinary Python in the executor's subset: the SAME text is
imported natively (ENC = own CBOR encoder, HASH = hashlib) for the bounded stand-ins and interpreted by pyvc on
descriptions with symbolic leaves (ENC = the assumed cbor2 contract, HASH uninterpreted) for the proof obligations.

Free names bound by the loader: ENC TAG HASH UUID5 UNHEX utf8 NAMESPACE_DNS ID HASH_ALG.
Excluded, as in the property: suit-delegation, a text map embedded unsevered in the manifest.
"""
import json

SEQ_MEMBERS = ["suit-dependency-resolution", "suit-payload-fetch", "suit-candidate-verification", "suit-install", "suit-install-legacy"]
WRAPPED_SEQ_MANIFEST = ["suit-validate", "suit-load", "suit-invoke", "suit_uninstall"]


def ref_uuid(d):
    if "RFC4122_UUID" in d:
        u = d["RFC4122_UUID"]
        if isinstance(u, dict):
            ns = UUID5(NAMESPACE_DNS, u["namespace"]) if "namespace" in u else NAMESPACE_DNS
            return UUID5(ns, u["name"])
        return UUID5(NAMESPACE_DNS, u)
    return UNHEX(d["raw"])


def ref_component_part(p):
    if isinstance(p, dict):
        return ref_uuid(p)
    if isinstance(p, str):
        if len(p) == 1:
            return utf8(p)
        return ENC(p)
    return ENC(p)


def ref_component_id(parts):
    return [ref_component_part(p) for p in parts]


def ref_digest_pair(d):
    """SUIT_Digest with the bytes given literally (hex string or {'raw': hex})."""
    b = d["suit-digest-bytes"]
    raw = b["raw"] if isinstance(b, dict) else b
    return [ID["hash_alg"][d["suit-digest-algorithm-id"]], UNHEX(raw)]


def ref_policy(names):
    total = 0
    for n in names:
        total = total + ID["report_policy"][n]
    return total


PRERELEASE = {"alpha": -3, "beta": -2, "rc": -1}


def ref_version(v):
    """Integer list of a version; the string form N(.N)*[-(alpha|beta|rc)[.N]] is translated field by field (C20)."""
    if isinstance(v, str):
        return [PRERELEASE[p] if p in PRERELEASE else int(p) for p in v.replace("-", ".").split(".")]
    return v


def ref_header_map(h):
    out = {}
    for k in h:
        v = h[k]
        if k == "suit-cose-algorithm-id":
            out[1] = ID["cose_alg"][v]
        elif k == "suit-cose-key-id":
            out[4] = ENC(v) if isinstance(v, int) else UNHEX(v)
        elif k == "suit-cose-iv":
            out[5] = UNHEX(v)
        else:
            raise ValueError(k)
    return out


def ref_protected(h):
    """bstr .cbor header map; the optional variant of recipients encodes an empty map as a zero-length bstr."""
    return ENC(ref_header_map(h))


def ref_protected_optional(h):
    if isinstance(h, dict) and len(h) > 0:
        return ENC(ref_header_map(h))
    return b""


def ref_ciphertext(c):
    return None if c is None else UNHEX(c)


def ref_recipient(r):
    out = [ref_protected_optional(r["protected"]), ref_header_map(r["unprotected"]), ref_ciphertext(r["ciphertext"])]
    for k in r:
        if k.startswith("recipients"):
            out.append([ref_recipient(x) for x in r[k]])
    return out


def ref_cose_encrypt(e):
    return TAG(96, [ref_protected(e["protected"]), ref_header_map(e["unprotected"]), ref_ciphertext(e["ciphertext"]),
                    [ref_recipient(r) for r in e["recipients"]]])


def ref_cwt(c):
    out = {}
    for k in c:
        out[ID["cwt"][k]] = UNHEX(c[k]) if k == "CW ID" else c[k]
    return out


def ref_sign1(s):
    p = s["payload"]
    # RFC 9052: payload is bstr / nil; RFC 8392: the CWT claims set travels as the (byte-string) payload
    payload = None if p is None else ENC(ref_cwt(p))
    return TAG(18, [ref_protected(s["protected"]), ref_header_map(s["unprotected"]), payload, UNHEX(s["signature"])])


def ref_parameters(p):
    out = {}
    for k in p:
        v = p[k]
        i = ID["parameter"][k]
        if k in ("suit-parameter-vendor-identifier", "suit-parameter-class-identifier", "suit-parameter-device-identifier"):
            out[i] = ref_uuid(v)
        elif k == "suit-parameter-image-digest":
            out[i] = ENC(ref_digest_pair(v))
        elif k == "suit-parameter-image-size":
            out[i] = v["raw"]
        elif k == "suit-parameter-content":
            out[i] = ENC(v) if isinstance(v, int) else UNHEX(v)
        elif k == "suit-parameter-encryption-info":
            out[i] = ENC(ref_cose_encrypt(v["CoseEncryptTagged"]))
        elif k == "suit-parameter-invoke-args":
            a = {}
            for ak in v:
                a[ID["invoke_args"][ak]] = v[ak]
            out[i] = ENC(a)
        elif k == "suit-parameter-version":
            for ck in v:
                out[i] = ENC([ID["version_comparison"][ck], ref_version(v[ck])])
        else:
            out[i] = v  # component-slot, source-component (uint), strict-order, soft-failure (bool), uri (tstr)
    return out


def ref_command(name, arg):
    if name in ID["condition"]:
        return [ID["condition"][name], ref_policy(arg)]
    i = ID["directive"][name]
    if name == "suit-directive-set-component-index":
        return [i, arg]
    if name == "suit-directive-try-each":
        return [i, [ENC(ref_sequence(s)) for s in arg]]
    if name == "suit-directive-run-sequence":
        return [i, ENC(ref_sequence(arg))]
    if name in ("suit-directive-set-parameters", "suit-directive-override-parameters"):
        return [i, ref_parameters(arg)]
    return [i, ref_policy(arg)]


def ref_sequence(seq):
    """SUIT_Command_Sequence: a FLAT array of code / argument pairs."""
    out = []
    for cmd in seq:
        for name in cmd:
            pair = ref_command(name, cmd[name])
            out.append(pair[0])
            out.append(pair[1])
    return out


def ref_text_component(c):
    out = {}
    for k in c:
        out[ID["text_component"][k]] = c[k]
    return out


def ref_text(t):
    out = {}
    for lang in t:
        lm = {}
        for k in t[lang]:
            if k in ID["text"]:
                lm[ID["text"][k]] = t[lang][k]
            else:
                lm[tuple(ref_component_id(json.loads(k)))] = ref_text_component(t[lang][k])
        out[lang] = lm
    return out


def ref_common(c):
    out = {}
    for k in c:
        v = c[k]
        if k == "suit-dependencies":
            deps = {}
            for idx in v:
                md = {}
                for mk_ in v[idx]:
                    md[ID["dependency_metadata"][mk_]] = ref_component_id(v[idx][mk_])
                deps[int(idx)] = md
            out[1] = deps
        elif k == "suit-components":
            out[2] = [ref_component_id(x) for x in v]
        elif k == "suit-shared-sequence":
            out[4] = ENC(ref_sequence(v))
        else:
            raise ValueError(k)
    return out


def is_digest_form(v):
    return isinstance(v, dict) and "suit-digest-algorithm-id" in v


def ref_severed_digest(d, member_bytes):
    """Digest of a severed member: the declared algorithm over the member's byte-string-WRAPPED encoding as it appears in the
    envelope; when the member is absent from the envelope the supplied value stays."""
    alg = d["suit-digest-algorithm-id"]
    if member_bytes is None:
        return ref_digest_pair(d)
    return [ID["hash_alg"][alg], HASH(HASH_ALG[alg][0], HASH_ALG[alg][1], ENC(member_bytes))]


def ref_member_bytes(env, k):
    """Encoding of envelope member k (the content of its bstr), or None when the envelope does not carry it."""
    if k not in env:
        return None
    if k == "suit-text":
        return ENC(ref_text(env[k]))
    return ENC(ref_sequence(env[k]))


def ref_manifest(m, env):
    out = {}
    for k in m:
        v = m[k]
        i = ID["manifest"][k]
        if k in ("suit-manifest-version", "suit-manifest-sequence-number", "suit-reference-uri"):
            out[i] = v
        elif k == "suit-common":
            out[i] = ENC(ref_common(v))
        elif k == "suit-manifest-component-id":
            out[i] = ref_component_id(v)
        elif k == "suit-current-version":
            out[i] = ENC(ref_version(v))
        elif k in WRAPPED_SEQ_MANIFEST:
            out[i] = ENC(ref_sequence(v))
        elif k in SEQ_MEMBERS:
            out[i] = ref_severed_digest(v, ref_member_bytes(env, k)) if is_digest_form(v) else ENC(ref_sequence(v))
        elif k == "suit-text":
            if not is_digest_form(v):
                raise ValueError("text map embedded unsevered in the manifest: excluded")
            out[i] = ref_severed_digest(v, ref_member_bytes(env, k))
        else:
            raise ValueError(k)
    return out


def ref_payload(v):
    if isinstance(v, dict):
        return ref_envelope(v["SUIT_Envelope_Tagged"])
    return UNHEX(v)


def ref_auth(a, manifest_bytes):
    out = []
    for k in a:
        if k == "SuitDigest":
            alg = a[k]["suit-digest-algorithm-id"]
            out.append(ENC([ID["hash_alg"][alg], HASH(HASH_ALG[alg][0], HASH_ALG[alg][1], ENC(manifest_bytes))]))
        else:
            out.append(ENC(ref_sign1(a[k]["CoseSign1Tagged"])))
    return out


def ref_envelope_map(d):
    mb = ENC(ref_manifest(d["suit-manifest"], d))
    out = {}
    for k in d:
        v = d[k]
        if k == "suit-authentication-wrapper":
            out[2] = ENC(ref_auth(v, mb))
        elif k == "suit-manifest":
            out[3] = mb
        elif k in SEQ_MEMBERS:
            out[ID["envelope"][k]] = ENC(ref_sequence(v))
        elif k == "suit-text":
            out[23] = ENC(ref_text(v))
        elif k in ("suit-integrated-payloads", "suit-integrated-dependencies"):
            for uri in v:
                out[uri] = ref_payload(v[uri])
        else:
            raise ValueError(k)
    return out


def ref_envelope(d):
    """Bytes of the envelope described by d (the value under 'SUIT_Envelope_Tagged')."""
    return ENC(TAG(107, ref_envelope_map(d)))
