"""C01 — Created envelopes carry correct manifest and severed-member digests.

The real `prepare_suit_data` / `return_processed_binary_data` are executed by the path executor on descriptions of a fixed
SHAPE with SYMBOLIC leaves (sequence numbers, URIs and names of any length, supplied digest values, file contents, the digest
algorithm of every digest field case-split over the five algorithms): the manifest's byte-string header width, every
integer width and every content is covered at once.  The postcondition is read off the RESULT: the encoded envelope is
decomposed through law A1 (origin of every byte term) by an independent walker that knows only the pinned registry
(contracts/registry.py), and each recorded digest must be the term HASH(declared algorithm, wrapped bytes in this envelope).
"""
import z3
from pyvc.contract import Contract
from pyvc.types import Computed, ClsT
from pyvc import symdesc as SD
from pyvc.symdesc import INT, STR, HEXSTR, CHOICE, FILEPATH
from contracts import registry as R

PROPERTY = "C01"
LEVEL = "proof"
FIO = "suit_generator/input_output.py"
FENV = "suit_generator/suit/envelope.py"
ALG = ["cose-alg-sha-256", "cose-alg-shake128", "cose-alg-sha-384", "cose-alg-sha-512", "cose-alg-shake256"]
POL = ["suit-send-record-success", "suit-send-record-failure"]
SEVERABLE = ["suit_dependency_resolution", "suit_payload_fetch", "suit_candidate_verification", "suit_install", "suit_install_legacy", "suit_text"]


WRAPPER_ALG = [None]  # set per variant: the wrapper's algorithm is fixed per verification job, members case-split (one shared choice)


def _digest(tag, supplied=True):
    if tag.startswith("w"):
        alg = WRAPPER_ALG[0] if WRAPPER_ALG[0] else CHOICE("alg_wrapper", *ALG)
    else:
        alg = CHOICE("alg_members", *ALG)
    return {"suit-digest-algorithm-id": alg, "suit-digest-bytes": HEXSTR(f"supplied_{tag}") if supplied else ""}


def _seq(tag):
    return [{"suit-directive-set-component-index": 0},
            {"suit-directive-override-parameters": {"suit-parameter-uri": STR(f"uri_{tag}"), "suit-parameter-image-size": {"raw": INT(f"size_{tag}", 0, 2 ** 32)}}},
            {"suit-directive-fetch": POL}]


def _manifest(tag, **members):
    m = {"suit-manifest-version": 1, "suit-manifest-sequence-number": INT(f"seq_{tag}"),
         "suit-common": {"suit-components": [["M", INT(f"slot_{tag}", 0, 255)]],
                         "suit-shared-sequence": [{"suit-directive-override-parameters": {"suit-parameter-vendor-identifier": {"RFC4122_UUID": STR(f"vendor_{tag}")}}},
                                                  {"suit-condition-vendor-identifier": POL}]},
         "suit-validate": [{"suit-condition-image-match": POL}]}
    m.update(members)
    return m


def shape_flat(tag="a"):
    return {"SUIT_Envelope_Tagged": {"suit-authentication-wrapper": {"SuitDigest": _digest(f"w{tag}")},
                                     "suit-manifest": _manifest(tag, **{"suit-install": _seq(f"i{tag}"), "suit-reference-uri": STR(f"ref_{tag}")})}}


def shape_severed(tag="s"):
    return {"SUIT_Envelope_Tagged": {
        "suit-authentication-wrapper": {"SuitDigest": _digest(f"w{tag}")},
        "suit-manifest": _manifest(tag, **{"suit-install": _digest(f"install{tag}"), "suit-payload-fetch": _digest(f"fetch{tag}"),
                                           "suit-text": _digest(f"text{tag}")}),
        "suit-install": _seq(f"i{tag}"), "suit-payload-fetch": _seq(f"f{tag}"),
        "suit-text": {"en": {'["M", 2]': {"suit-text-vendor-name": STR(f"vname_{tag}"), "suit-text-model-name": STR(f"mname_{tag}")}}}}}


def shape_severed2(tag="t"):
    return {"SUIT_Envelope_Tagged": {
        "suit-authentication-wrapper": {"SuitDigest": _digest(f"w{tag}")},
        "suit-manifest": _manifest(tag, **{"suit-dependency-resolution": _digest(f"depres{tag}"), "suit-candidate-verification": _digest(f"cand{tag}"),
                                           "suit-install": _seq(f"inl{tag}")}),
        "suit-dependency-resolution": _seq(f"d{tag}"), "suit-candidate-verification": _seq(f"c{tag}")}}


def shape_absent_member(tag="m"):
    """A member referenced by digest but not present in the envelope (boot images): it is skipped, the others are still refreshed."""
    return {"SUIT_Envelope_Tagged": {
        "suit-authentication-wrapper": {"SuitDigest": _digest(f"w{tag}")},
        "suit-manifest": _manifest(tag, **{"suit-text": _digest(f"text{tag}"), "suit-payload-fetch": _digest(f"fetch{tag}"), "suit-install": _digest(f"install{tag}")}),
        "suit-install": _seq(f"i{tag}")}}


def shape_nested(tag="n"):
    child = shape_flat("c" + tag)
    parent = shape_flat("p" + tag)
    parent["SUIT_Envelope_Tagged"]["suit-manifest"]["suit-install"] = [
        {"suit-directive-override-parameters": {"suit-parameter-uri": "#child",
                                                "suit-parameter-image-digest": {"suit-digest-algorithm-id": CHOICE("alg_members", *ALG),
                                                                                "suit-digest-bytes": {"envelope": child}}}},
        {"suit-directive-fetch": POL}]
    parent["SUIT_Envelope_Tagged"]["suit-integrated-dependencies"] = {"#child": child}
    return parent


SHAPES = {"flat": shape_flat, "severed-install-fetch-text": shape_severed, "severed-depres-candidate": shape_severed2,
          "member-referenced-but-absent": shape_absent_member, "nested-dependency": shape_nested}


def _desc(shape, wrapper_alg=None):
    def build(it, env):
        leaves = {}
        WRAPPER_ALG[0] = wrapper_alg
        v = SD.build(it, SHAPES[shape](), leaves)
        it.c01_leaves = leaves
        return v
    return Computed(build)


def _hash_of_wrapped(it, alg_id, value_bytes):
    """HASH(declared algorithm, the bstr-wrapped member exactly as it appears in the envelope)."""
    from pyvc import cbor, stubs
    name, size = R.HASHES[alg_id]
    return stubs.hash_term(it, name, size, cbor._enc(it, value_bytes))


def walk_envelope(it, data, goals, prefix, depth=0):
    """Independent reader of the created bytes (through origins): appends (label, goal) pairs."""
    from pyvc.values import VTag, VDict, VList, VBytes, VInt, VTuple
    env = SD.origin(it, data)
    if not isinstance(env, VTag) or env.tag.conc != R.TAGS["SUIT_Envelope_Tagged"] or not isinstance(env.value, VDict):
        goals.append((prefix + "result_is_a_tagged_envelope", z3.BoolVal(False)))
        return
    d = env.value.entries
    aw, mf = R.id_of("suit_authentication_wrapper"), R.id_of("suit_manifest")
    if aw not in d or mf not in d:
        goals.append((prefix + "envelope_has_wrapper_and_manifest", z3.BoolVal(False)))
        return
    w = SD.origin(it, d[aw].value)
    dg = SD.origin(it, w.items[0]) if isinstance(w, (VList, VTuple)) and w.items else None
    if not (isinstance(dg, (VList, VTuple)) and len(dg.items) == 2 and isinstance(dg.items[0], VInt) and dg.items[0].conc in R.HASHES):
        goals.append((prefix + "wrapper_digest_is_a_SUIT_Digest", z3.BoolVal(False)))
        return
    mb = d[mf].value
    goals.append((prefix + "manifest_digest", dg.items[1].e == _hash_of_wrapped(it, dg.items[0].conc, mb).e))
    manifest = SD.origin(it, mb)
    if not isinstance(manifest, VDict):
        goals.append((prefix + "manifest_is_a_map", z3.BoolVal(False)))
        return
    for cls in SEVERABLE:
        sid = R.id_of(cls)
        if sid in manifest.entries:
            mv = manifest.entries[sid].value
            if isinstance(mv, (VList, VTuple)) and len(mv.items) == 2 and isinstance(mv.items[0], VInt) and mv.items[0].conc in R.HASHES:
                if sid in d:  # referenced by digest AND present in the envelope
                    goals.append((prefix + f"severed_{R.name_of(cls)}_digest", mv.items[1].e == _hash_of_wrapped(it, mv.items[0].conc, d[sid].value).e))
    for k, e in d.items():  # nested dependency envelopes at every level
        if isinstance(k, str) and isinstance(e.value, VBytes) and depth < 4:
            inner = SD.origin(it, e.value)
            if isinstance(inner, VTag):
                walk_envelope(it, e.value, goals, prefix + k + "/", depth + 1)


def _digests_ok(it, ctx):
    if ctx.outcome != "return" or it.variant_label == "path":
        return None
    goals = []
    walk_envelope(it, ctx.result, goals, "")
    if not any(l.endswith("manifest_digest") for l, _ in goals):
        goals.append(("manifest_digest", None))
    return goals


c = Contract(FIO, "InputOutputMixin.prepare_suit_data", ["C01", "C05"])
c.param("data", _desc("flat"))
c.variants = [(f"{s}/{a}", {"data": _desc(s, a)}) for s in SHAPES for a in ALG]
c.check("digests", _digests_ok)
c.raises("ValueError")  # descriptions the encoder rejects (e.g. odd-length hex)
c.raises("FileNotFoundError")

c = Contract(FENV, "SuitBasicEnvelopeOperationsMixin.return_processed_binary_data", ["C01", "C05"])
c.param("cls", ClsT(FENV, "SuitEnvelopeTagged"))
c.param("obj", _desc("flat"))
c.variants = [(s, {"obj": _desc(s)}) for s in ("flat", "severed-install-fetch-text")]
c.check("digests", _digests_ok)
c.raises("ValueError")
c.raises("FileNotFoundError")
c.callers_inline = True
