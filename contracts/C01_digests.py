"""C01 — Created envelopes carry correct manifest and severed-member digests.

The real `prepare_suit_data` / `return_processed_binary_data` are executed by the path executor on descriptions of a fixed
SHAPE with SYMBOLIC leaves (sequence numbers, URIs and names of any length, supplied digest values, file contents, the digest
algorithm of every digest field case-split over the five algorithms): the manifest's byte-string header width, every
integer width and every content is covered at once.  The postcondition is read off the RESULT: the encoded envelope is
decomposed through law A1 (origin of every byte term) by an independent walker that knows only the pinned registry
(contracts/registry.py), and each recorded digest must be the term HASH(declared algorithm, wrapped bytes in this envelope).
"""
import z3
from pyvc.contract import Contract
from pyvc.types import Computed, ClsT
from pyvc import symdesc as SD
from pyvc.symdesc import INT, STR, HEXSTR, CHOICE, FILEPATH
from contracts import registry as R

PROPERTY = "C01"
LEVEL = "proof"
FIO = "suit_generator/input_output.py"
FENV = "suit_generator/suit/envelope.py"
ALG = ["cose-alg-sha-256", "cose-alg-shake128", "cose-alg-sha-384", "cose-alg-sha-512", "cose-alg-shake256"]
POL = ["suit-send-record-success", "suit-send-record-failure"]
SEVERABLE = ["suit_dependency_resolution", "suit_payload_fetch", "suit_candidate_verification", "suit_install", "suit_install_legacy", "suit_text"]


WRAPPER_ALG = [None]  # set per variant: the wrapper's algorithm is fixed per verification job, members case-split (one shared choice)


def _digest(tag, supplied=True):
    if tag.startswith("w"):
        alg = WRAPPER_ALG[0] if WRAPPER_ALG[0] else CHOICE("alg_wrapper", *ALG)
    else:
        alg = CHOICE("alg_members", *ALG)
    return {"suit-digest-algorithm-id": alg, "suit-digest-bytes": HEXSTR(f"supplied_{tag}") if supplied else ""}


def _seq(tag):
    return [{"suit-directive-set-component-index": 0},
            {"suit-directive-override-parameters": {"suit-parameter-uri": STR(f"uri_{tag}"), "suit-parameter-image-size": {"raw": INT(f"size_{tag}", 0, 2 ** 32)}}},
            {"suit-directive-fetch": POL}]


def _manifest(tag, **members):
    m = {"suit-manifest-version": 1, "suit-manifest-sequence-number": INT(f"seq_{tag}"),
         "suit-common": {"suit-components": [["M", INT(f"slot_{tag}", 0, 255)]],
                         "suit-shared-sequence": [{"suit-directive-override-parameters": {"suit-parameter-vendor-identifier": {"RFC4122_UUID": STR(f"vendor_{tag}")}}},
                                                  {"suit-condition-vendor-identifier": POL}]},
         "suit-validate": [{"suit-condition-image-match": POL}]}
    m.update(members)
    return m


def shape_flat(tag="a"):
    return {"SUIT_Envelope_Tagged": {"suit-authentication-wrapper": {"SuitDigest": _digest(f"w{tag}")},
                                     "suit-manifest": _manifest(tag, **{"suit-install": _seq(f"i{tag}"), "suit-reference-uri": STR(f"ref_{tag}")})}}


def shape_severed(tag="s"):
    return {"SUIT_Envelope_Tagged": {
        "suit-authentication-wrapper": {"SuitDigest": _digest(f"w{tag}")},
        "suit-manifest": _manifest(tag, **{"suit-install": _digest(f"install{tag}"), "suit-payload-fetch": _digest(f"fetch{tag}"),
                                           "suit-text": _digest(f"text{tag}")}),
        "suit-install": _seq(f"i{tag}"), "suit-payload-fetch": _seq(f"f{tag}"),
        "suit-text": {"en": {'["M", 2]': {"suit-text-vendor-name": STR(f"vname_{tag}"), "suit-text-model-name": STR(f"mname_{tag}")}}}}}


def shape_severed2(tag="t"):
    return {"SUIT_Envelope_Tagged": {
        "suit-authentication-wrapper": {"SuitDigest": _digest(f"w{tag}")},
        "suit-manifest": _manifest(tag, **{"suit-dependency-resolution": _digest(f"depres{tag}"), "suit-candidate-verification": _digest(f"cand{tag}"),
                                           "suit-install": _seq(f"inl{tag}")}),
        "suit-dependency-resolution": _seq(f"d{tag}"), "suit-candidate-verification": _seq(f"c{tag}")}}


def shape_absent_member(tag="m"):
    """A member referenced by digest but not present in the envelope (boot images): it is skipped, the others are still refreshed."""
    return {"SUIT_Envelope_Tagged": {
        "suit-authentication-wrapper": {"SuitDigest": _digest(f"w{tag}")},
        "suit-manifest": _manifest(tag, **{"suit-text": _digest(f"text{tag}"), "suit-payload-fetch": _digest(f"fetch{tag}"), "suit-install": _digest(f"install{tag}")}),
        "suit-install": _seq(f"i{tag}")}}


def shape_nested(tag="n"):
    child = shape_flat("c" + tag)
    parent = shape_flat("p" + tag)
    parent["SUIT_Envelope_Tagged"]["suit-manifest"]["suit-install"] = [
        {"suit-directive-override-parameters": {"suit-parameter-uri": "#child",
                                                "suit-parameter-image-digest": {"suit-digest-algorithm-id": CHOICE("alg_members", *ALG),
                                                                                "suit-digest-bytes": {"envelope": child}}}},
        {"suit-directive-fetch": POL}]
    parent["SUIT_Envelope_Tagged"]["suit-integrated-dependencies"] = {"#child": child}
    return parent


SHAPES = {"flat": shape_flat, "severed-install-fetch-text": shape_severed, "severed-depres-candidate": shape_severed2,
          "member-referenced-but-absent": shape_absent_member, "nested-dependency": shape_nested}


def _desc(shape, wrapper_alg=None):
    def build(it, env):
        leaves = {}
        WRAPPER_ALG[0] = wrapper_alg
        v = SD.build(it, SHAPES[shape](), leaves)
        it.c01_leaves = leaves
        return v
    return Computed(build)


def _hash_of_wrapped(it, alg_id, value_bytes):
    """HASH(declared algorithm, the bstr-wrapped member exactly as it appears in the envelope)."""
    from pyvc import cbor, stubs
    name, size = R.HASHES[alg_id]
    return stubs.hash_term(it, name, size, cbor._enc(it, value_bytes))


def walk_envelope(it, data, goals, prefix, depth=0):
    """Independent reader of the created bytes (through origins): appends (label, goal) pairs."""
    from pyvc.values import VTag, VDict, VList, VBytes, VInt, VTuple
    env = SD.origin(it, data)
    if not isinstance(env, VTag) or env.tag.conc != R.TAGS["SUIT_Envelope_Tagged"] or not isinstance(env.value, VDict):
        goals.append((prefix + "result_is_a_tagged_envelope", z3.BoolVal(False)))
        return
    d = env.value.entries
    aw, mf = R.id_of("suit_authentication_wrapper"), R.id_of("suit_manifest")
    if aw not in d or mf not in d:
        goals.append((prefix + "envelope_has_wrapper_and_manifest", z3.BoolVal(False)))
        return
    w = SD.origin(it, d[aw].value)
    dg = SD.origin(it, w.items[0]) if isinstance(w, (VList, VTuple)) and w.items else None
    if not (isinstance(dg, (VList, VTuple)) and len(dg.items) == 2 and isinstance(dg.items[0], VInt) and dg.items[0].conc in R.HASHES):
        goals.append((prefix + "wrapper_digest_is_a_SUIT_Digest", z3.BoolVal(False)))
        return
    mb = d[mf].value
    goals.append((prefix + "manifest_digest", dg.items[1].e == _hash_of_wrapped(it, dg.items[0].conc, mb).e))
    manifest = SD.origin(it, mb)
    if not isinstance(manifest, VDict):
        goals.append((prefix + "manifest_is_a_map", z3.BoolVal(False)))
        return
    for cls in SEVERABLE:
        sid = R.id_of(cls)
        if sid in manifest.entries:
            mv = manifest.entries[sid].value
            if isinstance(mv, (VList, VTuple)) and len(mv.items) == 2 and isinstance(mv.items[0], VInt) and mv.items[0].conc in R.HASHES:
                if sid in d:  # referenced by digest AND present in the envelope
                    goals.append((prefix + f"severed_{R.name_of(cls)}_digest", mv.items[1].e == _hash_of_wrapped(it, mv.items[0].conc, d[sid].value).e))
    for k, e in d.items():  # nested dependency envelopes at every level
        if isinstance(k, str) and isinstance(e.value, VBytes) and depth < 4:
            inner = SD.origin(it, e.value)
            if isinstance(inner, VTag):
                walk_envelope(it, e.value, goals, prefix + k + "/", depth + 1)


def _digests_ok(it, ctx):
    if ctx.outcome != "return" or it.variant_label == "path":
        return None
    goals = []
    walk_envelope(it, ctx.result, goals, "")
    if not any(l.endswith("manifest_digest") for l, _ in goals):
        goals.append(("manifest_digest", None))
    return goals


c = Contract(FIO, "InputOutputMixin.prepare_suit_data", ["C01", "C05"])
c.param("data", _desc("flat"))
c.variants = [(f"{s}/{a}", {"data": _desc(s, a)}) for s in SHAPES for a in ALG]
c.check("digests", _digests_ok)
c.raises("ValueError")  # descriptions the encoder rejects (e.g. odd-length hex)
c.raises("FileNotFoundError")

c = Contract(FENV, "SuitBasicEnvelopeOperationsMixin.return_processed_binary_data", ["C01", "C05"])
c.param("cls", ClsT(FENV, "SuitEnvelopeTagged"))
c.param("obj", _desc("flat"))
c.variants = [(s, {"obj": _desc(s)}) for s in ("flat", "severed-install-fetch-text")]
c.check("digests", _digests_ok)
c.raises("ValueError")
c.raises("FileNotFoundError")
c.callers_inline = True


# ------------------------------------------------------------------------------------------------ B: bounded stand-in
def check_digests(env_bytes):
    """Independent re-derivation of every recorded digest from the OUTPUT bytes (own CBOR reader + hashlib). Returns messages."""
    from bounded import cborx
    from contracts.specs_native import HASH
    msgs = []

    def walk(b, where):
        t = cborx.decode_all(b, strict=True)
        if not isinstance(t, cborx.Tag) or t.tag != 107:
            return msgs.append(f"{where}: not a tagged envelope")
        m = t.value
        wrapper = cborx.decode_all(m.get(2), strict=True)
        alg, dg = cborx.decode_all(wrapper[0], strict=True)
        name, size = R.HASHES[alg]
        want = HASH(name, size, cborx.encode(m.get(3)))  # the byte-string-WRAPPED manifest exactly as it appears
        if dg != want:
            msgs.append(f"{where}: manifest digest ({name}) is {dg.hex()[:16]}.., the wrapped manifest hashes to {want.hex()[:16]}.. (manifest {len(m.get(3))} bytes)")
        manifest = cborx.decode_all(m.get(3), strict=True)
        for cls in SEVERABLE:
            sid = R.id_of(cls)
            v = manifest.get(sid)
            if isinstance(v, list) and len(v) == 2 and isinstance(v[0], int) and v[0] in R.HASHES and isinstance(v[1], bytes) and sid in m:
                name, size = R.HASHES[v[0]]
                want = HASH(name, size, cborx.encode(m.get(sid)))
                if v[1] != want:
                    msgs.append(f"{where}: digest of severed {R.name_of(cls)} ({name}) does not match the member's wrapped bytes ({len(m.get(sid))} bytes)")
        for k, v in m.pairs:
            if isinstance(k, str) and isinstance(v, bytes) and v[:2] == b"\xd8\x6b":
                try:  # an integrated member that merely STARTS like an envelope is a payload, not a dependency: nothing to re-derive inside it
                    cborx.decode_all(cborx.decode_all(v, strict=True).value.get(3), strict=True)
                except Exception:  # noqa: BLE001
                    continue
                walk(v, where + "/" + k)
    walk(env_bytes, "")
    return msgs


def _create_native(desc):
    import copy
    from suit_generator.suit.envelope import SuitEnvelopeTagged
    e = SuitEnvelopeTagged.from_obj(copy.deepcopy(desc))
    e.update_severable_digests()
    e.update_digest()
    return e.to_cbor()


def _sized(L, alg, member_len):
    """A description whose manifest (through the reference URI) and severed install member (through a URI parameter) have tunable sizes."""
    return {"SUIT_Envelope_Tagged": {
        "suit-authentication-wrapper": {"SuitDigest": {"suit-digest-algorithm-id": alg, "suit-digest-bytes": "00"}},
        "suit-manifest": {"suit-manifest-version": 1, "suit-manifest-sequence-number": 1, "suit-common": {"suit-components": [["M"]]},
                          "suit-reference-uri": "u" * L, "suit-install": {"suit-digest-algorithm-id": alg, "suit-digest-bytes": "11" * 4},
                          "suit-text": {"suit-digest-algorithm-id": alg, "suit-digest-bytes": ""}},
        "suit-install": [{"suit-directive-override-parameters": {"suit-parameter-uri": "p" * member_len}}],
        "suit-text": {"en": {"suit-text-manifest-description": "t" * member_len}}}}


def bounded(ctx):
    from bounded.harness import Bounded
    from bounded import gen_desc as G
    from pyvc import native
    import logging
    native.install_log_shim()
    logging.disable(logging.CRITICAL)
    quick = ctx["tier"] == "quick"
    B = Bounded(ctx, rule="create (library and CLI) then every recorded digest re-derived from the output bytes with an independent CBOR reader and hashlib: manifest and "
                          "severed-member sizes swept through every residue modulo 256/512 and across the bstr header widths 23/24, 255/256, 65535/65536, five algorithms, "
                          "supplied digests always wrong; plus the generated description language (all member subsets, nested dependencies); distinct by description",
                bound="reference-URI length 0..600 and 65400..65560 (step 1; quick: the large range step 7), member length 0..520; generator: systematic + 150/2000 random", budget_s=60 if quick else 600)
    n = 0
    ranges = list(range(0, 601)) + list(range(65400, 65561, 7 if quick else 1))
    for L in ranges:
        if B.out_of_time():
            break
        alg = ALG[n % 5]
        ml = (n * 7) % 521
        desc = _sized(L, alg, ml)
        n += 1
        B.case(("sized", L, alg, ml), sample={"reference_uri_length": L, "alg": alg, "member_payload_length": ml} if n in (5, 300) else None)
        try:
            out = _create_native(desc)
        except Exception as e:  # noqa: BLE001
            B.fail("create-succeeds", {"kind": "sized", "L": L, "alg": alg, "member_len": ml}, f"{type(e).__name__}: {e}")
            continue
        for msg in check_digests(out)[:1]:
            B.fail("recorded-digests-match-the-output-bytes", {"kind": "sized", "L": L, "alg": alg, "member_len": ml}, msg)
    for name, desc in G.systematic(ctx["seed"]) + G.sample(ctx["seed"] + 3, 150 if quick else 2000):
        if B.out_of_time():
            break
        B.case(name)
        try:
            out = _create_native(desc)
        except Exception:  # noqa: BLE001  (acceptance is C02's)
            continue
        for msg in check_digests(out)[:1]:
            B.fail("recorded-digests-match-the-output-bytes", {"kind": "generated", "name": name, "description": desc}, msg)
    return B.done()


def replay_case(case):
    from pyvc import native
    native.install_log_shim()
    desc = _sized(case["L"], case["alg"], case["member_len"]) if case.get("kind") == "sized" else case["description"]
    msgs = check_digests(_create_native(desc))
    return not msgs, msgs[:2]
