"""C09 — Signing policy: already-signed action, key match, recursive configuration.

Contracts carrying the first sentence live in C04_sign.py (tagged C09): Signer.already_signed_action, Signer.sign_envelope
(error / skip / remove-old on unsigned and singly-signed input), SuitKMS._verify_signing_key_type and SuitKMS.sign (a key whose
type does not match the algorithm is refused before any signature is made).  Here: RecursiveSigner and the bounded stand-in.
"""
import z3
from pyvc.contract import Contract
from pyvc.types import Int, Bool, Bytes, Str, Obj, PathStr, OneOf, ListT, NoneT, Const, DictT, EnumT, Lib, Opt, TupleT, Enc, TagT, Computed
import contracts.C04_sign as C04

PROPERTY = "C09"
LEVEL = "proof"
EXPLANATION = ("P: the three already-signed actions on unsigned/singly-signed input, the key-type/algorithm table (5 key kinds x 5 algorithms), "
               "refusal before signing, RecursiveSigner._load_dependency. B: recursive configuration trees up to depth 3 with real keys "
               "(RecursiveSigner.__init__/recursive_sign are recursive over a JSON tree; covered by the bounded stand-in only).")
FC = "suit_generator/cmd_sign.py"

# ------------------------------------------------------------------------------------------------
c = Contract(FC, "RecursiveSigner._load_dependency", ["C09"])
c.ghost("CHILD", Enc(TagT(107, DictT(required={2: Bytes(), 3: Bytes()}))))
c.ghost("NOTAG", Enc(ListT([Int(0, 1000)])))
c.param("self", Obj(FC, "RecursiveSigner", envelope_name=Str()))
c.param("dependency_name", OneOf("#dep"))
c.variants = [("present-envelope", {}), ("absent", {}), ("not-bytes", {}), ("not-a-tag", {})]


def _setup_load(it, env):
    from pyvc.values import VTag, VDict, DEntry, VInt
    d = VDict()
    d.entries[3] = DEntry(3, it.fresh_bytes("manifest"))
    v = it.variant_label
    if v == "present-envelope":
        d.entries["#dep"] = DEntry("#dep", env.lookup("CHILD"))
    elif v == "not-bytes":
        d.entries["#dep"] = DEntry("#dep", VInt(5))
    elif v == "not-a-tag":
        d.entries["#dep"] = DEntry("#dep", env.lookup("NOTAG"))
    env.lookup("self").attrs["envelope"] = VTag(VInt(107), d)
    from pyvc.values import VStr
    env.set("variant", VStr(v))


c.setup = _setup_load
c.callers_inline = True  # the clauses talk about this harness's variants: callers execute the body
c.returns("returns_the_decoded_dependency", "variant == 'present-envelope' and ENC(result) == CHILD")
c.raises("ValueError", when="variant != 'present-envelope'", label="absent_or_not_an_envelope")


# ------------------------------------------------------------------------------------------------
# RecursiveSigner.__init__: configuration inheritance and what is handed to the child signers (one level; the recursive
# construction of a child is the function's OWN contract - any depth).  _import_signer (importlib) is an assumed contract.
from pyvc.types import Computed, EnumT, Opt, NoneT, Lib  # noqa: E402
ALG_STRS = ["es-256", "es-384", "es-521", "eddsa", "hash-eddsa"]
FB = "suit_generator/suit_sign_script_base.py"

# _import_signer: VERIFIED against a model of importlib (stubs_lib: spec_from_file_location / module_from_spec / exec_module): the module is loaded from
# exactly the given script path, executed once, registered under a FRESH (uuid4) name, its suit_signer_factory is called once and what it returns is
# what is returned; a script without the factory, or whose factory returns something that is no SuitEnvelopeSignerBase, is refused with ValueError.
# What remains assumed: the file at that path is the shipped ncs/sign_script.py (then the factory yields its Signer) - the CALLER's choice of script.
def _plugin_returns_signer(it, m, fname):
    from pyvc.values import VObj
    o = VObj(it.get_class("ncs/sign_script.py", "Signer"))
    it.assumptions_used.add("the sign script handed to _import_signer is the shipped ncs/sign_script.py: its suit_signer_factory() returns a Signer")
    return o


def _import_signer_setup(it, env):
    it.plugin_factory_result = _plugin_returns_signer


def _import_signer_checks(it, ctx):
    import z3
    specs = [t for t in it.trace if t[0] == "import-spec"]
    execs = [t for t in it.trace if t[0] == "import-exec"]
    facts = [t for t in it.trace if t[0] == "plugin-factory"]
    regs = [t for t in it.trace if t[0] == "sys.modules-store"]
    draws = [t for t in it.trace if t[0] == "nondet" and t[1] == "uuid4"]
    if ctx.outcome != "return":
        return [("no_signer_without_a_loaded_script", z3.BoolVal(len(facts) <= 1))]
    ok = len(specs) == 1 and len(execs) == 1 and len(facts) == 1 and len(regs) == 1
    goals = [("script_loaded_executed_and_its_factory_called_exactly_once", z3.BoolVal(ok))]
    if ok:
        goals.append(("loaded_from_the_given_script_path", it.stubs.path_term(it, specs[0][2]) == it.stubs.path_term(it, ctx.arg("sign_script"))))
        goals.append(("the_factory_is_suit_signer_factory_of_that_module", z3.BoolVal(facts[0][1] == "suit_signer_factory" and facts[0][2] is execs[0][2])))
        goals.append(("registered_under_a_fresh_module_name", z3.BoolVal(len(draws) == 1 and regs[0][2] is execs[0][2])))
        goals.append(("returns_what_the_factory_returned", z3.BoolVal(ctx.result is not None and getattr(ctx.result, "cls", None) is it.get_class("ncs/sign_script.py", "Signer"))))
    return goals


ci = Contract(FC, "_import_signer", ["C09", "C04"])
ci.param("sign_script", Str())
ci.variants = [("plug-in", {})]
ci.setup = _import_signer_setup
ci.check("loading", _import_signer_checks)
ci.result(Obj("ncs/sign_script.py", "Signer"))
ci.raises("ValueError")
ci.raises("FileNotFoundError")

CHILD_CFG = DictT(optional={"key-name": Str(), "key-id": Str(), "alg": OneOf(*ALG_STRS), "context": Str(), "omit-signing": Bool()})
NODE_CFG = DictT(optional={"key-name": Str(), "key-id": Str(), "alg": OneOf("es-256", "hash-eddsa"), "context": Str(), "omit-signing": Bool(), "sign-script": Str(), "kms-script": Str(),
                           "dependencies": DictT(required={"#dep": CHILD_CFG})})


def _rs_envelope(it, env):
    from pyvc.values import VTag, VDict, DEntry, VInt
    d = VDict()
    d.entries[2] = DEntry(2, it.fresh_bytes("wrapper"))
    d.entries[3] = DEntry(3, it.fresh_bytes("manifest"))
    d.entries["#dep"] = DEntry("#dep", env.lookup("CHILD"))
    return VTag(VInt(107), d)


# the configuration entry of the node: which keys are present is FIXED per variant (a covering set of presence patterns: every key
# occurs present and absent, with and without dependencies), every value is symbolic
KEY_TYPES = {"key-name": Str(), "key-id": Str(), "alg": OneOf("es-256", "hash-eddsa"), "context": Str(), "omit-signing": Bool(), "sign-script": Str(), "kms-script": Str(),
             "dependencies": DictT(required={"#dep": CHILD_CFG})}
PATTERNS = {
    "all-keys": list(KEY_TYPES), "only-omit-and-dependencies": ["omit-signing", "dependencies"], "key-only-inherits-everything": ["key-name", "key-id", "dependencies"],
    "own-alg": ["key-name", "key-id", "alg", "dependencies"], "own-context": ["key-name", "key-id", "context", "dependencies"],
    "own-sign-script": ["key-name", "key-id", "sign-script", "dependencies"], "own-kms-script": ["key-name", "key-id", "kms-script", "dependencies"],
    "leaf-with-key": ["key-name", "key-id"], "key-id-without-key-name": ["key-id"], "key-name-without-key-id": ["key-name"],
    "omitted-leaf-with-alg-and-context": ["omit-signing", "alg", "context"], "all-but-alg": [k for k in KEY_TYPES if k != "alg"],
}


def _cfg(pattern):
    return DictT(required={k: KEY_TYPES[k] for k in PATTERNS[pattern]})


c = Contract(FC, "RecursiveSigner.__init__", ["C09"])
c.ghost("CHILD", Enc(TagT(107, DictT(required={2: Bytes(), 3: Bytes()}))))
c.param("self", Obj(FC, "RecursiveSigner"))
c.param("envelope", Computed(_rs_envelope))
c.param("envelope_json", _cfg("all-keys"))
c.variants = [(n, {"envelope_json": _cfg(n)}) for n in PATTERNS]
c.param("envelope_name", Str())
c.param("sign_script", Str())
c.param("kms_script", Str())
c.param("algorithm", EnumT(FB, "SuitSignAlgorithms"))
c.param("context", Opt(Str()))
# (no `modifies`: at the recursive call site the child object stays opaque - the parent's constructor reads nothing of it; a reader of a
#  child attribute would be flagged, not silently served a made-up value)
c.raises("FileNotFoundError")  # the sign script named by the configuration / environment does not exist (from _import_signer)
c.raises("ValueError")
c.max_paths = 6000


def _present(it, d, key):
    """True / False when the path decided whether the optional key is present, else None."""
    import z3
    e = d.entries.get(key)
    if e is None:
        return False
    if e.present is True:
        return True
    if it.must(e.present):
        return True
    if it.must(z3.Not(e.present)):
        return False
    return None


def _inheritance(it, ctx):
    """Posts taken from the statement: a node uses its OWN entry when it has one, otherwise what it INHERITED from its parent (the
    constructor argument); its dependencies are constructed with the node's resulting script / KMS / algorithm / context (so they
    inherit the node's values, not the grandparent's or the tool's default), with their own configuration entry and name."""
    import z3
    if ctx.outcome != "return":
        return None
    slf, cfg = ctx.arg("self"), ctx.old("envelope_json")
    goals = []

    def own_or_inherited(attr, key, inherited, conv=lambda v: v):
        p = _present(it, cfg, key)
        if p is None:
            return goals.append((f"{attr}_own_entry_or_inherited", None))
        want = conv(cfg.entries[key].value) if p else inherited
        got = slf.attrs.get(attr)
        goals.append((f"{attr}_own_entry_or_inherited", _same(it, got, want)))
    own_or_inherited("context", "context", ctx.old("context"))
    own_or_inherited("sign_script", "sign-script", ctx.old("sign_script"))
    own_or_inherited("kms_script", "kms-script", ctx.old("kms_script"))
    own_or_inherited("alg", "alg", ctx.old("algorithm"), conv=lambda v: _alg_member(it, v))
    # key name / id come from the node's own entry only
    for attr, key in (("key_name", "key-name"),):
        p = _present(it, cfg, key)
        if p is not None:
            goals.append((f"{attr}_from_own_entry_only", _same(it, slf.attrs.get(attr), cfg.entries[key].value if p else NONE_V())))
    p_omit = _present(it, cfg, "omit-signing")
    if p_omit is not None:
        from pyvc.values import VBool
        goals.append(("omit_signing_from_own_entry", _same(it, slf.attrs.get("omit_signing"), cfg.entries["omit-signing"].value if p_omit else VBool(False))))
    # the children
    calls = [t for t in it.trace if t[0] == "call" and t[1] == "RecursiveSigner.__init__"]
    p_dep = _present(it, cfg, "dependencies")
    if p_dep is None:
        return goals + [("dependencies_constructed", None)]
    goals.append(("one_child_signer_per_named_dependency", z3.BoolVal(len(calls) == (1 if p_dep else 0) and len(slf.attrs["dependencies"].items) == (1 if p_dep else 0))))
    if p_dep and len(calls) == 1:
        a = calls[0][2]
        goals.append(("child_inherits_this_nodes_algorithm", _same(it, a["algorithm"], slf.attrs["alg"])))
        goals.append(("child_inherits_this_nodes_context", _same(it, a["context"], slf.attrs["context"])))
        goals.append(("child_inherits_this_nodes_scripts", z3.And(_same(it, a["sign_script"], slf.attrs["sign_script"]), _same(it, a["kms_script"], slf.attrs["kms_script"]))))
        # ... and nothing else: what a dependency inherits from the node above it is the sign script, the KMS script, the algorithm and the context; its key,
        # key id, omit-signing flag and already-signed action come from its OWN entry (default action: error) - a constructor that is handed more than
        # the seven values below lets a setting of the parent leak into the child
        known = {"self", "envelope", "envelope_json", "envelope_name", "sign_script", "kms_script", "algorithm", "context"}
        extra = {k for k in a if not k.startswith("__") and k != "result"} - known
        goals.append(("child_is_handed_only_what_it_may_inherit", z3.BoolVal(not extra)))
        goals.append(("child_gets_its_own_entry_and_name", z3.And(z3.BoolVal(a["envelope_json"] is cfg.entries["dependencies"].value.entries["#dep"].value or _is_snapshot_of(a["envelope_json"], cfg.entries["dependencies"].value.entries["#dep"].value)),
                                                                  _same(it, a["envelope_name"], __import__("pyvc.values", fromlist=["VStr"]).VStr("#dep")))))
    return goals


def NONE_V():
    from pyvc.values import NONE
    return NONE


def _is_snapshot_of(a, b):
    from pyvc.values import VDict
    return isinstance(a, VDict) and isinstance(b, VDict) and list(a.entries) == list(b.entries)


def _alg_member(it, v):
    from pyvc.values import VClass
    ci_ = it.get_class(FB, "SuitSignAlgorithms")
    for m in it.iterate(VClass(info=ci_)):
        if m.value.conc == v.conc:
            return m
    return None


def _same(it, a, b):
    import z3
    from pyvc.values import VEnum, VNone, VStr, VInt, VBool
    if a is None or b is None:
        return z3.BoolVal(False)
    if isinstance(a, VEnum) or isinstance(b, VEnum):
        return z3.BoolVal(isinstance(a, VEnum) and isinstance(b, VEnum) and a.cls is b.cls and a.name == b.name)
    if isinstance(a, VNone) or isinstance(b, VNone):
        return z3.BoolVal(isinstance(a, VNone) and isinstance(b, VNone))
    if type(a) is not type(b):
        return z3.BoolVal(False)
    return a.e == b.e


c.check("inheritance", _inheritance)

# ------------------------------------------------------------------------------------------------
# RecursiveSigner.recursive_sign: re-embedding and what is signed with what (one level; the recursion is the function's own contract).
# At this call site Signer.sign_envelope is summarised by the part of ITS verified contract (C04) that matters here: the result is the
# input envelope with only member 2 replaced (or SignerError / ValueError); the call and its arguments are recorded in the trace.
def _sign_envelope_at_call_site(it, c_, fi, args, kwargs):
    from pyvc.interp import Env
    from pyvc.values import VTag, VDict, DEntry, VInt
    from pyvc import clauses
    env = Env(None, None)
    it.bind_args(fi, args, kwargs, env)
    inp = env.lookup("input_envelope")
    it.assumptions_used.add("Signer.sign_envelope at the call site in RecursiveSigner: its C04 contract (result = input with only member 2 replaced; SignerError / ValueError otherwise)")
    k = it.choose(3, "sign_envelope_outcome")
    if k == 1:
        it.raise_(clauses.resolve_exception(it, "SignerError"), "already signed (action error)")
    if k == 2:
        it.raise_(ValueError, "key refused")
    d = VDict()
    for key, e in inp.value.entries.items():
        d.entries[key] = DEntry(key, e.value, e.present)
    d.entries[2] = DEntry(2, it.fresh_bytes("signed_wrapper"))
    res = VTag(VInt(107), d)
    it.trace.append(("call", "Signer.sign_envelope", dict(env.vars), res))
    return res


def _rs_self(n_deps, omit):
    def build(it, env):
        from pyvc.values import VObj, VTag, VDict, DEntry, VInt, VList, VStr, VBool
        from pyvc.types import make_value
        ci_ = it.get_class(FC, "RecursiveSigner")
        o = VObj(ci_)
        d = VDict()
        d.entries[2] = DEntry(2, it.fresh_bytes("wrapper"))
        d.entries[3] = DEntry(3, it.fresh_bytes("manifest"))
        d.entries["#unnamed"] = DEntry("#unnamed", it.fresh_bytes("unnamed_member"))
        deps = []
        for i in range(n_deps):
            name = f"#dep{i}"
            d.entries[name] = DEntry(name, it.fresh_bytes(f"old_dep{i}"))
            ch = VObj(ci_)
            ch.attrs["envelope_name"] = VStr(name)
            deps.append(ch)
        o.attrs.update({"envelope": VTag(VInt(107), d), "dependencies": VList(deps), "omit_signing": VBool(omit), "key_name": it.fresh_str("key_name"),
                        "key_id": it.fresh_int("key_id", 0, 2 ** 32 - 1), "alg": make_value(it, EnumT(FB, "SuitSignAlgorithms"), "alg"), "context": it.fresh_str("context"),
                        "kms_script": it.fresh_str("kms"), "already_signed_action": make_value(it, EnumT(FB, "SignatureAlreadyPresentActions"), "action"),
                        "signer": VObj(it.get_class("ncs/sign_script.py", "Signer"))})
        return o
    return Computed(build)


c = Contract(FC, "RecursiveSigner.recursive_sign", ["C09"])
c.param("self", _rs_self(1, False))
c.variants = [(f"{n}-dependencies/{'omit-signing' if om else 'signs'}", {"self": _rs_self(n, om)}) for n in (0, 1, 2) for om in (False, True)]
c.result(TagT(107, DictT(required={2: Bytes(), 3: Bytes()})))
c.raises("SignerError")
c.raises("ValueError")


def _recursive_sign_checks(it, ctx):
    import z3
    from pyvc import cbor
    if ctx.outcome != "return":
        return None
    slf, res = ctx.arg("self"), ctx.result
    old = ctx.old("self").attrs["envelope"].value
    goals = []
    child_calls = [t for t in it.trace if t[0] == "call" and t[1] == "RecursiveSigner.recursive_sign"]
    sign_calls = [t for t in it.trace if t[0] == "call" and t[1] == "Signer.sign_envelope"]
    deps = slf.attrs["dependencies"].items
    goals.append(("every_named_dependency_signed_recursively_once", z3.BoolVal(len(child_calls) == len(deps) and all(c_[2]["self"] is d for c_, d in zip(child_calls, deps)))))
    rv = res.value.entries if hasattr(res, "value") else {}
    for i, dep in enumerate(deps):
        name = dep.attrs["envelope_name"].conc
        if name not in rv or i >= len(child_calls):
            goals.append((f"dependency_re_embedded_under_the_same_name", z3.BoolVal(False)))
            continue
        goals.append((f"dependency_re_embedded_under_the_same_name", rv[name].value.e == cbor.enc(it, child_calls[i][3]).e))
    goals.append(("manifest_byte_identical", z3.BoolVal(3 in rv) if 3 not in rv else rv[3].value.e == old.entries[3].value.e))
    goals.append(("unnamed_members_byte_identical", z3.BoolVal("#unnamed" in rv) if "#unnamed" not in rv else rv["#unnamed"].value.e == old.entries["#unnamed"].value.e))
    goals.append(("no_member_added_or_dropped", z3.BoolVal(list(rv) == list(old.entries))))
    omit = slf.attrs["omit_signing"].conc
    if omit:
        goals.append(("omit_signing_envelope_is_not_signed", z3.And(z3.BoolVal(len(sign_calls) == 0), rv[2].value.e == old.entries[2].value.e if 2 in rv else z3.BoolVal(False))))
    else:
        goals.append(("signed_exactly_once", z3.BoolVal(len(sign_calls) == 1)))
        if len(sign_calls) == 1:
            a = sign_calls[0][2]
            goals.append(("signed_with_this_nodes_own_key_algorithm_and_action", z3.And(
                a["key_name"].e == slf.attrs["key_name"].e, a["key_id"].e == slf.attrs["key_id"].e, z3.BoolVal(a["algorithm"] is slf.attrs["alg"] or getattr(a["algorithm"], "name", 0) == getattr(slf.attrs["alg"], "name", 1)),
                a["context"].e == slf.attrs["context"].e, a["kms_script"].e == slf.attrs["kms_script"].e,
                z3.BoolVal(getattr(a["already_signed_action"], "name", 0) == getattr(slf.attrs["already_signed_action"], "name", 1)))))
            # what is signed already contains the re-embedded dependencies (children first)
            inp = a["input_envelope"].value.entries
            for i, dep in enumerate(deps):
                name = dep.attrs["envelope_name"].conc
                if i < len(child_calls) and name in inp:
                    goals.append(("dependencies_re_embedded_before_this_node_is_signed", inp[name].value.e == cbor.enc(it, child_calls[i][3]).e))
    return goals


c.check("recursive", _recursive_sign_checks)
c.setup = lambda it, env: setattr(it, "sign_envelope_call_site", _sign_envelope_at_call_site)

# ------------------------------------------------------------------------------------------------
# The command entry point cmd_sign.main (single-level): the envelope that is signed is the one decoded from the INPUT FILE, every
# named argument lands in ITS parameter of sign_envelope (passed by position in single_level_sign), the output file holds exactly the
# encoding of what sign_envelope returned, and when signing refuses (error action, key mismatch) NOTHING is written.
# _import_signer is the assumed plug-in loading; Signer.sign_envelope is summarised by its C04 contract at the call site.
def _main_input(it, env):
    from pyvc.values import VTag, VDict, DEntry, VInt
    from pyvc import cbor
    d = VDict()
    d.entries[2] = DEntry(2, env.lookup("W"))
    d.entries[3] = DEntry(3, env.lookup("M"))
    # two integrated members in an order that is NOT the canonical CBOR key order: the output must keep the input's order
    d.entries["#payload"] = DEntry("#payload", env.lookup("PAY"))
    d.entries["#a"] = DEntry("#a", env.lookup("PAY2"))
    env.set("INPUT", cbor.enc(it, VTag(VInt(107), d)))
    it.sign_envelope_call_site = _sign_envelope_at_call_site
    it.call_site_summaries = {"RecursiveSigner.__init__": _rs_init_at_call_site, "RecursiveSigner.recursive_sign": _rs_sign_at_call_site}


def _rs_init_at_call_site(it, c_, fi, args, kwargs):
    """RecursiveSigner(envelope, configuration, name) at the call site in cmd_sign.recursive_sign: constructs or raises ValueError (its own
    contract above says what it constructs); the arguments are recorded."""
    from pyvc.interp import Env
    from pyvc.values import NONE
    env = Env(None, None)
    it.bind_args(fi, args, kwargs, env)
    it.assumptions_used.add("RecursiveSigner.__init__ / recursive_sign at the call site in cmd_sign.recursive_sign: their own contracts (construct or ValueError; "
                            "a tagged envelope or SignerError / ValueError)")
    k_ = it.choose(3, "recursive_signer_init_outcome")
    if k_ == 1:
        it.raise_(ValueError, "configuration refused")
    if k_ == 2:
        it.raise_(FileNotFoundError, "sign script not found")
    it.trace.append(("call", "RecursiveSigner.__init__", dict(env.vars), NONE))
    return NONE


def _rs_sign_at_call_site(it, c_, fi, args, kwargs):
    from pyvc.interp import Env
    from pyvc.values import VTag, VDict, DEntry, VInt
    from pyvc import clauses
    env = Env(None, None)
    it.bind_args(fi, args, kwargs, env)
    k = it.choose(3, "recursive_sign_outcome")
    if k == 1:
        it.raise_(clauses.resolve_exception(it, "SignerError"), "already signed (action error)")
    if k == 2:
        it.raise_(ValueError, "key refused / dependency missing")
    d = VDict()
    d.entries[2] = DEntry(2, it.fresh_bytes("signed_wrapper"))
    d.entries[3] = DEntry(3, it.fresh_bytes("manifest_out"))
    res = VTag(VInt(107), d)
    it.trace.append(("call", "RecursiveSigner.recursive_sign", dict(env.vars), res))
    return res


c = Contract(FC, "main", ["C09", "C04"])
for g_ in ("W", "M", "PAY", "PAY2"):
    c.ghost(g_, Bytes())
c.param("sign_subcommand", Const("single-level"))
c.param("input_envelope", PathStr(exists=True))
c.param("output_envelope", PathStr())
c.param("sign_script", Str())
c.param("key_name", Str())
c.param("key_id", Int(0, 2 ** 32 - 1))
c.param("alg", EnumT(FB, "SuitSignAlgorithms"))
c.param("context", Str())
c.param("kms_script", Str())
c.param("already_signed_action", EnumT(FB, "SignatureAlreadyPresentActions"))
c.param("configuration", PathStr(exists=True))
c.variants = [("single-level", {}), ("recursive", {"sign_subcommand": Const("recursive")})]
c.call_by_keyword = True
c.setup = _main_input
c.requires("input_file_holds_the_envelope", "FILE(input_envelope) == INPUT")
# (no distinctness precondition: signing IN PLACE - the same path for input and output - is ordinary use; the input is read before anything is written)


def _main_checks(it, ctx):
    from pyvc import cbor
    calls = [t for t in it.trace if t[0] == "call" and t[1] == "Signer.sign_envelope"]
    if ctx.outcome != "return":
        # a refusal (SignerError for the error action, ValueError for a refused key, ...) writes no output - nor any other file
        return [("a_refusal_writes_no_output", z3.BoolVal(len(it.fs.log) == 0))]
    if ctx.arg("sign_subcommand").conc == "recursive":
        inits = [t for t in it.trace if t[0] == "call" and t[1] == "RecursiveSigner.__init__"]
        runs = [t for t in it.trace if t[0] == "call" and t[1] == "RecursiveSigner.recursive_sign"]
        jl = [t for t in it.trace if t[0] == "json.load"]
        goals = [("one_recursive_signer_built_and_run_once", z3.BoolVal(len(inits) == 1 and len(runs) == 1 and len(jl) == 1))]
        if len(inits) == 1 and len(runs) == 1 and len(jl) == 1:
            a = inits[0][2]
            goals.append(("signs_the_envelope_of_the_input_file", cbor.enc(it, a["envelope"]).e == ctx.arg("INPUT").e if hasattr(a["envelope"], "value") else z3.BoolVal(False)))
            goals.append(("configuration_is_read_from_the_named_file", z3.And((jl[0][1] if z3.is_expr(jl[0][1]) else it.stubs.path_term(it, jl[0][1])) == it.stubs.path_term(it, ctx.arg("configuration")), z3.BoolVal(a["envelope_json"] is jl[0][3]))))
            goals.append(("the_signer_that_was_configured_is_the_one_run", z3.BoolVal(runs[0][2]["self"] is a["self"])))
            goals.append(("output_file_holds_the_signed_envelope", ctx.eval("FILE(output_envelope)").e == cbor.enc(it, runs[0][3]).e))
            goals.append(("input_file_untouched_unless_signed_in_place", z3.Implies(it.stubs.path_term(it, ctx.arg("input_envelope")) != it.stubs.path_term(it, ctx.arg("output_envelope")),
                                                                                     ctx.eval("FILE(input_envelope)").e == ctx.arg("INPUT").e)))
        return goals
    goals = [("signed_exactly_once", z3.BoolVal(len(calls) == 1))]
    if len(calls) != 1:
        return goals
    a = calls[0][2]
    inp = a["input_envelope"]
    goals.append(("signs_the_envelope_of_the_input_file", cbor.enc(it, inp).e == ctx.arg("INPUT").e if hasattr(inp, "value") else z3.BoolVal(False)))
    same = lambda x, y: z3.BoolVal(x is y) if not hasattr(x, "e") or not hasattr(y, "e") else x.e == y.e  # noqa: E731
    for formal, actual in (("key_name", "key_name"), ("key_id", "key_id"), ("algorithm", "alg"), ("context", "context"), ("kms_script", "kms_script"),
                           ("already_signed_action", "already_signed_action")):
        goals.append((f"{actual}_reaches_its_parameter", same(a[formal], ctx.arg(actual))))
    goals.append(("output_file_holds_the_signed_envelope", ctx.eval("FILE(output_envelope)").e == cbor.enc(it, calls[0][3]).e))
    goals.append(("input_file_untouched_unless_signed_in_place", z3.Implies(it.stubs.path_term(it, ctx.arg("input_envelope")) != it.stubs.path_term(it, ctx.arg("output_envelope")),
                                                                                     ctx.eval("FILE(input_envelope)").e == ctx.arg("INPUT").e)))
    return goals


c.check("entry", _main_checks)
c.raises("SignerError")
c.raises("ValueError")
c.raises("FileNotFoundError")
c.raises("json.JSONDecodeError")
c.raises("TypeError")  # json.JSONDecodeError re-raised with one argument by cmd_sign.recursive_sign (invalid configuration file; not a property clause)

# ================================================================================================
# B — bounded stand-in
# ================================================================================================
def bounded(ctx):
    from bounded.harness import Bounded
    from bounded import signing as S
    from pyvc import front
    quick = ctx["tier"] == "quick"
    B = Bounded(ctx, rule="cmd_sign.main: three already-signed actions x {unsigned, signed} x algorithms x matching/mismatching keys; recursive "
                          "signing of dependency trees with per-node keys, omit-signing, inherited defaults, missing / invalid dependencies; every "
                          "signature verified independently with the node's own public key; distinct by configuration",
                bound="trees up to depth 3 (root -> 2 children -> 1 grandchild); 5 algorithms; actions error/skip/remove-old", budget_s=90 if quick else 1200)
    d = B.fresh_dir("keys")
    keys = S.make_keys(d)
    repo = front.REPO
    # ---- (1) actions x signed/unsigned x algorithms -----------------------------------------------------
    for alg in S.ALGS:
        kind = S.ALGS[alg][1]
        env = S.make_envelope("act" + alg, payloads=[("#p", b"\x05")], extra=True)
        msg, signed = S.check_single(repo, d, keys, env, alg, 11)
        B.case(("sign", alg))
        if msg or signed is None:
            B.fail("unsigned-input-gets-signed", {"alg": alg}, msg)
            continue
        for action in ("error", "skip", "remove-old"):
            for inp, was_signed in ((env, False), (signed, True)):
                case = {"alg": alg, "action": action, "signed_input": was_signed}
                B.case(("action", alg, action, was_signed), sample=case)
                out_path = f"{d}/out.suit"
                try:
                    out = S.single_level(repo, d, inp, kind, 12, alg, action)
                    err = None
                except Exception as e:  # noqa: BLE001
                    out, err = None, e
                if was_signed and action == "error":
                    if err is None:
                        B.fail("error-action-refuses", case, "signed input accepted with action=error")
                    elif __import__("os").path.exists(out_path):
                        B.fail("error-action-writes-no-output", case, "output file written although the action refused")
                    continue
                if err is not None:
                    B.fail("action-semantics", case, f"raised {type(err).__name__}: {err}")
                    continue
                if was_signed and action == "skip":
                    if out != inp:
                        B.fail("skip-returns-envelope-unchanged", case, "output differs from input")
                    continue
                dg, bl = S.blocks(S.parse(out))
                if len(bl) != 1:
                    B.fail("exactly-one-new-signature", case, f"{len(bl)} authentication blocks in the output")
                    continue
                m = S.verify_block(bl[0], dg, keys[kind], alg, 12) or S.same_except_wrapper(S.parse(inp), S.parse(out))
                if m:
                    B.fail("only-signature-is-the-new-valid-one", case, m)
        # mismatching key types are refused
        for wrong in ("p256", "p384", "p521", "ed25519", "ed448"):
            ok_kinds = {"es-256": ["p256"], "es-384": ["p384"], "es-521": ["p521"], "eddsa": ["ed25519", "ed448"], "hash-eddsa": ["ed25519", "ed448"]}[alg]
            if wrong in ok_kinds:
                continue
            case = {"alg": alg, "key": wrong}
            B.case(("mismatch", alg, wrong))
            try:
                S.single_level(repo, d, env, wrong, 1, alg)
                B.fail("mismatching-key-refused", case, "key type not matching the algorithm was accepted")
            except Exception:  # noqa: BLE001
                if __import__("os").path.exists(f"{d}/out.suit"):
                    B.fail("mismatching-key-refused", case, "output written although the key was refused")
    # ---- (2) recursive trees --------------------------------------------------------------------------------
    def node_cfg(key, kid, alg=None, **kw):
        c = {"key-name": key, "key-id": hex(kid)}
        if alg:
            c["alg"] = alg
        c.update(kw)
        return c
    base = {"sign-script": f"{repo}/ncs/sign_script.py", "kms-script": f"{repo}/ncs/basic_kms.py", "context": d}
    grand = S.make_envelope("grand", payloads=[("#gp", b"\x09")])
    for variant in range(10 if quick else 40):
        if B.out_of_time():
            break
        omit_mid = variant % 2 == 1
        omit_root = variant % 5 == 4
        pre_sign_b = variant % 3 == 2  # child B already signed: exercise skip / remove-old inside a tree
        childA = S.make_envelope("childA", deps=[("#grand", grand)], payloads=[("#ap", b"\x07")], seed=variant)
        childB = S.make_envelope("childB", seed=variant + 100)
        if pre_sign_b:
            _, childB = S.check_single(repo, d, keys, childB, "eddsa", 99)
        root = S.make_envelope("root", deps=[("#A", childA), ("#B", childB)], payloads=[("#unnamed", b"\x01\x02\x03")], seed=variant)
        # inherited defaults: a node WITHOUT an "alg" entry signs with the algorithm of the nearest ancestor that has one (not with
        # the tool's default): the root's algorithm differs from the default in some variants, and #grand inherits es-256 from #A in others
        root_alg = "hash-eddsa" if variant % 4 == 3 else "eddsa"
        grand_inherits = (not omit_mid) and variant % 4 in (0, 2)
        cfg = dict(base)
        cfg.update(node_cfg("ed25519", 0x100, root_alg))
        if omit_root:
            cfg = dict(base, **{"omit-signing": True, "alg": root_alg})
        a_cfg = node_cfg("p256", 0x200, "es-256") if not omit_mid else {"omit-signing": True}
        a_cfg["dependencies"] = {"#grand": node_cfg("p256_b", 0x300) if grand_inherits else node_cfg("p384", 0x300, "es-384")}
        b_cfg = node_cfg("ed25519_b", 0x400)  # inherits its algorithm from the root
        if pre_sign_b:
            b_cfg["already-signed-action"] = "skip" if variant % 2 == 0 else "remove-old"
        cfg["dependencies"] = {"#A": a_cfg, "#B": b_cfg}
        case = {"variant": variant, "omit_mid": omit_mid, "omit_root": omit_root, "pre_signed_B": pre_sign_b, "root_alg": root_alg, "grand_inherits_from_A": grand_inherits}
        B.case(("tree", variant), sample=case if variant < 2 else None)
        try:
            out = S.recursive(repo, d, root, cfg)
        except Exception as e:  # noqa: BLE001
            B.fail("recursive-signing-succeeds", case, f"raised {type(e).__name__}: {e}")
            continue
        def expect(env_before, env_after, key, alg, kid, omitted, label, pre_signed=None):
            mb, ma = S.parse(env_before), S.parse(env_after)
            if mb.get(3) != ma.get(3):
                return f"{label}: manifest not byte-identical"
            dg, bl = S.blocks(ma)
            if omitted:
                if bl:
                    return f"{label}: omit-signing envelope carries {len(bl)} signature(s)"
                return None
            if pre_signed == "skip":
                return None if ma.get(2) == mb.get(2) else f"{label}: skip changed the authentication wrapper"
            if len(bl) != 1:
                return f"{label}: expected exactly one signature, found {len(bl)}"
            return S.verify_block(bl[0], dg, keys[key], alg, kid) and f"{label}: " + S.verify_block(bl[0], dg, keys[key], alg, kid)
        ro = S.parse(out)
        problems = [expect(root, out, "ed25519", root_alg, 0x100, omit_root, "root")]
        if ro.get("#unnamed") != b"\x01\x02\x03":
            problems.append("unnamed member of the root changed")
        a_out, b_out = ro.get("#A"), ro.get("#B")
        if not isinstance(a_out, bytes) or not isinstance(b_out, bytes):
            problems.append("dependency not re-embedded under the same name")
        else:
            problems.append(expect(childA, a_out, "p256", "es-256", 0x200, omit_mid, "#A"))
            problems.append(expect(childB, b_out, "ed25519_b", root_alg, 0x400, False, "#B", pre_signed=(b_cfg.get("already-signed-action") if pre_sign_b else None)))
            g_out = S.parse(a_out).get("#grand")
            if not isinstance(g_out, bytes):
                problems.append("grandchild not re-embedded")
            else:
                problems.append(expect(grand, g_out, "p256_b", "es-256", 0x300, False, "#A/#grand") if grand_inherits else expect(grand, g_out, "p384", "es-384", 0x300, False, "#A/#grand"))
            if S.parse(a_out).get("#ap") != b"\x07":
                problems.append("unnamed member of #A changed")
        for p in problems:
            if p:
                B.fail("recursive-tree-signed-per-configuration", case, p)
                break
    # ---- (3) named dependency absent / not an envelope: fails without output -------------------------------------
    for label, deps in (("absent", []), ("not-an-envelope", [("#A", cborx_bytes([1, 2]))]), ("not-bytes-like-envelope", [("#A", b"\x01")])):
        root = S.make_envelope("root2", deps=deps)
        cfg = dict(base, **node_cfg("ed25519", 1, "eddsa"))
        cfg["dependencies"] = {"#A": node_cfg("p256", 2, "es-256")}
        case = {"missing_dependency": label}
        B.case(("missing", label))
        try:
            S.recursive(repo, d, root, cfg)
            B.fail("absent-or-invalid-dependency-fails", case, "accepted")
        except Exception:  # noqa: BLE001
            if __import__("os").path.exists(f"{d}/rout.suit"):
                B.fail("absent-or-invalid-dependency-fails-without-output", case, "output file written")
    return B.done()


def cborx_bytes(v):
    from bounded import cborx
    return cborx.encode(v)


ASSUMPTIONS = C04.ASSUMPTIONS
