"""C09 — Signing policy: already-signed action, key match, recursive configuration.

Contracts carrying the first sentence live in C04_sign.py (tagged C09): Signer.already_signed_action, Signer.sign_envelope
(error / skip / remove-old on unsigned and singly-signed input), SuitKMS._verify_signing_key_type and SuitKMS.sign (a key whose
type does not match the algorithm is refused before any signature is made).  Here: RecursiveSigner and the bounded stand-in.
"""
import z3
from pyvc.contract import Contract
from pyvc.types import Int, Bool, Bytes, Str, Obj, PathStr, OneOf, ListT, NoneT, Const, DictT, EnumT, Lib, Opt, TupleT, Enc, TagT, Computed
import contracts.C04_sign as C04

PROPERTY = "C09"
LEVEL = "other"
EXPLANATION = ("P: the three already-signed actions on unsigned/singly-signed input, the key-type/algorithm table (5 key kinds x 5 algorithms), "
               "refusal before signing, RecursiveSigner._load_dependency. B: recursive configuration trees up to depth 3 with real keys "
               "(RecursiveSigner.__init__/recursive_sign are recursive over a JSON tree; covered by the bounded stand-in only).")
FC = "suit_generator/cmd_sign.py"

# ------------------------------------------------------------------------------------------------
c = Contract(FC, "RecursiveSigner._load_dependency", ["C09"])
c.ghost("CHILD", Enc(TagT(107, DictT(required={2: Bytes(), 3: Bytes()}))))
c.ghost("NOTAG", Enc(ListT([Int(0, 1000)])))
c.param("self", Obj(FC, "RecursiveSigner", envelope_name=Str()))
c.param("dependency_name", OneOf("#dep"))
c.variants = [("present-envelope", {}), ("absent", {}), ("not-bytes", {}), ("not-a-tag", {})]


def _setup_load(it, env):
    from pyvc.values import VTag, VDict, DEntry, VInt
    d = VDict()
    d.entries[3] = DEntry(3, it.fresh_bytes("manifest"))
    v = it.variant_label
    if v == "present-envelope":
        d.entries["#dep"] = DEntry("#dep", env.lookup("CHILD"))
    elif v == "not-bytes":
        d.entries["#dep"] = DEntry("#dep", VInt(5))
    elif v == "not-a-tag":
        d.entries["#dep"] = DEntry("#dep", env.lookup("NOTAG"))
    env.lookup("self").attrs["envelope"] = VTag(VInt(107), d)
    from pyvc.values import VStr
    env.set("variant", VStr(v))


c.setup = _setup_load
c.returns("returns_the_decoded_dependency", "variant == 'present-envelope' and ENC(result) == CHILD")
c.raises("ValueError", when="variant != 'present-envelope'", label="absent_or_not_an_envelope")


# ================================================================================================
# B — bounded stand-in
# ================================================================================================
def bounded(ctx):
    from bounded.harness import Bounded
    from bounded import signing as S
    from pyvc import front
    quick = ctx["tier"] == "quick"
    B = Bounded(ctx, rule="cmd_sign.main: three already-signed actions x {unsigned, signed} x algorithms x matching/mismatching keys; recursive "
                          "signing of dependency trees with per-node keys, omit-signing, inherited defaults, missing / invalid dependencies; every "
                          "signature verified independently with the node's own public key; distinct by configuration",
                bound="trees up to depth 3 (root -> 2 children -> 1 grandchild); 5 algorithms; actions error/skip/remove-old", budget_s=90 if quick else 1200)
    d = B.fresh_dir("keys")
    keys = S.make_keys(d)
    repo = front.REPO
    # ---- (1) actions x signed/unsigned x algorithms -----------------------------------------------------
    for alg in S.ALGS:
        kind = S.ALGS[alg][1]
        env = S.make_envelope("act" + alg, payloads=[("#p", b"\x05")], extra=True)
        msg, signed = S.check_single(repo, d, keys, env, alg, 11)
        B.case(("sign", alg))
        if msg or signed is None:
            B.fail("unsigned-input-gets-signed", {"alg": alg}, msg)
            continue
        for action in ("error", "skip", "remove-old"):
            for inp, was_signed in ((env, False), (signed, True)):
                case = {"alg": alg, "action": action, "signed_input": was_signed}
                B.case(("action", alg, action, was_signed), sample=case)
                out_path = f"{d}/out.suit"
                try:
                    out = S.single_level(repo, d, inp, kind, 12, alg, action)
                    err = None
                except Exception as e:  # noqa: BLE001
                    out, err = None, e
                if was_signed and action == "error":
                    if err is None:
                        B.fail("error-action-refuses", case, "signed input accepted with action=error")
                    elif __import__("os").path.exists(out_path):
                        B.fail("error-action-writes-no-output", case, "output file written although the action refused")
                    continue
                if err is not None:
                    B.fail("action-semantics", case, f"raised {type(err).__name__}: {err}")
                    continue
                if was_signed and action == "skip":
                    if out != inp:
                        B.fail("skip-returns-envelope-unchanged", case, "output differs from input")
                    continue
                dg, bl = S.blocks(S.parse(out))
                if len(bl) != 1:
                    B.fail("exactly-one-new-signature", case, f"{len(bl)} authentication blocks in the output")
                    continue
                m = S.verify_block(bl[0], dg, keys[kind], alg, 12) or S.same_except_wrapper(S.parse(inp), S.parse(out))
                if m:
                    B.fail("only-signature-is-the-new-valid-one", case, m)
        # mismatching key types are refused
        for wrong in ("p256", "p384", "p521", "ed25519", "ed448"):
            ok_kinds = {"es-256": ["p256"], "es-384": ["p384"], "es-521": ["p521"], "eddsa": ["ed25519", "ed448"], "hash-eddsa": ["ed25519", "ed448"]}[alg]
            if wrong in ok_kinds:
                continue
            case = {"alg": alg, "key": wrong}
            B.case(("mismatch", alg, wrong))
            try:
                S.single_level(repo, d, env, wrong, 1, alg)
                B.fail("mismatching-key-refused", case, "key type not matching the algorithm was accepted")
            except Exception:  # noqa: BLE001
                if __import__("os").path.exists(f"{d}/out.suit"):
                    B.fail("mismatching-key-refused", case, "output written although the key was refused")
    # ---- (2) recursive trees --------------------------------------------------------------------------------
    def node_cfg(key, kid, alg=None, **kw):
        c = {"key-name": key, "key-id": hex(kid)}
        if alg:
            c["alg"] = alg
        c.update(kw)
        return c
    base = {"sign-script": f"{repo}/ncs/sign_script.py", "kms-script": f"{repo}/ncs/basic_kms.py", "context": d}
    grand = S.make_envelope("grand", payloads=[("#gp", b"\x09")])
    for variant in range(10 if quick else 40):
        if B.out_of_time():
            break
        omit_mid = variant % 2 == 1
        omit_root = variant % 5 == 4
        pre_sign_b = variant % 3 == 2  # child B already signed: exercise skip / remove-old inside a tree
        childA = S.make_envelope("childA", deps=[("#grand", grand)], payloads=[("#ap", b"\x07")], seed=variant)
        childB = S.make_envelope("childB", seed=variant + 100)
        if pre_sign_b:
            _, childB = S.check_single(repo, d, keys, childB, "eddsa", 99)
        root = S.make_envelope("root", deps=[("#A", childA), ("#B", childB)], payloads=[("#unnamed", b"\x01\x02\x03")], seed=variant)
        cfg = dict(base)
        cfg.update(node_cfg("ed25519", 0x100, "eddsa"))
        if omit_root:
            cfg = dict(base, **{"omit-signing": True, "alg": "eddsa"})
        a_cfg = node_cfg("p256", 0x200, "es-256") if not omit_mid else {"omit-signing": True}
        a_cfg["dependencies"] = {"#grand": node_cfg("p384", 0x300, "es-384")}
        b_cfg = node_cfg("ed25519_b", 0x400)  # inherits alg eddsa from the root
        if pre_sign_b:
            b_cfg["already-signed-action"] = "skip" if variant % 2 == 0 else "remove-old"
        cfg["dependencies"] = {"#A": a_cfg, "#B": b_cfg}
        case = {"variant": variant, "omit_mid": omit_mid, "omit_root": omit_root, "pre_signed_B": pre_sign_b}
        B.case(("tree", variant), sample=case if variant < 2 else None)
        try:
            out = S.recursive(repo, d, root, cfg)
        except Exception as e:  # noqa: BLE001
            B.fail("recursive-signing-succeeds", case, f"raised {type(e).__name__}: {e}")
            continue
        def expect(env_before, env_after, key, alg, kid, omitted, label, pre_signed=None):
            mb, ma = S.parse(env_before), S.parse(env_after)
            if mb.get(3) != ma.get(3):
                return f"{label}: manifest not byte-identical"
            dg, bl = S.blocks(ma)
            if omitted:
                if bl:
                    return f"{label}: omit-signing envelope carries {len(bl)} signature(s)"
                return None
            if pre_signed == "skip":
                return None if ma.get(2) == mb.get(2) else f"{label}: skip changed the authentication wrapper"
            if len(bl) != 1:
                return f"{label}: expected exactly one signature, found {len(bl)}"
            return S.verify_block(bl[0], dg, keys[key], alg, kid) and f"{label}: " + S.verify_block(bl[0], dg, keys[key], alg, kid)
        ro = S.parse(out)
        problems = [expect(root, out, "ed25519", "eddsa", 0x100, omit_root, "root")]
        if ro.get("#unnamed") != b"\x01\x02\x03":
            problems.append("unnamed member of the root changed")
        a_out, b_out = ro.get("#A"), ro.get("#B")
        if not isinstance(a_out, bytes) or not isinstance(b_out, bytes):
            problems.append("dependency not re-embedded under the same name")
        else:
            problems.append(expect(childA, a_out, "p256", "es-256", 0x200, omit_mid, "#A"))
            problems.append(expect(childB, b_out, "ed25519_b", "eddsa", 0x400, False, "#B", pre_signed=(b_cfg.get("already-signed-action") if pre_sign_b else None)))
            g_out = S.parse(a_out).get("#grand")
            if not isinstance(g_out, bytes):
                problems.append("grandchild not re-embedded")
            else:
                problems.append(expect(grand, g_out, "p384", "es-384", 0x300, False, "#A/#grand"))
            if S.parse(a_out).get("#ap") != b"\x07":
                problems.append("unnamed member of #A changed")
        for p in problems:
            if p:
                B.fail("recursive-tree-signed-per-configuration", case, p)
                break
    # ---- (3) named dependency absent / not an envelope: fails without output -------------------------------------
    for label, deps in (("absent", []), ("not-an-envelope", [("#A", cborx_bytes([1, 2]))]), ("not-bytes-like-envelope", [("#A", b"\x01")])):
        root = S.make_envelope("root2", deps=deps)
        cfg = dict(base, **node_cfg("ed25519", 1, "eddsa"))
        cfg["dependencies"] = {"#A": node_cfg("p256", 2, "es-256")}
        case = {"missing_dependency": label}
        B.case(("missing", label))
        try:
            S.recursive(repo, d, root, cfg)
            B.fail("absent-or-invalid-dependency-fails", case, "accepted")
        except Exception:  # noqa: BLE001
            if __import__("os").path.exists(f"{d}/rout.suit"):
                B.fail("absent-or-invalid-dependency-fails-without-output", case, "output file written")
    return B.done()


def cborx_bytes(v):
    from bounded import cborx
    return cborx.encode(v)


ASSUMPTIONS = C04.ASSUMPTIONS
