"""Native binding of contracts/refspec.py: the free names of the reference translation are bound to INDEPENDENT
implementations (own CBOR encoder, hashlib, sha1-based UUIDv5) and to the pinned registry."""
from contracts import registry as R, specs_native as N, refspec

ID = {space: {R.name_of(c): R.id_of(c) for c in classes} for space, classes in R.SPACES.items()}
HASH_ALG = {R.name_of(c): (R.HASHES[R.id_of(c)][0], R.HASHES[R.id_of(c)][1]) for c in R.SPACES["hash_alg"]}

for _k, _v in {"ENC": N.ENC, "TAG": N.TAG, "HASH": N.HASH, "UUID5": N.UUID5, "UNHEX": bytes.fromhex, "utf8": N.utf8,
               "NAMESPACE_DNS": N.NAMESPACE_DNS, "ID": ID, "HASH_ALG": HASH_ALG}.items():
    setattr(refspec, _k, _v)

ref_envelope = refspec.ref_envelope


def reference_bytes(desc):
    return refspec.ref_envelope(desc["SUIT_Envelope_Tagged"])
