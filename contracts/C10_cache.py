"""C10 — DFU cache partitions are well-formed, aligned and content-preserving (contracts)."""
from pyvc.contract import Contract
from pyvc.types import Int, Bool, Bytes, Str, Obj, SeqStr

F = "suit_generator/cmd_cache_create.py"

# ------------------------------------------------------------------------------------------------
c = Contract(F, "CachePartition.add_padding", ["C10"])
c.param("self", Obj(F, "CachePartition", eb_size=Int()))
c.param("data", Bytes())
c.requires("eb_pos", "self.eb_size >= 1")
c.let("q", "len(data) // self.eb_size")
c.returns("prefix", "result[:len(data)] == data")
# alignment: exists k. len(result) == k * eb.  The witness is searched among q .. q+3 (q = floor(len/eb)):
# any padding strategy that adds fewer than three blocks verifies, so harmless strategy changes stay silent.
c.returns("aligned",
          "len(result) == q * self.eb_size or len(result) == (q + 1) * self.eb_size "
          "or len(result) == (q + 2) * self.eb_size or len(result) == (q + 3) * self.eb_size",
          native="len(result) % self.eb_size == 0")
c.returns("padding", "len(result) == len(data) or pad_entry_ok(result[len(data):])")
c.returns("minimal", "len(result) - len(data) < 2 * self.eb_size + 2")
c.raises("ValueError")
c.result(Bytes())

PROPERTY = "C10"
LEVEL = "proof"
