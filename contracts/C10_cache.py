"""C10 — DFU cache partitions are well-formed, aligned and content-preserving (contracts)."""
from pyvc.contract import Contract
from pyvc.types import Int, Bool, Bytes, Str, Obj, SeqStr, PathStr, ListT, DictT, Const

PROPERTY = "C10"
LEVEL = "proof"
F = "suit_generator/cmd_cache_create.py"

# Representation invariant of CachePartition used as pre- and postcondition of every mutator:
#   eb_size >= 1;  first_slot <=> no data yet <=> no URIs yet;  the end of the data is block-aligned
#   (so every slot after the first begins at a multiple of the erase-block size).
CP = Obj(F, "CachePartition", first_slot=Bool(), cache_data=Bytes(), eb_size=Int(), uris=SeqStr())
INV = ("self.eb_size >= 1 and self.first_slot == (len(self.cache_data) == 0) and self.first_slot == (len(self.uris) == 0) "
       "and len(self.cache_data) % self.eb_size == 0")
L_DIV = "L-div: x == k*b and b > 0 implies x % b == 0 (divisibility witnesses; elementary arithmetic, checked in Lean in the thorough tier)"

# ------------------------------------------------------------------------------------------------
c = Contract(F, "CachePartition.add_padding", ["C10"])
c.param("self", Obj(F, "CachePartition", eb_size=Int()))
c.param("data", Bytes())
c.requires("eb_pos", "self.eb_size >= 1")
c.let("q", "len(data) // self.eb_size")
c.returns("prefix", "result[:len(data)] == data")
# alignment: exists k. len(result) == k * eb.  The witness is searched among q .. q+3 (q = floor(len/eb)):
# any padding strategy that adds fewer than three blocks verifies, so harmless strategy changes stay silent.
c.returns("aligned", "len(result) % self.eb_size == 0",
          via="len(result) == q * self.eb_size or len(result) == (q + 1) * self.eb_size "
              "or len(result) == (q + 2) * self.eb_size or len(result) == (q + 3) * self.eb_size")
c.returns("padding", "len(result) == len(data) or pad_entry_ok(result[len(data):])")
c.returns("bounded_growth", "len(result) - len(data) <= 2 * self.eb_size + 1")
c.raises("ValueError", when="self.eb_size >= 0xFFFF", must=False)
c.result(Bytes())

# ------------------------------------------------------------------------------------------------
c = Contract(F, "CachePartition.add_cache_slot", ["C10"])
c.param("self", CP)
c.param("uri", Str())
c.param("data", Bytes())
c.requires("inv", INV)
c.requires("len32", "len(data) < 2**32")  # the format encodes the payload length in exactly four bytes
c.let("k0", "len(self.cache_data) // self.eb_size")
c.let("hdr", "(b'\\xbf' if self.first_slot else b'') + ENC(uri) + b'\\x5a' + be(len(data), 4) + data")
c.let("qs", "len(hdr) // self.eb_size")
# (heavy=True: byte-level clauses that callers reasoning only about URIs / alignment do not need to assume)
c.returns("extends", "self.cache_data[:len(old(self.cache_data))] == old(self.cache_data)", heavy=True)
c.returns("slot", "self.cache_data[len(old(self.cache_data)):][:len(hdr)] == hdr", heavy=True)
c.returns("slot_padding", "len(self.cache_data) == len(old(self.cache_data)) + len(hdr) "
                          "or pad_entry_ok(self.cache_data[len(old(self.cache_data)) + len(hdr):])", heavy=True)
c.returns("aligned", "len(self.cache_data) % self.eb_size == 0",
          via="len(self.cache_data) == (k0 + (len(self.cache_data) - len(old(self.cache_data))) // self.eb_size) * self.eb_size")
c.returns("grows", "len(self.cache_data) > len(old(self.cache_data))")
c.returns("uris", "self.uris == old(self.uris) + [uri]")
c.returns("not_first", "not self.first_slot and self.eb_size == old(self.eb_size)")
c.raises("ValueError", when="uri in self.uris", label="duplicate",
         ensures=["self.cache_data == old(self.cache_data) and self.uris == old(self.uris) "
                  "and self.first_slot == old(self.first_slot) and self.eb_size == old(self.eb_size)"])
c.raises("ValueError", when="self.eb_size >= 0xFFFF", must=False, label="padding_too_large",
         modifies=["self.first_slot", "self.uris"])
c.modifies("self.first_slot", "self.cache_data", "self.uris")

# ------------------------------------------------------------------------------------------------
c = Contract(F, "CachePartition.close_and_save_cache", ["C10"])
c.param("self", CP)
c.param("output_file", PathStr())
c.returns("file", "FILE(output_file) == old(self.cache_data) + b'\\xff'")
c.returns("exists", "EXISTS(output_file)")
c.raises("FileNotFoundError")  # missing output directory
c.modifies("self.cache_data")

# ------------------------------------------------------------------------------------------------
# The loops (any number of inputs / slots): invariant rule.  What is proved for EVERY number of inputs and every content is the
# representation invariant (so: every slot after the first begins at a multiple of the erase-block size, the format stays
# well-formed by add_cache_slot's byte-level clauses) and that nothing but ValueError (duplicate URI, malformed argument) /
# FileNotFoundError escapes.  That the decoded pairs are EXACTLY the supplied ones for sequences longer than the unrolled ones
# is the bounded stand-in's.
from pyvc.shapes import ObjInvT  # noqa: E402
INV_CACHE = INV.replace("self.", "cache.")
CP_INV = ObjInvT(CP, INV)


def _files_below_4g(it, env):
    it.fs_len_bound = 2 ** 32
    it.assumptions_used.add("input assumption: every payload file / cache entry is shorter than 2**32 bytes (the format's 4-byte length field)")


def _slot_calls(it, mark):
    return [t for t in it.trace[mark:] if t[0] == "call" and t[1] == "CachePartition.add_cache_slot"]


def _payload_iteration(it, env, mark):
    """One arbitrary input `uri,path` that is processed without an exception is added EXACTLY once, as (uri, content of the file).
    Stated over the loop ELEMENT (not over local names of the body): the element is split here again with the same str.split law."""
    import z3
    from pyvc import stubs_lib
    from pyvc.values import VStr
    calls = _slot_calls(it, mark)
    if len(calls) != 1:
        return [("input_added_exactly_once", False)]
    a = calls[0][2]
    parts = stubs_lib.HANDLERS["str.split"](it, it._loop_elem, [VStr(",")], {})
    uri, path = it.iterate(parts, unpack=2)
    content = it.fs.read_bin(it.stubs.path_term(it, path))
    return [("input_added_exactly_once", True), ("added_with_its_uri_and_file_content", z3.And(a["uri"].e == uri.e, a["data"].e == content))]


def _merge_iteration(it, env, mark):
    """One arbitrary entry (k, v) of the merged file: skipped iff the key is empty (padding); otherwise added exactly once as (k, v).
    k is the loop element, v the value the decoded map holds for it (no dependence on local names of the body)."""
    import z3
    from pyvc import plain
    from pyvc.values import VTuple
    calls = _slot_calls(it, mark)
    k, src = it._loop_elem, it._loop_src
    m = src.m if isinstance(src, plain.VPIter) else src
    if isinstance(k, VTuple):  # iteration over items(): (k, v)
        k = k.items[0]
    nonempty = z3.Length(k.e) > 0
    if not calls:
        return [("only_padding_entries_are_skipped", z3.Not(nonempty))]
    if len(calls) != 1:
        return [("entry_added_exactly_once", False)]
    a = calls[0][2]
    v = m.value_at(it, k)
    return [("only_padding_entries_are_skipped", nonempty), ("entry_added_exactly_once", True),
            ("added_with_its_key_and_value", z3.And(a["uri"].e == k.e, a["data"].e == v.e))]


c = Contract(F, "CacheFromPayloads.fill_cache_from_payloads", ["C10"])
c.param("cache", CP)
c.param("input", SeqStr())
c.requires("inv", INV_CACHE)
c.setup = _files_below_4g
c.returns("invariant_kept", INV_CACHE)
c.raises("ValueError")
c.raises("FileNotFoundError")
c.loops(cache=CP_INV, body_check=_payload_iteration)
c.modifies("cache.first_slot", "cache.cache_data", "cache.uris")

c = Contract(F, "CacheMerge.merge_cache_files", ["C10"])
c.param("cache", CP)
c.param("input", SeqStr())
c.requires("inv", INV_CACHE)
c.setup = _files_below_4g
c.returns("invariant_kept", INV_CACHE)
c.raises("ValueError")
c.raises("FileNotFoundError")
c.loops(cache=CP_INV)
c.modifies("cache.first_slot", "cache.cache_data", "cache.uris")


def _cache_file_setup(it, env):
    """Precondition of merge_single_cache_file: the input IS a cache file, i.e. cbor2.loads gives a mapping from text to byte
    strings shorter than 2**32 (of any size; the empty key is padding)."""
    import z3
    from pyvc import plain
    _files_below_4g(it, env)
    pt = it.stubs.path_term(it, env.lookup("cache_input_file"))
    data = it.fs.read_bin(pt)
    def val(it_, key, hint):
        b = it_.fresh_bytes(hint)
        it_.assume(z3.Length(b.e) < 2 ** 32)
        return b
    m = plain.VPMap(it, it.fresh_name("cache_dict"), lambda it_, hint: it_.fresh_str(hint), val)
    it.loads_cache = getattr(it, "loads_cache", {})
    it.loads_cache[z3.simplify(data).sexpr()] = m
    it.assumptions_used.add("precondition of merge_single_cache_file: the input file decodes (cbor2.loads) to a mapping text -> byte string (it is a cache file)")


c = Contract(F, "CachePartition.merge_single_cache_file", ["C10"])
c.param("self", CP)
c.param("cache_input_file", PathStr(exists=True))
c.requires("inv", INV)
c.setup = _cache_file_setup
c.returns("invariant_kept", INV)
c.raises("ValueError")
c.loops(body_check=_merge_iteration, **{"self": CP_INV})
c.modifies("self.first_slot", "self.cache_data", "self.uris")

ASSUMPTIONS = [L_DIV]


# ================================================================================================
# B — bounded stand-in: the public entry point `cmd_cache_create.main` on enumerated inputs, the output file walked by
# the independent CBOR reader (bounded/cborx.py).  Labelled bounded; never counted as proved.
# ================================================================================================
def check_cache_file(blob, pairs, eb):
    """Oracle taken from the property statement. Returns None or a message."""
    from bounded import cborx
    if not blob or blob[0] != 0xBF:
        return "does not start with an indefinite-length map (0xBF)"
    off, got, first = 1, [], True
    while True:
        if off >= len(blob):
            return "no terminating 0xFF"
        if blob[off] == 0xFF:
            off += 1
            break
        kstart = off
        try:
            k, off = cborx.decode(blob, off)
            vhead = blob[off]
            v, off = cborx.decode(blob, off)
        except Exception as e:  # noqa: BLE001
            return f"not decodable at offset {off}: {e}"
        if not isinstance(k, str) or not isinstance(v, bytes):
            return f"entry at {kstart} is not text -> bytes"
        if k == "":
            if any(v):
                return f"padding entry at {kstart} is not zero-filled"
        else:
            if vhead != 0x5A:
                return f"payload length of {k!r} not in the fixed 4-byte form (head {vhead:#x})"
            if not first and kstart % eb != 0:
                return f"slot {k!r} starts at {kstart}, not a multiple of {eb}"
            got.append((k, v))
            first = False
    if off != len(blob):
        return "bytes after the terminating 0xFF"
    if got != list(pairs):
        return f"decoded pairs differ from the supplied ones: {[(k, len(v)) for k, v in got]} vs {[(k, len(v)) for k, v in pairs]}"
    return None


def _run_main(kwargs):
    import importlib
    m = importlib.import_module("suit_generator.cmd_cache_create")
    return m.main(**kwargs)


def _payload(n, salt):
    return bytes((i * 7 + salt) & 0xFF for i in range(n))


def run_from_payloads(B, eb, pairs, tag, stale=None):
    d = B.fresh_dir("c")
    if stale is not None:
        # history: the output file already exists (an earlier, LONGER cache file): the new file must replace it, not be written over its start
        open(f"{d}/out.cache", "wb").write(stale)
    inputs = []
    for i, (uri, data) in enumerate(pairs):
        p = f"{d}/in{i}.bin"
        open(p, "wb").write(data)
        inputs.append(f"{uri},{p}")
    out = f"{d}/out.cache"
    case = {"mode": "from_payloads", "eb": eb, "pairs": [[u, len(x), x[:1].hex()] for u, x in pairs]}
    uris = [u for u, _ in pairs]
    dup = len(set(uris)) != len(uris)
    try:
        _run_main({"cache_create_subcommand": "from_payloads", "eb_size": eb, "input": inputs, "output_file": out})
    except ValueError as e:
        if dup:
            return case, None
        # padding of more than 0xFFFF bytes is rejected by design for eb >= 0xFFFF
        if eb >= 0xFFFF and "padding" in str(e):
            return case, None
        return case, f"unexpected ValueError: {e}"
    except Exception as e:  # noqa: BLE001
        return case, f"unexpected {type(e).__name__}: {e}"
    if dup:
        return case, "duplicate URI accepted"
    return case, check_cache_file(open(out, "rb").read(), pairs, eb)


def run_merge(B, eb, groups, stale=None):
    d = B.fresh_dir("m")
    if stale is not None:
        open(f"{d}/merged.cache", "wb").write(stale)
    files = []
    for gi, pairs in enumerate(groups):
        ins = []
        for i, (uri, data) in enumerate(pairs):
            p = f"{d}/g{gi}_{i}.bin"
            open(p, "wb").write(data)
            ins.append(f"{uri},{p}")
        f = f"{d}/g{gi}.cache"
        _run_main({"cache_create_subcommand": "from_payloads", "eb_size": eb, "input": ins, "output_file": f})
        files.append(f)
    out = f"{d}/merged.cache"
    allpairs = [p for g in groups for p in g]
    uris = [u for u, _ in allpairs]
    dup = len(set(uris)) != len(uris)
    case = {"mode": "merge", "eb": eb, "groups": [[[u, len(x)] for u, x in g] for g in groups]}
    try:
        _run_main({"cache_create_subcommand": "merge", "eb_size": eb, "input": files, "output_file": out})
    except ValueError as e:
        return case, (None if dup else f"unexpected ValueError: {e}")
    except Exception as e:  # noqa: BLE001
        return case, f"unexpected {type(e).__name__}: {e}"
    if dup:
        return case, "duplicate URI across merged caches accepted"
    return case, check_cache_file(open(out, "rb").read(), allpairs, eb)


def bounded(ctx):
    from bounded.harness import Bounded
    quick = ctx["tier"] == "quick"
    ebs = list(range(1, 70)) + [96, 128, 255, 256, 512] if quick else list(range(1, 513)) + [1024, 2048, 4096, 8192, 16384, 32768, 65536]
    B = Bounded(ctx, rule="cmd_cache_create.main on enumerated (eb, slot lengths in every residue class, URI lengths, slot sequences, "
                          "duplicates at every position, merges); output walked by an independent CBOR reader; a case is non-trivial "
                          "when it has at least one slot; distinct by (mode, eb, slot shapes)",
                bound=f"eb in {'1..69 + {96,128,255,256,512}' if quick else '1..512 + 2^k up to 65536'}; slot length residues all (eb<=64) / sampled; "
                      f"URI lengths 1,22,23,24,255,256; sequences up to 6 slots; merges of up to 4 caches", budget_s=40 if quick else 900)
    uri_lens = [1, 6, 22, 23, 24, 255, 256]
    # (1) single and double slots: every residue class of the slot size for eb <= 64, boundary residues beyond
    for eb in ebs:
        residues = range(eb) if eb <= 64 else sorted({0, 1, 2, 3, 22, 23, 24, 25, 26, 27, eb // 2, eb - 26, eb - 25, eb - 24, eb - 3, eb - 2, eb - 1} & set(range(eb)))
        for r in residues:
            if B.out_of_time():
                break
            ul = uri_lens[(eb + r) % len(uri_lens)]
            uri = "#" + "u" * (ul - 1)
            hdr = 1 + (1 if ul < 24 else 2 if ul < 256 else 3) + ul + 5
            n = (r - hdr) % eb + (eb if (eb + r) % 3 == 0 and eb < 4096 else 0)
            pairs = [(uri, _payload(n, r)), ("#second", _payload((r * 3) % 37, 1))]
            case, msg = run_from_payloads(B, eb, pairs, "res")
            B.case(("p", eb, r), sample=case)
            if msg:
                B.fail("cache-file-well-formed", case, msg)
    # (2) sequences of up to 6 slots incl. empty payloads, duplicates at every position
    for eb in ([1, 2, 8, 16, 25, 26, 27, 64, 256] if quick else [1, 2, 3, 8, 16, 24, 25, 26, 27, 28, 64, 100, 256, 512, 4096]):
        for n in range(1, 7):
            pairs = [(f"#s{i}" + "x" * ((i * 5) % 30), _payload((i * 11 + eb) % 70, i)) for i in range(n)]
            case, msg = run_from_payloads(B, eb, pairs, "seq")
            B.case(("s", eb, n), sample=None)
            if msg:
                B.fail("cache-file-well-formed", case, msg)
            for i in range(n):
                for j in range(i + 1, n):
                    if (i + j + eb) % 3 and n > 3:
                        continue
                    dp = list(pairs)
                    dp[j] = (pairs[i][0], pairs[j][1])
                    case, msg = run_from_payloads(B, eb, dp, "dup")
                    B.case(("d", eb, n, i, j))
                    if msg:
                        B.fail("duplicate-uri-rejected", case, msg)
    # (2b) history: the output file exists already and is longer than what is written now (stale tail must not survive)
    for eb in (1, 8, 64):
        for n in (1, 2):
            pairs = [(f"#h{i}", _payload(5 + i, i)) for i in range(n)]
            for stale in (b"\xbf" + b"\x00" * 700 + b"\xff", b"\xaa" * 3000):
                case, msg = run_from_payloads(B, eb, pairs, "stale", stale=stale)
                case["existing_output_file_bytes"] = len(stale)
                B.case(("stale", eb, n, len(stale)))
                if msg:
                    B.fail("cache-file-well-formed", case, "output file existed before (longer): " + msg)
        groups = [[("#m0", _payload(9, 1))], [("#m1", _payload(3, 2))]]
        case, msg = run_merge(B, eb, groups, stale=b"\xbf" + b"\x00" * 2000 + b"\xff")
        case["existing_output_file_bytes"] = 2002
        B.case(("stale-merge", eb))
        if msg:
            B.fail("merge-preserves-pairs", case, "output file existed before (longer): " + msg)
    # (3) merges
    for eb in ([1, 8, 16, 27, 64] if quick else [1, 2, 8, 16, 25, 26, 27, 64, 256, 1024]):
        for k in range(1, 5):
            groups = [[(f"#g{g}_{i}", _payload((g * 13 + i * 7 + eb) % 50, g)) for i in range(1 + (g + k) % 3)] for g in range(k)]
            case, msg = run_merge(B, eb, groups)
            B.case(("m", eb, k), sample=case if k == 2 else None)
            if msg:
                B.fail("merge-preserves-pairs", case, msg)
            # zero-length and one-byte payloads in the merged caches (a (URI, b"") pair is a pair like any other)
            gz = [[(f"#z{g}_{i}", _payload([0, 1, 0, 3][(g + i) % 4], g)) for i in range(1 + (g + k) % 3)] for g in range(k)]
            case, msg = run_merge(B, eb, gz)
            B.case(("mz", eb, k))
            if msg:
                B.fail("merge-preserves-pairs", case, msg)
            if k >= 2:
                # duplicate across inputs (first slot of first cache repeated as last slot of last cache, and others)
                for (ga, ia), (gb, ib) in (((0, 0), (k - 1, len(groups[k - 1]) - 1)), ((0, len(groups[0]) - 1), (1, 0))):
                    g2 = [list(g) for g in groups]
                    g2[gb][ib] = (groups[ga][ia][0], g2[gb][ib][1])
                    case, msg = run_merge(B, eb, g2)
                    B.case(("md", eb, k, ga, ia, gb, ib))
                    if msg:
                        B.fail("duplicate-uri-rejected", case, msg)
    return B.done()


def replay_case(case):
    from bounded.harness import Bounded
    B = Bounded({"tier": "quick", "seed": 0}, "", "")
    try:
        if case["mode"] == "from_payloads":
            pairs = [(u, _payload(n, int(h, 16) if h else 0) if False else bytes.fromhex(h) * 0 + _payload(n, 0)) for u, n, h in case["pairs"]]
            _, msg = run_from_payloads(B, case["eb"], pairs, "replay")
        else:
            groups = [[(u, _payload(n, 0)) for u, n in g] for g in case["groups"]]
            _, msg = run_merge(B, case["eb"], groups)
        return msg is None, msg
    finally:
        B.done()
