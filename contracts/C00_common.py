"""Contracts of the shared low-level helpers of suit_generator/suit/types/common.py (used at call sites by C01/C02/C03/C05/C17).

deserialize_cbor / validate_cbor / serialize_cbor / ensure_cbor: for every byte string that IS the encoding of a value
(law A1 domain) deserialize_cbor returns that value and raises nothing; its behaviour on arbitrary bytes is C17's.
"""
from pyvc.contract import Contract
from pyvc.types import Int, Bool, Bytes, Str, Obj, OneOf, ListT, NoneT, Const, DictT, Enc, TagT, TupleT

PROPERTY = "C00"
FCOM = "suit_generator/suit/types/common.py"

SHAPES = [("uint", Enc(Int(0, 2 ** 64 - 1))), ("bstr", Enc(Bytes())), ("nil", Enc(NoneT())), ("bool", Enc(Bool()))]


def _apply_deserialize(it, c, fi, args, kwargs):
    """Call-site semantics: the argument is (provably) an encoding -> its origin, decoded as cbor2 6 does."""
    from pyvc import cbor
    from pyvc.values import VBytes, OutOfSubset
    data = args[-1]
    if isinstance(data, VBytes) and data.conc is None:
        origins = getattr(it, "enc_origins", {})
        k = cbor.okey(data.e)
        if k in origins:
            it.used_stubs.add("cbor2.loads")
            it.trace.append(("call", c.func, {"cbstr": data}, None))
            return cbor.decoded_copy(origins[k])
    # anything else: execute the body (validate + loads) itself
    return it.call_function(fi, args, kwargs, force_inline=True)


c = Contract(FCOM, "SuitObject.deserialize_cbor", ["C00", "C02", "C03", "C17"])
c.param("cbstr", Enc(Bytes()))
c.variants = [(n, {"cbstr": t}) for n, t in SHAPES]
c.returns("decodes_to_the_encoded_value", "ENC(result) == cbstr")
c.apply_fn = _apply_deserialize
c.model_only = True
c.modular_only_reason = ("law A1 (cbor2.loads(ENC x) == x) plus `validate_cbor accepts every complete well-formed item`; the body of validate_cbor is "
                         "verified over arbitrary bytes for C17 (only ValueError escapes); its no-false-rejection on valid encodings is B-checked")


# ------------------------------------------------------------------------------------------------------------------------------------
# Helpers for the contracts of the command ENTRY POINTS (cmd_*.main and the thin file-level wrappers): the callee is summarised at the
# call site by "raises one of its declared exceptions, or returns" with the call and its bound arguments recorded in the trace; the
# entry point's contract then states which named argument must reach which parameter, in what order the callees run, and what is
# (not) written.  The callees themselves are verified against their own contracts elsewhere.
def recording_summary(qualname, raises=(), result=None, note=None):
    def fn(it, c_, fi, args, kwargs):
        from pyvc.interp import Env
        from pyvc.values import NONE
        from pyvc import clauses
        env = Env(None, None)
        it.bind_args(fi, args, kwargs, env)
        it.assumptions_used.add(note or f"{qualname} at the call site in the command entry point: summarised as `raises {', '.join(raises) or 'nothing'} or returns` (its own contract is verified separately)")
        k = it.choose(len(raises) + 1, qualname + "_outcome")
        if k > 0:
            it.raise_(clauses.resolve_exception(it, raises[k - 1]), "summarised callee raises")
        res = result(it) if result is not None else NONE
        it.trace.append(("call", qualname, dict(env.vars), res))
        return res
    return fn


def calls_of(it, qualname):
    return [t for t in it.trace if t[0] == "call" and t[1] == qualname]


def same_value(x, y):
    """Is the value that reached the callee THE value of the named argument (same term / same object)?"""
    import z3
    if x is y:
        return z3.BoolVal(True)
    if hasattr(x, "e") and hasattr(y, "e") and type(x) is type(y):
        return x.e == y.e
    return z3.BoolVal(False)


def reaches(call, ctx, pairs):
    """[(formal parameter of the callee, named argument of the entry point)] -> goals `<argument> reaches its parameter`."""
    import z3
    return [(f"{actual}_reaches_{formal}", same_value(call[2][formal], ctx.arg(actual)) if formal in call[2] else z3.BoolVal(False)) for formal, actual in pairs]
