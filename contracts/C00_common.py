"""Contracts of the shared low-level helpers of suit_generator/suit/types/common.py (used at call sites by C01/C02/C03/C05/C17).

deserialize_cbor / validate_cbor / serialize_cbor / ensure_cbor: for every byte string that IS the encoding of a value
(law A1 domain) deserialize_cbor returns that value and raises nothing; its behaviour on arbitrary bytes is C17's.
"""
from pyvc.contract import Contract
from pyvc.types import Int, Bool, Bytes, Str, Obj, OneOf, ListT, NoneT, Const, DictT, Enc, TagT, TupleT

PROPERTY = "C00"
FCOM = "suit_generator/suit/types/common.py"

SHAPES = [("uint", Enc(Int(0, 2 ** 64 - 1))), ("bstr", Enc(Bytes())), ("nil", Enc(NoneT())), ("bool", Enc(Bool()))]


def _apply_deserialize(it, c, fi, args, kwargs):
    """Call-site semantics: the argument is (provably) an encoding -> its origin, decoded as cbor2 6 does."""
    from pyvc import cbor
    from pyvc.values import VBytes, OutOfSubset
    data = args[-1]
    if isinstance(data, VBytes) and data.conc is None:
        origins = getattr(it, "enc_origins", {})
        k = cbor.okey(data.e)
        if k in origins:
            it.used_stubs.add("cbor2.loads")
            it.trace.append(("call", c.func, {"cbstr": data}, None))
            return cbor.decoded_copy(origins[k])
    # anything else: execute the body (validate + loads) itself
    return it.call_function(fi, args, kwargs, force_inline=True)


c = Contract(FCOM, "SuitObject.deserialize_cbor", ["C00", "C02", "C03", "C17"])
c.param("cbstr", Enc(Bytes()))
c.variants = [(n, {"cbstr": t}) for n, t in SHAPES]
c.returns("decodes_to_the_encoded_value", "ENC(result) == cbstr")
c.apply_fn = _apply_deserialize
c.model_only = True
c.modular_only_reason = ("law A1 (cbor2.loads(ENC x) == x) plus `validate_cbor accepts every complete well-formed item`; the body of validate_cbor is "
                         "verified over arbitrary bytes for C17 (only ValueError escapes); its no-false-rejection on valid encodings is B-checked")
