"""C12 — MPI records and merged MPI areas have the exact device layout (contracts)."""
from pyvc.contract import Contract
from pyvc.types import Int, Bool, Bytes, Str, Obj, PathStr, OneOf, ListT, NoneT, Const

PROPERTY = "C12"
LEVEL = "proof"
F = "suit_generator/cmd_mpi.py"

c = Contract(F, "MpiGenerator.generate", ["C12", "C13"])
c.param("output_file", PathStr())
c.param("vendor_name", Str())
c.param("class_name", Str())
c.param("address", Int())
c.param("size", Int())
c.param("downgrade_prevention_enabled", Bool())
c.param("independent_updates", Bool())
c.param("signature_verification", OneOf(NoneT(), "update", "update-and-boot", Str()))
c.requires("size48", "size >= 48")
c.requires("addr", "address >= 0")
c.returns("record", "HEXMAP(FILE(output_file)) == HEX_PUT(HEX_EMPTY(), address, mpi_record(vendor_name, class_name, "
                    "downgrade_prevention_enabled, independent_updates, signature_verification, size))")
c.returns("policy_known", "signature_verification is None or signature_verification == 'update' or signature_verification == 'update-and-boot'")
c.raises("GeneratorError", when="not (signature_verification is None or signature_verification == 'update' "
                                "or signature_verification == 'update-and-boot')", label="unknown_policy")
c.raises("FileNotFoundError")  # output directory missing

# merge: the property's own range of 0..8 input records, every count explored; each input an arbitrary partial map
FILES = OneOf(NoneT(), *[ListT([PathStr(exists=True)] * n) for n in range(0, 9)])
c = Contract(F, "MpiGenerator.merge", ["C12"])
c.param("output_file", PathStr())
c.param("address", Int())
c.param("size", Int())
c.param("files", FILES)
c.requires("size", "size >= 1 and address >= 0")
c.let("contents", "[] if files is None else [FILE(f) for f in files]")
c.requires("valid_hex_inputs", "all([HEX_FILE_OK(x) and not HEX_ISEMPTY(HEXMAP(x)) for x in contents])")
c.requires("output_distinct", "files is None or all([f != output_file for f in files])")
c.let("area", "HEX_TOBIN(hex_merged(contents), address, address + size - 1, 0xFF)")
c.returns("inputs_inside_area", "all_inside(contents, address, size)")
c.returns("inputs_disjoint", "no_overlaps(contents)")
c.returns("area_then_digest", "HEXMAP(FILE(output_file)) == HEX_PUT(HEX_EMPTY(), address, area + HASH('sha256', 32, area))")
c.raises("GeneratorError")
c.raises("intelhex.AddressOverlapError")
c.raises("FileNotFoundError")

# the command entry point: arguments are passed on by POSITION - which value lands in which field is part of the post
c = Contract(F, "main", ["C12"])
c.param("mpi", Const("generate"))
c.param("output_file", PathStr())
c.param("vendor_name", Str())
c.param("class_name", Str())
c.param("address", Int())
c.param("size", Int())
c.param("downgrade_prevention_enabled", Bool())
c.param("independent_updates", Bool())
c.param("signature_verification", OneOf(NoneT(), "update", "update-and-boot"))
c.param("file", NoneT())
c.requires("size48", "size >= 48")
c.requires("addr", "address >= 0")
c.returns("record_of_the_named_arguments", "HEXMAP(FILE(output_file)) == HEX_PUT(HEX_EMPTY(), address, mpi_record(vendor_name, class_name, "
                                            "downgrade_prevention_enabled, independent_updates, signature_verification, size))")
c.raises("FileNotFoundError")
c.raises("GeneratorError")
c.call_by_keyword = True


# ================================================================================================
# B — bounded stand-in through the command entry point, hex files read back with the independent reader
# ================================================================================================
def _expected_record(vendor, cls, dp, iu, sv, size):
    from contracts.specs_native import UUID5, NAMESPACE_DNS
    vid = UUID5(NAMESPACE_DNS, vendor)
    cid = UUID5(vid, cls)
    return bytes([1, 2 if dp else 1, 2 if iu else 1, {None: 1, "update": 2, "update-and-boot": 3}[sv]]) + b"\xff" * 12 + vid + cid + b"\xff" * (size - 48)


def bounded(ctx):
    import hashlib, importlib, itertools
    from bounded.harness import Bounded
    from bounded import hexread
    quick = ctx["tier"] == "quick"
    B = Bounded(ctx, rule="cmd_mpi.main (generate: all 2x2x3 policies x names incl. empty / non-ASCII / long x addresses and sizes; merge: sets of up to 8 records placed inside, "
                          "on the border of, one byte outside the area, overlapping adjacent and NON-adjacent inputs in every argument order of the overlapping pair) with the "
                          "hex files read back by the independent HEX reader; distinct by case",
                bound="generate: 12 policies x 5 name pairs x 4 (address, size); merge: 0..8 records, ~60 placements", budget_s=60 if quick else 300)
    m = importlib.import_module("suit_generator.cmd_mpi")
    GeneratorError = importlib.import_module("suit_generator.exceptions").GeneratorError
    d = B.fresh_dir("mpi")
    names = [("nordicsemi.com", "nRF54H20_sample_app"), ("", ""), ("vendor-é中", "class ü"), ("v" * 300, "c" * 70), ("acme.com", "nRF54H20_sample_app")]
    n = 0
    for (dp, iu, sv), (vendor, cls), (addr, size) in itertools.product(itertools.product([False, True], [False, True], [None, "update", "update-and-boot"]), names,
                                                                        [(0, 48), (0x0E1EEC00, 48), (0xFFF0, 64), (0xFFFFFF00, 100)]):
        n += 1
        if quick and n % 3:
            continue
        out = f"{d}/g.hex"
        case = {"op": "generate", "vendor": vendor[:20], "class": cls[:20], "dp": dp, "iu": iu, "sv": sv, "address": addr, "size": size}
        B.case(("generate", dp, iu, sv, vendor[:8], addr, size), sample=case if n in (3, 90) else None)
        try:
            m.main(mpi="generate", output_file=out, vendor_name=vendor, class_name=cls, address=addr, size=size, downgrade_prevention_enabled=dp,
                   independent_updates=iu, signature_verification=sv, file=None)
        except Exception as e:  # noqa: BLE001
            B.fail("generate-succeeds", case, f"{type(e).__name__}: {e}")
            continue
        mem = hexread.parse_file(out)
        want = _expected_record(vendor, cls, dp, iu, sv, size)
        got = bytes(mem.get(addr + i, -1) & 0xFF if (addr + i) in mem else 0 for i in range(size))
        if set(mem) != set(range(addr, addr + size)) or got != want:
            B.fail("record-has-the-device-layout-at-the-given-address", case, f"bytes 0..4 {got[:4].hex()} expected {want[:4].hex()}; {len(mem)} bytes written")
    # merge
    base, area = 0x1000, 48 * 8

    def rec_file(i, at, size=48):
        p = f"{d}/r{i}.hex"
        m.MpiGenerator.generate(p, f"v{i}", f"c{i}", at, size, False, True, None)
        return p

    def run_merge(tag, placements, expect_reject, area=area):
        files = [rec_file(i, at, sz) for i, (at, sz) in enumerate(placements)]
        out = f"{d}/m.hex"
        case = {"op": "merge", "case": tag, "placements": [[hex(a), s] for a, s in placements], "area_size": area}
        B.case(("merge", tag))
        try:
            m.main(mpi="merge", output_file=out, address=base, size=area, file=files)
        except Exception as e:  # noqa: BLE001
            if not expect_reject:
                B.fail("valid-merge-succeeds", case, f"{type(e).__name__}: {e}")
            return
        if expect_reject:
            B.fail("input-outside-or-overlapping-is-rejected", case, "accepted")
            return
        mem = hexread.parse_file(out)
        want = bytearray(b"\xff" * area)
        for i, (at, sz) in enumerate(placements):
            want[at - base: at - base + sz] = _expected_record(f"v{i}", f"c{i}", False, True, None, sz)
        want = bytes(want) + hashlib.sha256(bytes(want)).digest()
        got = bytes(mem.get(base + i, 0) & 0xFF for i in range(len(want)))
        if set(mem) != set(range(base, base + len(want))) or got != want:
            B.fail("area-with-every-record-at-its-address-then-sha256", case, "merged area or digest differs")

    slots = [(base + 48 * i, 48) for i in range(8)]
    run_merge("none", [], False)
    for k in (1, 2, 3, 8):
        run_merge(f"first-{k}", slots[:k], False)
    run_merge("reversed-order", list(reversed(slots[:5])), False)
    # reserved sizes that are not a multiple of 4 / 16 / 32 (the digest follows the area IMMEDIATELY, whatever its size)
    for extra in (1, 2, 3, 5, 17, 33):
        run_merge(f"area-size-{area + extra}", slots[:2], False, area=area + extra)
    run_merge("area-of-one-byte-no-records", [], False, area=1)
    run_merge("on-lower-border", [(base, 48)], False)
    run_merge("on-upper-border", [(base + area - 48, 48)], False)
    run_merge("one-byte-below", [(base - 1, 48)], True)
    run_merge("one-byte-above", [(base + area - 47, 48)], True)
    run_merge("two-bytes-above", [(base + area - 46, 48)], True)
    run_merge("larger-record-reaching-outside", [(base + area - 48, 49)], True)
    run_merge("adjacent-overlap", [slots[0], (slots[0][0] + 47, 48)], True)
    # the overlapping pair NOT adjacent in argument order, in both orders, with 1..5 records in between
    for between in range(1, 6):
        mid = slots[2: 2 + between]
        run_merge(f"non-adjacent-overlap-{between}-a", [slots[0]] + mid + [(slots[0][0] + 40, 48)], True)
        run_merge(f"non-adjacent-overlap-{between}-b", [(slots[0][0] + 40, 48)] + mid + [slots[0]], True)
        run_merge(f"non-adjacent-one-byte-overlap-{between}", [(slots[1][0] + 47, 48)] + mid[1:] + [slots[1]], True) if between > 1 else None
    return B.done()
