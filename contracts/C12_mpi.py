"""C12 — MPI records and merged MPI areas have the exact device layout (contracts)."""
from pyvc.contract import Contract
from pyvc.types import Int, Bool, Bytes, Str, Obj, PathStr, OneOf, ListT, NoneT, Const

PROPERTY = "C12"
LEVEL = "proof"
F = "suit_generator/cmd_mpi.py"

c = Contract(F, "MpiGenerator.generate", ["C12", "C13"])
c.param("output_file", PathStr())
c.param("vendor_name", Str())
c.param("class_name", Str())
c.param("address", Int())
c.param("size", Int())
c.param("downgrade_prevention_enabled", Bool())
c.param("independent_updates", Bool())
c.param("signature_verification", OneOf(NoneT(), "update", "update-and-boot", Str()))
c.requires("size48", "size >= 48")
c.requires("addr", "address >= 0")
c.returns("record", "HEXMAP(FILE(output_file)) == HEX_PUT(HEX_EMPTY(), address, mpi_record(vendor_name, class_name, "
                    "downgrade_prevention_enabled, independent_updates, signature_verification, size))")
c.returns("policy_known", "signature_verification is None or signature_verification == 'update' or signature_verification == 'update-and-boot'")
c.raises("GeneratorError", when="not (signature_verification is None or signature_verification == 'update' "
                                "or signature_verification == 'update-and-boot')", label="unknown_policy")
c.raises("FileNotFoundError")  # output directory missing

# merge: the property's own range of 0..8 input records, every count explored; each input an arbitrary partial map
FILES = OneOf(NoneT(), *[ListT([PathStr(exists=True)] * n) for n in range(0, 9)])
c = Contract(F, "MpiGenerator.merge", ["C12"])
c.param("output_file", PathStr())
c.param("address", Int())
c.param("size", Int())
c.param("files", FILES)
c.requires("size", "size >= 1 and address >= 0")
c.let("contents", "[] if files is None else [FILE(f) for f in files]")
c.requires("valid_hex_inputs", "all([HEX_FILE_OK(x) and not HEX_ISEMPTY(HEXMAP(x)) for x in contents])")
c.requires("output_distinct", "files is None or all([f != output_file for f in files])")
c.let("area", "HEX_TOBIN(hex_merged(contents), address, address + size - 1, 0xFF)")
c.returns("inputs_inside_area", "all_inside(contents, address, size)")
c.returns("inputs_disjoint", "no_overlaps(contents)")
c.returns("area_then_digest", "HEXMAP(FILE(output_file)) == HEX_PUT(HEX_EMPTY(), address, area + HASH('sha256', 32, area))")
c.raises("GeneratorError")
c.raises("intelhex.AddressOverlapError")
c.raises("FileNotFoundError")
