"""C15 — Generated key pairs match and convert emits the exact public key (contracts + bounded stand-in)."""
import z3
from pyvc.contract import Contract
from pyvc.types import Int, Bool, Bytes, Str, Obj, PathStr, OneOf, ListT, NoneT, Const, DictT, Lib, Opt

PROPERTY = "C15"
LEVEL = "other"
EXPLANATION = ("P: key generation calls the library with a curve INSTANCE for the NIST types and yields the requested key kind; both files are "
               "serialisations of the SAME generated key; convert emits fixed-width big-endian X||Y of ceil(key_size/8) bytes each for every x, y "
               "(all values, incl. leading zero bytes) and the raw key for EdDSA. B: the C-array formatting (string loops) and which of the 40 "
               "format combinations the library refuses are decided by running them (bounded stand-in).")
FK = "suit_generator/cmd_keys.py"
FC = "suit_generator/cmd_convert.py"
TYPES = ["secp256r1", "secp384r1", "secp521r1", "ed25519", "ed448"]

c = Contract(FK, "KeyGenerator.generate_private_key", ["C15"])
c.param("self", Obj(FK, "KeyGenerator"))
c.param("type", OneOf(*TYPES, Str()))
c.returns("requested_kind", "(type == 'secp256r1' and KEY_KIND(result) == 'ec' and KEY_SIZE(result) == 256) or (type == 'secp384r1' and KEY_KIND(result) == 'ec' and KEY_SIZE(result) == 384) "
                            "or (type == 'secp521r1' and KEY_KIND(result) == 'ec' and KEY_SIZE(result) == 521) or (type == 'ed25519' and KEY_KIND(result) == 'ed25519') "
                            "or (type == 'ed448' and KEY_KIND(result) == 'ed448')", native="True")
c.raises("TypeError", when="not (type == 'secp256r1' or type == 'secp384r1' or type == 'secp521r1' or type == 'ed25519' or type == 'ed448')", label="unsupported_type")
c.callers_inline = True  # the kind of the result depends on the argument; callers execute the (5-line) body

c = Contract(FK, "KeyGenerator.create_key_pair", ["C15"])
c.param("self", Obj(FK, "KeyGenerator"))
c.param("file_name_prefix", Str())
c.param("key_type", OneOf(*TYPES))
c.param("encoding", OneOf("pem", "der"))
c.param("private_format", OneOf("pkcs1", "pkcs8"))
c.param("public_format", OneOf("default", "pkcs1"))
c.param("encryption", OneOf("none"))


def _pair_checks(it, ctx):
    """Both files are serialisations of the SAME generated key; nothing is written when serialisation is refused."""
    gens = [t for t in it.trace if t[0] == "nondet" and t[1] == "keygen"]
    writes = [t for t in it.trace if t[0] == "write"]
    if ctx.outcome != "return":
        # refusal of the format combination happens before any file is opened (a missing output directory is a different error)
        opened = [t for t in it.trace if t[0] == "open-w"]
        return [("nothing_written_when_serialisation_is_refused", z3.BoolVal(len(writes) == 0 or len(opened) > 0))]
    goals = [("one_key_generated", z3.BoolVal(len(gens) == 1)), ("two_files_written", z3.BoolVal(len(writes) == 2))]
    if len(gens) == 1 and len(writes) == 2:
        ctx.env.set("KEY", gens[0][2])
        enc, pf, pubf = ctx.arg("encoding").conc, ctx.arg("private_format").conc, ctx.arg("public_format").conc
        ctx.env.set("ENC", __import__("pyvc.values", fromlist=["VStr"]).VStr(enc))
        tags = {"pem": "PEM", "der": "DER"}
        ptag = f"{tags[enc]}/{ {'pkcs1': 'TraditionalOpenSSL', 'pkcs8': 'PKCS8'}[pf] }/NoEncryption".replace(" ", "")
        utag = f"{tags[enc]}/{ {'default': 'SubjectPublicKeyInfo', 'pkcs1': 'PKCS1'}[pubf] }".replace(" ", "")
        goals.append(("private_file", ctx.formula(f"FILE(file_name_prefix + '_priv.' + ENC) == PRIV_BYTES(KEY, '{ptag}')")))
        goals.append(("public_file_of_the_same_key", ctx.formula(f"FILE(file_name_prefix + '_pub.' + ENC) == PUB_BYTES(KEY, '{utag}')")))
    return goals


c.check("pair", _pair_checks)
c.raises("GeneratorError")

# ------------------------------------------------------------------------------------------------
c = Contract(FC, "KeyConverter._get_public_key_data", ["C15"])
c.param("self", Obj(FC, "KeyConverter", _input_file=PathStr(exists=True)))


def _convert_checks(it, ctx):
    if ctx.outcome != "return":
        return None
    loads = [t for t in it.trace if t[0] == "read"]
    # the key kind of this path is recorded by the key-loading stub through the chosen alternative
    res = ctx.result
    ctx.env.set("KEYDATA", ctx.eval("old(FILE(self._input_file))"))
    kinds = getattr(it, "loaded_key_kinds", [])
    if len(kinds) != 1:
        return [("public_key_bytes", None)]
    kind, size = kinds[0]
    if kind == "ec":
        w = (size + 7) // 8
        return [("fixed_width", ctx.formula(f"len(result) == {2 * w}")),
                ("x_then_y_big_endian", ctx.formula(f"result == be(PUB_X(KEYDATA), {w}) + be(PUB_Y(KEYDATA), {w})"))]
    return [("raw_eddsa_key", ctx.formula("result == PUB_RAW(KEYDATA)")), ("raw_length", ctx.formula(f"len(result) == {32 if kind == 'ed25519' else 57}"))]


c.check("public_key", _convert_checks)
c.raises("ValueError")  # not a PEM private key


# ------------------------------------------------------------------------------------------------
# The command entry points cmd_keys.main and cmd_convert.main hand their arguments on BY POSITION: every named argument must reach ITS
# parameter (key type / encoding / the two formats, and for convert: which file is read, which is written, and which option is which).
import contracts.C00_common as C00  # noqa: E402


def _keys_main_setup(it, env):
    it.call_site_summaries = {"KeyGenerator.create_key_pair": C00.recording_summary("KeyGenerator.create_key_pair", ("ValueError", "GeneratorError", "TypeError", "FileNotFoundError"))}


c = Contract(FK, "main", ["C15"])
for n_ in ("output_file", "type", "encoding", "private_format", "public_format", "encryption"):
    c.param(n_, Str())
c.variants = [("keys", {})]
c.setup = _keys_main_setup


def _keys_main_checks(it, ctx):
    import z3
    if ctx.outcome != "return":
        return None
    calls = C00.calls_of(it, "KeyGenerator.create_key_pair")
    goals = [("one_key_pair_is_created", z3.BoolVal(len(calls) == 1))]
    if len(calls) == 1:
        goals += C00.reaches(calls[0], ctx, [("file_name_prefix", "output_file"), ("key_type", "type"), ("encoding", "encoding"), ("private_format", "private_format"),
                                             ("public_format", "public_format"), ("encryption", "encryption")])
    return goals


c.check("entry", _keys_main_checks)
for e_ in ("ValueError", "GeneratorError", "TypeError", "FileNotFoundError"):
    c.raises(e_)

_CONV_STR = ("input_file", "output_file", "array_type", "array_name", "length_type", "length_name", "header_file", "footer_file")


def _convert_main_setup(it, env):
    it.call_site_summaries = {"KeyConverter.__init__": C00.recording_summary("KeyConverter.__init__", ("ValueError",)),
                              "KeyConverter.generate_c_file": C00.recording_summary("KeyConverter.generate_c_file", ("ValueError", "GeneratorError", "FileNotFoundError"))}


c = Contract(FC, "main", ["C15"])
for n_ in _CONV_STR:
    c.param(n_, Str())
c.param("columns_count", Int())
c.param("indentation_count", Int())
c.param("indentation_tab", Bool())
c.param("no_length", Bool())
c.param("no_const", Bool())
c.variants = [("convert", {})]
c.setup = _convert_main_setup


def _convert_main_checks(it, ctx):
    import z3
    if ctx.outcome != "return":
        return None
    inits, gens = C00.calls_of(it, "KeyConverter.__init__"), C00.calls_of(it, "KeyConverter.generate_c_file")
    goals = [("one_converter_is_built_and_run", z3.BoolVal(len(inits) == 1 and len(gens) == 1 and gens[0][2]["self"] is inits[0][2]["self"]))]
    if len(inits) == 1:
        goals += C00.reaches(inits[0], ctx, [(n, n) for n in _CONV_STR + ("columns_count", "indentation_count", "indentation_tab", "no_length", "no_const")])
    return goals


c.check("entry", _convert_main_checks)
for e_ in ("ValueError", "GeneratorError", "FileNotFoundError"):
    c.raises(e_)

# ------------------------------------------------------------------------------------------------
# KeyConverter: the constructor stores every option in ITS attribute; the C text is header + definition + array + end + length + footer in this
# order, written to the OUTPUT file; the length variable is `sizeof(<the array that was declared>)`; the options only change the text around the
# array rows (the rows themselves come from _prepare_array, whose bytes are _get_public_key_data's - contract above).
KC = Obj(FC, "KeyConverter", _input_file=Str(), _output_file=Str(), _array_type=Str(), _array_name=Str(), _length_type=Str(), _length_name=Str(), _columns_count=Int(),
         _header_file=Str(), _footer_file=Str(), _no_length=Bool(), _no_const=Bool(), _indentation_character=Str(), _indentation_count=Int(), _indentation=Str())

c = Contract(FC, "KeyConverter.__init__", ["C15"])
c.param("self", Obj(FC, "KeyConverter"))
for n_ in _CONV_STR[:6]:  # (parameters in the order of the real signature)
    c.param(n_, Str())
c.param("columns_count", Int())
c.param("header_file", Str())
c.param("footer_file", Str())
c.param("indentation_count", OneOf(0, 1, 2, 4, 8, -1))
c.param("indentation_tab", Bool())
c.param("no_length", Bool())
c.param("no_const", Bool())
c.variants = [("init", {})]
c.returns("every_option_is_stored_in_its_attribute",
          " and ".join(f"self._{n} == {n}" for n in _CONV_STR + ("columns_count", "indentation_count", "no_length", "no_const")))
c.returns("indentation_is_count_times_the_chosen_character", "self._indentation == ('\\t' if indentation_tab else ' ') * indentation_count")
c.returns("validated", "columns_count > 0 and indentation_count >= 0")
c.raises("ValueError")
c.raises("FileNotFoundError")

c = Contract(FC, "KeyConverter._prepare_array_definition", ["C15"])
c.param("self", KC)
c.variants = [("definition", {})]
c.returns("declares_the_named_array_of_the_named_type", "result == ('' if self._no_const else 'const ') + self._array_type + ' ' + self._array_name + '[] = {' + '\\n'")

c = Contract(FC, "KeyConverter._prepare_length_variable", ["C15"])
c.param("self", KC)
c.variants = [("length", {})]
c.returns("absent_when_not_wanted", "not self._no_length or result == ''")
c.returns("length_is_sizeof_the_declared_array",
          "self._no_length or result == '\\n' + ('' if self._no_const else 'const ') + self._length_type + ' ' + self._length_name + ' = ' "
          "+ ('' if self._length_type == 'size_t' else '(' + self._length_type + ') ') + 'sizeof(' + self._array_name + ');' + '\\n'")


def _gen_setup(it, env):
    def piece(name):
        return C00.recording_summary(name, (), result=lambda it_: it_.fresh_str(name.split(".")[-1]))
    it.call_site_summaries = {n: piece(n) for n in ("KeyConverter._prepare_header", "KeyConverter._prepare_array_definition", "KeyConverter._prepare_array",
                                                    "KeyConverter._prepare_array_variable_end", "KeyConverter._prepare_length_variable", "KeyConverter._prepare_footer")}


c = Contract(FC, "KeyConverter.generate_c_file", ["C15"])
c.param("self", KC)
c.variants = [("file", {})]
c.setup = _gen_setup


def _gen_checks(it, ctx):
    import z3
    if ctx.outcome != "return":
        return None
    order = ["KeyConverter._prepare_header", "KeyConverter._prepare_array_definition", "KeyConverter._prepare_array", "KeyConverter._prepare_array_variable_end",
             "KeyConverter._prepare_length_variable", "KeyConverter._prepare_footer"]
    calls = [t for t in it.trace if t[0] == "call" and t[1] in order]
    ok = [t[1] for t in calls] == order and all(t[2]["self"] is ctx.arg("self") for t in calls)
    goals = [("every_part_is_produced_once_in_order_for_this_converter", z3.BoolVal(ok))]
    if ok:
        text = calls[0][3].e
        for t in calls[1:]:
            text = z3.Concat(text, t[3].e)
        ctx.env.set("OUT", ctx.old("self").attrs["_output_file"])
        goals.append(("output_file_holds_the_parts_in_order", ctx.eval("TEXTFILE(OUT)").e == text))
    return goals


c.check("file", _gen_checks)
c.raises("FileNotFoundError")

# ================================================================================================
# B — bounded stand-in: cmd_keys.main / cmd_convert.main on real keys; oracle: cryptography's X9.62 point / raw encodings
# ================================================================================================
def _parse_c(text, array_name="key_buf", length_name="key_len"):
    """Bytes of the C array and the right-hand side of the length variable."""
    import re
    m = re.search(r"%s\[\]\s*=\s*\{(.*?)\};" % re.escape(array_name), text, re.S)
    if not m:
        return None, None
    body = m.group(1)
    toks = [t.strip() for t in body.replace("\n", " ").split(",")]
    if any(t == "" for t in toks[:-1]) or toks[-1] == "":
        return "trailing-or-empty-token", None
    try:
        data = bytes(int(t, 16) for t in toks)
    except ValueError:
        return "bad-token", None
    if any(not re.fullmatch(r"0x[0-9a-f]{2}", t) for t in toks):
        return "bad-token-format", None
    lm = re.search(r"%s\s*=\s*(.*?);" % re.escape(length_name), text)
    return data, (lm.group(1) if lm else None)


def _expected_public(key):
    from cryptography.hazmat.primitives import serialization as ser
    from cryptography.hazmat.primitives.asymmetric import ec
    pub = key.public_key()
    if isinstance(pub, ec.EllipticCurvePublicKey):
        return pub.public_bytes(ser.Encoding.X962, ser.PublicFormat.UncompressedPoint)[1:]
    return pub.public_bytes(ser.Encoding.Raw, ser.PublicFormat.Raw)


def bounded(ctx):
    import importlib, os
    from bounded.harness import Bounded
    from cryptography.hazmat.primitives.asymmetric import ec, ed25519, ed448
    from cryptography.hazmat.primitives import serialization as ser
    quick = ctx["tier"] == "quick"
    B = Bounded(ctx, rule="(a) cmd_keys.main for 5 key types x 2 encodings x 2x2 format options: files load with cryptography's standard loaders and the "
                          "public file is the public key of the private file, or the combination is reported as GeneratorError; (b) cmd_convert.main: "
                          "array bytes == X9.62 X||Y / raw key, length variable == sizeof(array), for keys incl. leading-zero coordinates and layout options; "
                          "distinct by (type, options)",
                bound="40 format combinations; keys: 3 random + a searched leading-zero-coordinate key per NIST curve, Ed25519, Ed448; columns 1..40,63,64,95,96,131,132,160; "
                      "indentation 0..8 x {space, tab}; +-const, +-length", budget_s=90 if quick else 900)
    keysmod = importlib.import_module("suit_generator.cmd_keys")
    conv = importlib.import_module("suit_generator.cmd_convert")
    GeneratorError = importlib.import_module("suit_generator.exceptions").GeneratorError
    d = B.fresh_dir("k")
    # ---- (a) key pair generation ---------------------------------------------------------------------------
    for t in TYPES:
        for enc in ("pem", "der"):
            for pf in ("pkcs1", "pkcs8"):
                for pubf in ("default", "pkcs1"):
                    case = {"type": t, "encoding": enc, "private_format": pf, "public_format": pubf}
                    B.case(("keys", t, enc, pf, pubf), sample=case if (t, enc, pf, pubf) == ("secp521r1", "der", "pkcs8", "default") else None)
                    prefix = f"{d}/{t}_{enc}_{pf}_{pubf}"
                    try:
                        keysmod.main(prefix, t, enc, pf, pubf, "none")
                    except GeneratorError:
                        if os.path.exists(f"{prefix}_priv.{enc}") or os.path.exists(f"{prefix}_pub.{enc}"):
                            B.fail("nothing-written-on-unsupported-combination", case, "file written although the combination was refused")
                        # which combinations the library refuses: RSA-style PKCS1 public format is never valid for these keys;
                        # TraditionalOpenSSL private format is invalid for EdDSA keys
                        if not (pubf == "pkcs1" or (pf == "pkcs1" and t.startswith("ed"))):
                            B.fail("supported-combination-works", case, "a standard combination was refused")
                        continue
                    except Exception as e:  # noqa: BLE001
                        B.fail("unsupported-combination-reported-as-error", case, f"{type(e).__name__}: {e}")
                        continue
                    try:
                        priv_raw = open(f"{prefix}_priv.{enc}", "rb").read()
                        pub_raw = open(f"{prefix}_pub.{enc}", "rb").read()
                        priv = (ser.load_pem_private_key if enc == "pem" else ser.load_der_private_key)(priv_raw, None)
                        pub = (ser.load_pem_public_key if enc == "pem" else ser.load_der_public_key)(pub_raw)
                    except Exception as e:  # noqa: BLE001
                        B.fail("files-load-with-standard-tooling", case, f"{type(e).__name__}: {e}")
                        continue
                    want = {"secp256r1": ("ec", 256), "secp384r1": ("ec", 384), "secp521r1": ("ec", 521), "ed25519": ("ed25519", None), "ed448": ("ed448", None)}[t]
                    got = ("ec", priv.key_size) if isinstance(priv, ec.EllipticCurvePrivateKey) else ("ed25519", None) if isinstance(priv, ed25519.Ed25519PrivateKey) else ("ed448", None)
                    if got != want:
                        B.fail("requested-key-type", case, f"generated {got}, requested {want}")
                    F = ser.PublicFormat.SubjectPublicKeyInfo
                    if priv.public_key().public_bytes(ser.Encoding.DER, F) != pub.public_bytes(ser.Encoding.DER, F):
                        B.fail("pair-belongs-together", case, "public key file is not the public key of the private key file")
    # ---- (b) convert ------------------------------------------------------------------------------------------
    def nist_keys(curve):
        ks = [ec.generate_private_key(curve) for _ in range(2)]
        w = (curve.key_size + 7) // 8
        for _ in range(4000):  # a key whose X or Y has a leading zero byte (probability ~1/128 per key; P-521: top byte is 0/1)
            k = ec.generate_private_key(curve)
            n = k.public_key().public_numbers()
            if n.x < 256 ** (w - 1) or n.y < 256 ** (w - 1):
                ks.append(k)
                break
        return ks
    keys = {"p256": nist_keys(ec.SECP256R1()), "p384": nist_keys(ec.SECP384R1()), "p521": nist_keys(ec.SECP521R1()) + [ec.generate_private_key(ec.SECP521R1()) for _ in range(4)],
            "ed25519": [ed25519.Ed25519PrivateKey.generate() for _ in range(2)], "ed448": [ed448.Ed448PrivateKey.generate() for _ in range(2)]}
    columns = list(range(1, 41)) + [63, 64, 95, 96, 131, 132, 160]
    n = 0
    for kind, ks in keys.items():
        for ki, key in enumerate(ks):
            pem = f"{d}/{kind}_{ki}.pem"
            open(pem, "wb").write(key.private_bytes(ser.Encoding.PEM, ser.PrivateFormat.PKCS8, ser.NoEncryption()))
            exp = _expected_public(key)
            cols = columns if ki == len(ks) - 1 or ki == 0 else columns[::9]
            for col in cols:
                if B.out_of_time():
                    break
                n += 1
                ind, tab, no_len, no_const = (n * 3) % 9, n % 2 == 1, n % 7 == 0, n % 5 == 0
                # array / length types and names: defaults and non-default values, alone and TOGETHER (the length variable must be sizeof of the array that is defined)
                atype, aname, ltype, lname = [("uint8_t", "key_buf", "size_t", "key_len"), ("unsigned char", "public_key", "uint32_t", "public_key_len"), ("uint8_t", "k", "size_t", "n_bytes"),
                                              ("uint8_t", "pubKey_1", "unsigned int", "key_len"), ("uint8_t", "key_buf", "uint16_t", "LEN"), ("uint8_t", "other_buf", "size_t", "key_len")][n % 6]
                case = {"key": kind, "key_index": ki, "columns": col, "indent": ind, "tab": tab, "no_length": no_len, "no_const": no_const, "leading_zero": exp[0] == 0 or exp[len(exp) // 2] == 0,
                        "array": f"{atype} {aname}", "length": f"{ltype} {lname}"}
                B.case(("convert", kind, ki, col), sample=case if n in (1, 50) else None)
                out = f"{d}/out.c"
                try:
                    conv.main(pem, out, atype, aname, ltype, lname, col, "", "", ind, tab, no_len, no_const)
                    text = open(out).read()
                except Exception as e:  # noqa: BLE001
                    B.fail("convert-succeeds", case, f"{type(e).__name__}: {e}")
                    continue
                data, length_rhs = _parse_c(text, aname, lname)
                if not isinstance(data, bytes):
                    B.fail("c-array-well-formed", case, f"array not parseable: {data}")
                    continue
                if data != exp:
                    B.fail("array-is-exact-public-key", case, f"{len(data)} bytes emitted, expected {len(exp)}-byte X||Y/raw key; first difference at {next((i for i, (a, b) in enumerate(zip(data, exp)) if a != b), min(len(data), len(exp)))}")
                if not no_len and (length_rhs is None or f"sizeof({aname})" not in length_rhs):
                    B.fail("length-variable-is-sizeof-array", case, f"length variable: {length_rhs!r}")
                if ("const " in text.split(aname + "[")[0]) == no_const:
                    B.fail("layout-options-affect-formatting-only", case, "const modifier does not follow --no-const")
                if n % 5 == 0:
                    # history on ONE converter object (library use): preparing the text more than once, then writing the file, gives the same text every time
                    try:
                        kc = conv.KeyConverter(pem, out, atype, aname, ltype, lname, col, "", "", ind, tab, no_len, no_const)
                        t1, t2 = kc.prepare_file_contents(), kc.prepare_file_contents()
                        kc.generate_c_file()
                        t3 = open(out).read()
                        if not (t1 == t2 == t3 == text):
                            B.fail("array-is-exact-public-key", dict(case, same_converter_used_three_times=True),
                                   f"one KeyConverter gives different texts on repeated use: lengths {len(t1)}, {len(t2)}, {len(t3)} vs {len(text)} from a fresh converter")
                    except Exception as e:  # noqa: BLE001
                        B.fail("convert-succeeds", dict(case, same_converter_used_three_times=True), f"{type(e).__name__}: {e}")
                lines = [l for l in text.splitlines() if l.strip().startswith("0x")]
                if any(len(l.split(",")) - (1 if l.rstrip().endswith(",") else 0) > col for l in lines):
                    B.fail("layout-options-affect-formatting-only", case, "a row holds more than `columns` bytes")
    return B.done()


ASSUMPTIONS = ["cryptography key generation / (de)serialisation: generate_private_key requires a curve instance; public_numbers: 0 <= x, y < 2**key_size",
               "which format combinations are unsupported is the library's behaviour (decided by running all 40)"]
