"""C16 — Update-candidate info and DFU partition images describe the envelope file (contracts)."""
from pyvc.contract import Contract
from pyvc.types import Int, Bool, Bytes, Str, Obj, PathStr, OneOf

PROPERTY = "C16"
LEVEL = "proof"
F = "suit_generator/cmd_image.py"
COUNTS = OneOf(*range(0, 17))  # the property's own range of cache counts, each explored (complete for 0..16)

RECORD = ("le(0x55AA55AA, 4) + le(1, 4) + le(dfu_partition_address, 4) + le({size}, 4) + zeros(8 * dfu_max_caches)")

c = Contract(F, "ImageCreator._prepare_suit_storage_struct_format", ["C16"])
c.param("dfu_max_caches", COUNTS)
c.returns("format", "result == '<' + 'I' * (4 + 2 * dfu_max_caches)")
c.result(Str())

c = Contract(F, "ImageCreator._prepare_update_candidate_info_for_update", ["C16"])
c.param("dfu_partition_address", Int())
c.param("candidate_size", Int())
c.param("dfu_max_caches", COUNTS)
c.requires("addr32", "0 <= dfu_partition_address < 2**32")
c.requires("size32", "0 <= candidate_size < 2**32")
c.returns("record", "result == " + RECORD.format(size="candidate_size"))
c.returns("length", "len(result) == 16 + 8 * dfu_max_caches")
c.result(Bytes())

c = Contract(F, "ImageCreator._create_suit_storage_file_for_update", ["C16"])
c.param("dfu_partition_address", Int())
c.param("update_candidate_size", Int())
c.param("update_candidate_info_address", Int())
c.param("file_name", PathStr())
c.param("dfu_max_caches", COUNTS)
c.requires("addr32", "0 <= dfu_partition_address < 2**32")
c.requires("size32", "0 <= update_candidate_size < 2**32")
c.requires("uci32", "0 <= update_candidate_info_address and update_candidate_info_address + 16 + 8 * dfu_max_caches <= 2**32")
c.returns("only_record", "HEXMAP(FILE(file_name)) == HEX_PUT(HEX_EMPTY(), update_candidate_info_address, "
                         + RECORD.format(size="update_candidate_size") + ")")
c.raises("FileNotFoundError")  # output directory missing

c = Contract(F, "ImageCreator._create_dfu_partition_hex_file", ["C16"])
c.param("input_file", PathStr())
c.param("dfu_partition_output_file", PathStr())
c.param("dfu_partition_address", Int())
c.requires("distinct", "input_file != dfu_partition_output_file")
c.requires("addr32", "0 <= dfu_partition_address < 2**32 and len(FILE(input_file)) < 2**32 "
                      "and dfu_partition_address + len(FILE(input_file)) <= 2**32")
c.returns("envelope_bytes", "HEXMAP(FILE(dfu_partition_output_file)) == HEX_PUT(HEX_EMPTY(), dfu_partition_address, old(FILE(input_file)))")
c.returns("input_existed", "old(EXISTS(input_file))")
c.raises("GeneratorError")

c = Contract(F, "ImageCreator.create_files_for_update", ["C16"])
c.param("input_file", PathStr())
c.param("storage_output_file", PathStr())
c.param("dfu_partition_output_file", PathStr())
c.param("update_candidate_info_address", Int())
c.param("dfu_partition_address", Int())
c.param("dfu_max_caches", COUNTS)
c.requires("distinct", "input_file != storage_output_file and input_file != dfu_partition_output_file "
                       "and storage_output_file != dfu_partition_output_file")
c.requires("addr32", "0 <= dfu_partition_address < 2**32 and len(FILE(input_file)) < 2**32 "
                      "and dfu_partition_address + len(FILE(input_file)) <= 2**32")
c.requires("uci32", "0 <= update_candidate_info_address and update_candidate_info_address + 16 + 8 * dfu_max_caches <= 2**32")
c.returns("storage", "HEXMAP(FILE(storage_output_file)) == HEX_PUT(HEX_EMPTY(), update_candidate_info_address, "
                     + RECORD.format(size="len(old(FILE(input_file)))") + ")")
c.returns("partition", "HEXMAP(FILE(dfu_partition_output_file)) == HEX_PUT(HEX_EMPTY(), dfu_partition_address, old(FILE(input_file)))")
c.raises("GeneratorError", when="not EXISTS(input_file)", must=True, label="missing_input")
c.raises("GeneratorError", label="unwritable_output")
c.raises("FileNotFoundError", label="unwritable_storage_output")
