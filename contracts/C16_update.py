"""C16 — Update-candidate info and DFU partition images describe the envelope file (contracts)."""
from pyvc.contract import Contract
from pyvc.types import Int, Bool, Bytes, Str, Obj, PathStr, OneOf, Opt, Const

PROPERTY = "C16"
LEVEL = "proof"
F = "suit_generator/cmd_image.py"
COUNTS = OneOf(*range(0, 17))  # the property's own range of cache counts, each explored (complete for 0..16)

RECORD = ("le(0x55AA55AA, 4) + le(1, 4) + le(dfu_partition_address, 4) + le({size}, 4) + zeros(8 * dfu_max_caches)")

c = Contract(F, "ImageCreator._prepare_suit_storage_struct_format", ["C16"])
c.param("dfu_max_caches", COUNTS)
c.returns("format", "result == '<' + 'I' * (4 + 2 * dfu_max_caches)")
c.result(Str())

c = Contract(F, "ImageCreator._prepare_update_candidate_info_for_update", ["C16"])
c.param("dfu_partition_address", Int())
c.param("candidate_size", Int())
c.param("dfu_max_caches", COUNTS)
c.requires("addr32", "0 <= dfu_partition_address < 2**32")
c.requires("size32", "0 <= candidate_size < 2**32")
c.returns("record", "result == " + RECORD.format(size="candidate_size"))
c.returns("length", "len(result) == 16 + 8 * dfu_max_caches")
c.result(Bytes())

c = Contract(F, "ImageCreator._create_suit_storage_file_for_update", ["C16"])
c.param("dfu_partition_address", Int())
c.param("update_candidate_size", Int())
c.param("update_candidate_info_address", Int())
c.param("file_name", PathStr())
c.param("dfu_max_caches", COUNTS)
c.requires("addr32", "0 <= dfu_partition_address < 2**32")
c.requires("size32", "0 <= update_candidate_size < 2**32")
c.requires("uci32", "0 <= update_candidate_info_address and update_candidate_info_address + 16 + 8 * dfu_max_caches <= 2**32")
c.returns("only_record", "HEXMAP(FILE(file_name)) == HEX_PUT(HEX_EMPTY(), update_candidate_info_address, "
                         + RECORD.format(size="update_candidate_size") + ")")
c.raises("FileNotFoundError")  # output directory missing

c = Contract(F, "ImageCreator._create_dfu_partition_hex_file", ["C16"])
c.param("input_file", PathStr())
c.param("dfu_partition_output_file", PathStr())
c.param("dfu_partition_address", Int())
c.requires("distinct", "input_file != dfu_partition_output_file")
c.requires("addr32", "0 <= dfu_partition_address < 2**32 and len(FILE(input_file)) < 2**32 "
                      "and dfu_partition_address + len(FILE(input_file)) <= 2**32")
c.returns("envelope_bytes", "HEXMAP(FILE(dfu_partition_output_file)) == HEX_PUT(HEX_EMPTY(), dfu_partition_address, old(FILE(input_file)))")
c.returns("input_existed", "old(EXISTS(input_file))")
c.raises("GeneratorError")

c = Contract(F, "ImageCreator.create_files_for_update", ["C16"])
c.param("input_file", PathStr())
c.param("storage_output_file", PathStr())
c.param("dfu_partition_output_file", PathStr())
c.param("update_candidate_info_address", Int())
c.param("dfu_partition_address", Int())
c.param("dfu_max_caches", COUNTS)
c.requires("distinct", "input_file != storage_output_file and input_file != dfu_partition_output_file "
                       "and storage_output_file != dfu_partition_output_file")
c.requires("addr32", "0 <= dfu_partition_address < 2**32 and len(FILE(input_file)) < 2**32 "
                      "and dfu_partition_address + len(FILE(input_file)) <= 2**32")
c.requires("uci32", "0 <= update_candidate_info_address and update_candidate_info_address + 16 + 8 * dfu_max_caches <= 2**32")
c.returns("storage", "HEXMAP(FILE(storage_output_file)) == HEX_PUT(HEX_EMPTY(), update_candidate_info_address, "
                     + RECORD.format(size="len(old(FILE(input_file)))") + ")")
c.returns("partition", "HEXMAP(FILE(dfu_partition_output_file)) == HEX_PUT(HEX_EMPTY(), dfu_partition_address, old(FILE(input_file)))")
c.raises("GeneratorError", when="not EXISTS(input_file)", must=True, label="missing_input")
c.raises("GeneratorError", label="unwritable_output")
c.raises("FileNotFoundError", label="unwritable_storage_output")


# ------------------------------------------------------------------------------------------------
# The command entry point cmd_image.main: arguments are passed on BY POSITION - which named argument lands in which parameter of
# create_files_for_update / create_files_for_boot is part of the statement (two addresses or two file names swapped would still run).
import contracts.C00_common as C00  # noqa: E402


def _image_main_setup(it, env):
    it.call_site_summaries = {"ImageCreator.create_files_for_update": C00.recording_summary("ImageCreator.create_files_for_update", ("GeneratorError", "FileNotFoundError")),
                              "ImageCreator.create_files_for_boot": C00.recording_summary("ImageCreator.create_files_for_boot", ("GeneratorError", "SUITError", "ValueError", "KeyError", "SystemExit"))}


c = Contract(F, "main", ["C16", "C07"])
c.param("image", Const("update"))
c.param("input_file", Str())
c.param("storage_output_file", Str())
c.param("dfu_partition_output_file", Str())
c.param("update_candidate_info_address", Int())
c.param("dfu_partition_address", Int())
c.param("dfu_max_caches", Int())
c.param("storage_output_directory", Str())
c.param("storage_address", Int())
c.param("config_file", Opt(Str()))
c.variants = [("update", {}), ("boot", {"image": Const("boot")})]
c.call_by_keyword = True
c.setup = _image_main_setup


def _image_main_checks(it, ctx):
    import z3
    if ctx.outcome != "return":
        return None
    up, bo = C00.calls_of(it, "ImageCreator.create_files_for_update"), C00.calls_of(it, "ImageCreator.create_files_for_boot")
    if ctx.arg("image").conc == "update":
        goals = [("update_runs_once_and_boot_does_not", z3.BoolVal(len(up) == 1 and not bo))]
        if len(up) == 1:
            goals += C00.reaches(up[0], ctx, [(n, n) for n in ("input_file", "storage_output_file", "dfu_partition_output_file", "update_candidate_info_address",
                                                                "dfu_partition_address", "dfu_max_caches")])
        return goals
    goals = [("boot_runs_once_and_update_does_not", z3.BoolVal(len(bo) == 1 and not up))]
    if len(bo) == 1:
        goals += C00.reaches(bo[0], ctx, [("input_files", "input_file"), ("storage_output_directory", "storage_output_directory"), ("storage_address", "storage_address"),
                                           ("config_file", "config_file")])
    return goals


c.check("entry", _image_main_checks)
for e_ in ("GeneratorError", "FileNotFoundError", "SUITError", "ValueError", "KeyError", "SystemExit"):
    c.raises(e_)

# ================================================================================================
# B — bounded stand-in through cmd_image.main(image="update"), both hex files read back with the independent HEX reader
# (the Intel-HEX record encoding - extended addressing - is inside the IntelHex assumption of the P part)
# ================================================================================================
def bounded(ctx):
    import importlib
    from bounded.harness import Bounded
    from bounded import hexread
    quick = ctx["tier"] == "quick"
    B = Bounded(ctx, rule="cmd_image.main(image='update') for envelope file sizes 0, 1, 2, 65535, 65536, 65537 (+ multi-segment), addresses crossing 64 KiB and 16 MiB-aligned "
                          "extended-address boundaries and at the top of the 32-bit space, cache counts 0..16; a history in ONE process that re-generates from the same path with "
                          "a different size and different addresses; both hex files read back: storage holds ONLY the record, partition holds exactly the file bytes; distinct by case",
                bound="6+ sizes x 7 address pairs x cache counts 0..16 (quick: 0, 1, 6, 15, 16), then an 8-step same-path history", budget_s=60 if quick else 300)
    img = importlib.import_module("suit_generator.cmd_image")
    d = B.fresh_dir("c16")

    def run_and_check(path, size, uci, dfu, caches, case, label_suffix=""):
        so, po = f"{d}/storage.hex", f"{d}/dfu.hex"
        try:
            img.main(image="update", input_file=path, storage_output_file=so, dfu_partition_output_file=po, update_candidate_info_address=uci,
                     dfu_partition_address=dfu, dfu_max_caches=caches)
        except Exception as e:  # noqa: BLE001
            B.fail("update-image-generation-succeeds" + label_suffix, case, f"{type(e).__name__}: {e}")
            return
        data = open(path, "rb").read()
        want = (0x55AA55AA).to_bytes(4, "little") + (1).to_bytes(4, "little") + dfu.to_bytes(4, "little") + size.to_bytes(4, "little") + bytes(8 * caches)
        mem = hexread.parse_file(so)
        got = bytes(mem.get(uci + i, 0) & 0xFF for i in range(len(want)))
        if set(mem) != set(range(uci, uci + len(want))) or got != want:
            B.fail("storage-file-holds-only-the-update-candidate-record" + label_suffix, case, f"{len(mem)} bytes, record {got[:16].hex()} expected {want[:16].hex()} (+{8 * caches} zero bytes)")
        pm = hexread.parse_file(po) if size else (hexread.parse_file(po) if __import__("os").path.getsize(po) else {})
        gotp = bytes(pm.get(dfu + i, 0) & 0xFF for i in range(size))
        if set(pm) != set(range(dfu, dfu + size)) or gotp != data:
            B.fail("partition-file-holds-exactly-the-envelope-bytes" + label_suffix, case, f"{len(pm)} bytes at {hex(min(pm)) if pm else '-'}, expected {size} at {hex(dfu)}")

    sizes = [0, 1, 2, 65535, 65536, 65537] + ([] if quick else [200000])
    addrs = [(0x0E1EEC00, 0x0E100000), (0, 0x100), (0xFFF8, 0xFFFF), (0x00FFFFF0, 0x00FFFFFE), (0x0100FFF0, 0x01FF0000), (0xFFFFFF00, 0xFFFE0000), (0x10, 0xFFFFFFFF - 70000)]
    counts = [0, 1, 6, 15, 16] if quick else list(range(17))
    n = 0
    for size in sizes:
        path = f"{d}/env_{size}.suit"
        with open(path, "wb") as fh:
            fh.write(bytes((i * 13 + size) & 0xFF for i in range(size)))
        for uci, dfu in addrs:
            for caches in counts:
                n += 1
                if quick and n % 3 and size not in (0, 65536):
                    continue
                if dfu + size > 2 ** 32 or B.out_of_time():
                    continue
                case = {"size": size, "uci": hex(uci), "dfu": hex(dfu), "caches": caches}
                B.case((size, uci, dfu, caches), sample=case if n in (2, 100) else None)
                run_and_check(path, size, uci, dfu, caches, case)
    # history: the same path, regenerated with other sizes / addresses / counts in one process
    path = f"{d}/same.suit"
    for step, (size, uci, dfu, caches) in enumerate([(694, 0x1000, 0x20000, 4), (1234, 0x1000, 0x20000, 4), (0, 0x1000, 0x20000, 2), (1, 0x3000, 0x20000, 2), (65536, 0x3000, 0x40000, 0),
                                                      (65537, 0x1000, 0x20000, 6), (10, 0x1000, 0x20000, 1), (694, 0x5000, 0x60000, 16)]):
        with open(path, "wb") as fh:
            fh.write(bytes((i * 7 + step) & 0xFF for i in range(size)))
        case = {"history_step": step, "size": size, "uci": hex(uci), "dfu": hex(dfu), "caches": caches}
        B.case(("history", step))
        run_and_check(path, size, uci, dfu, caches, case, label_suffix="-in-a-history")
    return B.done()
