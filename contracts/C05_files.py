"""C05 — Digests, sizes and payloads taken from files describe those exact files (contracts + bounded stand-in)."""
import z3
from pyvc.contract import Contract
from pyvc.types import Int, Bool, Bytes, Str, Obj, PathStr, OneOf, ListT, NoneT, Const, DictT, ClsT, Computed
from pyvc import symdesc as SD
import contracts.C01_digests as C01

PROPERTY = "C05"
LEVEL = "proof"
FSEC = "suit_generator/suit/security.py"
FMAN = "suit_generator/suit/manifest.py"
FPAY = "suit_generator/suit/payloads.py"
ALGS = OneOf(*C01.ALG)

# ------------------------------------------------------------------------------------------------
c = Contract(FSEC, "SuitDigestExt.from_obj", ["C05", "C18"])
c.param("cls", ClsT(FSEC, "SuitDigestExt"))
c.param("obj", DictT())
c.variants = [
    ("file", {"obj": DictT(required={"suit-digest-algorithm-id": ALGS, "suit-digest-bytes": DictT(required={"file": PathStr()})})}),
    ("file_direct", {"obj": DictT(required={"suit-digest-algorithm-id": ALGS, "suit-digest-bytes": DictT(required={"file_direct": PathStr()})})}),
    ("raw", {"obj": DictT(required={"suit-digest-algorithm-id": ALGS, "suit-digest-bytes": DictT(required={"raw": Str()})})}),
    ("plain-hex", {"obj": DictT(required={"suit-digest-algorithm-id": ALGS, "suit-digest-bytes": Str()})}),
    ("no-bytes", {"obj": DictT(required={"suit-digest-algorithm-id": ALGS})}),
]
c.let("form", "obj['suit-digest-bytes'] if 'suit-digest-bytes' in obj else None")
c.let("alg", "obj['suit-digest-algorithm-id']")
c.post_let("digest", "result.SuitDigestRaw[1].SuitDigestBytes")
c.returns("file_is_hashed_with_the_named_algorithm", "not (isinstance(form, dict) and 'file' in form) or digest == hash_by_name(alg, old(FILE(form['file'])))")
c.returns("file_direct_is_the_file_content", "not (isinstance(form, dict) and 'file' not in form and 'file_direct' in form) or digest == old(FILE(form['file_direct']))")
c.returns("raw_is_the_given_hex", "not (isinstance(form, dict) and 'raw' in form) or digest == UNHEX(form['raw'])")
c.returns("plain_hex", "not isinstance(form, str) or digest == UNHEX(form)")
c.returns("algorithm_kept", "result.SuitDigestRaw[0].SuitCoseHashAlg == alg")
# the only permitted mutation of the caller's description: the digest entry is replaced by the (hex of the) computed value (C18)
c.returns("description_mutation_is_the_digest_entry_only", "obj['suit-digest-algorithm-id'] == alg and len(obj) == 2 and UNHEX(obj['suit-digest-bytes']) == digest")
c.raises("ValueError")
c.raises("FileNotFoundError")
c.callers_inline = True

# ------------------------------------------------------------------------------------------------
c = Contract(FMAN, "SuitImageSize.from_obj", ["C05"])
c.param("cls", ClsT(FMAN, "SuitImageSize"))
c.param("obj", DictT())
c.variants = [
    ("raw", {"obj": DictT(required={"raw": Int(0, 2 ** 64 - 1)})}),
    ("file", {"obj": DictT(required={"file": PathStr()})}),
    ("file_direct", {"obj": DictT(required={"file_direct": PathStr()})}),
]
c.returns("raw", "'raw' not in obj or result.SuitImageSize == obj['raw']")
c.returns("file_length", "'raw' in obj or 'file' not in obj or result.SuitImageSize == len(old(FILE(obj['file'])))")
c.returns("file_direct_is_the_decimal_in_the_file", "'raw' in obj or 'file' in obj or 'file_direct' not in obj or not old(TEXTFILE(obj['file_direct'])).isdecimal() "
          "or result.SuitImageSize == int(old(TEXTFILE(obj['file_direct'])))")
c.raises("ValueError")
c.raises("FileNotFoundError")
c.callers_inline = True

# ------------------------------------------------------------------------------------------------
c = Contract(FPAY, "SuitIntegratedPayloadMap.from_obj", ["C05"])
c.param("cls", ClsT(FPAY, "SuitIntegratedPayloadMap"))
c.param("obj", DictT())
c.variants = [
    ("hex", {"obj": DictT(required={"#a": Str()})}),
    ("path", {"obj": DictT(required={"#a": PathStr()})}),
    ("two", {"obj": DictT(required={"#a": PathStr(exists=True), "#b": Str()})}),
]
HEXLIKE = "all(c in '0123456789abcdefABCDEF' for c in {v})"
c.let("va", "obj['#a']")
# a payload given by path contains exactly the file's content.  A name made of hex digits only is taken as hex data BEFORE the
# file test (known finding C05/hex-like file name): the clause is stated for names that are not hex-like.
c.returns("path_payload_is_the_file_content", f"{HEXLIKE.format(v='va')} or not old(EXISTS(va)) or result.SuitIntegratedPayloadMap['#a'][1].SuitHex == old(FILE(va))")
c.returns("hex_payload", f"not {HEXLIKE.format(v='va')} or result.SuitIntegratedPayloadMap['#a'][1].SuitHex == UNHEX(va)")
c.returns("names_kept", "result.SuitIntegratedPayloadMap['#a'][0].SuitTstr == '#a' and len(result.SuitIntegratedPayloadMap) == len(obj)")
c.raises("ValueError")
c.callers_inline = True


# ------------------------------------------------------------------------------------------------
# dependency digest: the parent records HASH(algorithm the PARENT names, the dependency's wrapped manifest) — read off the
# created bytes of the nested shape (C01_digests.shape_nested) through origins
def _dependency_digest_check(it, ctx):
    from pyvc.values import VTag, VDict, VList, VTuple, VBytes, VInt
    from contracts import registry as R
    if ctx.outcome != "return" or not (it.variant_label or "").startswith("nested-dependency"):
        return None
    env = SD.origin(it, ctx.result)
    try:
        d = env.value.entries
        manifest = SD.origin(it, d[R.id_of("suit_manifest")].value)
        child = SD.origin(it, d["#child"].value)
        child_manifest_bstr = child.value.entries[R.id_of("suit_manifest")].value
        seq = SD.origin(it, manifest.entries[R.id_of("suit_install")].value)
        params = [x for x in seq.items if isinstance(x, VDict) and R.id_of("suit_parameter_image_digest") in x.entries][0]
        dg = SD.origin(it, params.entries[R.id_of("suit_parameter_image_digest")].value)
        alg, value = dg.items[0].conc, dg.items[1]
    except Exception as e:
        import os
        if os.environ.get("PYVC_DEBUG"):
            import traceback; traceback.print_exc()
        return [("dependency_digest_over_its_wrapped_manifest", None)]
    goals = [("dependency_digest_over_its_wrapped_manifest", value.e == C01._hash_of_wrapped(it, alg, child_manifest_bstr).e)]
    # ... the same bytes the dependency's own authentication wrapper digests (under ITS algorithm)
    w = SD.origin(it, child.value.entries[R.id_of("suit_authentication_wrapper")].value)
    cd = SD.origin(it, w.items[0])
    goals.append(("dependency_wrapper_digests_the_same_bytes", cd.items[1].e == C01._hash_of_wrapped(it, cd.items[0].conc, child_manifest_bstr).e))
    return goals


from pyvc.contract import REGISTRY
REGISTRY[(C01.FIO, "InputOutputMixin.prepare_suit_data")].check("dependency_digest", _dependency_digest_check)

# a dependency given by path is embedded byte-identically (the file is what creating it on its own produced)
_rp = REGISTRY[(C01.FENV, "SuitBasicEnvelopeOperationsMixin.return_processed_binary_data")]
_rp.variants = list(_rp.variants) + [("path", {"obj": PathStr(exists=True)})]
_rp.returns("path_form_returns_the_file_bytes", "not isinstance(obj, str) or result == old(FILE(obj))")


# ================================================================================================
# B — bounded stand-in through cmd_create.main with real files
# ================================================================================================
def _create(desc, d, fmt="json"):
    import importlib, json, yaml
    cmd = importlib.import_module("suit_generator.cmd_create")
    inp, out = f"{d}/in.{fmt}", f"{d}/out.suit"
    with open(inp, "w") as fh:
        (json.dump if fmt == "json" else yaml.safe_dump)(desc, fh)
    cmd.main(input_file=inp, output_file=out, input_format="AUTO")
    return open(out, "rb").read()


def _base_desc(install):
    return {"SUIT_Envelope_Tagged": {
        "suit-authentication-wrapper": {"SuitDigest": {"suit-digest-algorithm-id": "cose-alg-sha-256", "suit-digest-bytes": ""}},
        "suit-manifest": {"suit-manifest-version": 1, "suit-manifest-sequence-number": 1,
                          "suit-common": {"suit-components": [["M", 1]]}, "suit-install": install}}}


def bounded(ctx):
    import os
    from bounded.harness import Bounded
    from bounded import cborx
    from contracts import specs_native as N, registry as R
    quick = ctx["tier"] == "quick"
    B = Bounded(ctx, rule="cmd_create.main on descriptions referring to real files (four digest forms, four size forms, payloads by path / hex / inline, "
                          "dependencies inline and by path at depth 2-3); the envelope is read back with the independent CBOR reader and compared with hashlib / "
                          "file contents; distinct by (form, size, algorithm)",
                bound="file sizes 0,1,23,24,255,256,65535,65536; 5 algorithms; hex-like file names cafe/00/abc; dependency depth <= 3", budget_s=60 if quick else 600)
    d = B.fresh_dir("w")
    sizes = [0, 1, 23, 24, 255, 256, 65535, 65536]
    algs = list(R.HASHES.items())
    names = {-16: "cose-alg-sha-256", -18: "cose-alg-shake128", -43: "cose-alg-sha-384", -44: "cose-alg-sha-512", -45: "cose-alg-shake256"}

    def params_of(env_bytes):
        t = cborx.decode_all(env_bytes, strict=True)
        m = cborx.decode_all(t.value.get(3), strict=True)
        seq = cborx.decode_all(m.get(20), strict=True)
        return t, m, [x for x in seq if isinstance(x, cborx.Map)]
    for i, size in enumerate(sizes):
        for j, (aid, (hname, hlen)) in enumerate(algs):
            if (i + j) % 2 and quick:
                continue
            data = bytes((k * 11 + size) & 0xFF for k in range(size))
            fpath = f"{d}/img_{size}.bin"
            open(fpath, "wb").write(data)
            dpath = f"{d}/dig_{size}.bin"
            open(dpath, "wb").write(N.HASH(hname, hlen, data))
            spath = f"{d}/size_{size}.txt"
            open(spath, "w").write(str(size))
            for form in ("file", "file_direct", "raw"):
                case = {"form": form, "size": size, "alg": names[aid]}
                B.case((form, size, aid), sample=case if (size, form) == (24, "file") else None)
                dig = {"file": {"file": fpath}, "file_direct": {"file_direct": dpath}, "raw": {"raw": N.HASH(hname, hlen, data).hex()}}[form]
                sz = {"file": {"file": fpath}, "file_direct": {"file_direct": spath}, "raw": {"raw": size}}[form]
                desc = _base_desc([{"suit-directive-override-parameters": {"suit-parameter-image-digest": {"suit-digest-algorithm-id": names[aid], "suit-digest-bytes": dig},
                                                                           "suit-parameter-image-size": sz}}])
                desc["SUIT_Envelope_Tagged"]["suit-integrated-payloads"] = {"#img": fpath}
                try:
                    env = _create(desc, d, "json" if (i + j) % 2 == 0 else "yaml")
                    t, m, ps = params_of(env)
                    got_d = cborx.decode_all(ps[0].get(3), strict=True)
                    if got_d != [aid, N.HASH(hname, hlen, data)]:
                        B.fail("digest-describes-the-file", case, f"recorded {got_d[0]}, {got_d[1].hex()[:16]}..")
                    if ps[0].get(14) != size:
                        B.fail("size-describes-the-file", case, f"recorded size {ps[0].get(14)}")
                    if t.value.get("#img") != data:
                        B.fail("payload-by-path-is-the-file-content", case, "integrated payload differs from the file")
                except Exception as e:  # noqa: BLE001
                    B.fail("create-succeeds", case, f"{type(e).__name__}: {e}")
    # hex-like file names (relative, in the working directory)
    cwd = os.getcwd()
    try:
        os.chdir(d)
        for name in ("cafe", "00", "abc", "payload.bin"):
            open(name, "wb").write(b"\x01\x02\x03content")
            desc = _base_desc([{"suit-directive-fetch": ["suit-send-record-failure"]}])
            desc["SUIT_Envelope_Tagged"]["suit-integrated-payloads"] = {"#p": name}
            case = {"form": "payload-by-path", "file_name": name, "class": "hex-like file name" if all(ch in "0123456789abcdefABCDEF" for ch in name) else "ordinary name"}
            B.case(("hexname", name), sample=case if name == "cafe" else None)
            try:
                env = _create(desc, d)
                got = cborx.decode_all(env, strict=True).value.get("#p")
                if got != b"\x01\x02\x03content":
                    B.fail("payload-by-path-hex-like-name" if all(ch in "0123456789abcdefABCDEF" for ch in name) else "payload-by-path-is-the-file-content", case,
                           f"file {name!r} embedded as {got!r}")
            except Exception as e:  # noqa: BLE001
                B.fail("payload-by-path-hex-like-name" if all(ch in "0123456789abcdefABCDEF" for ch in name) else "create-succeeds", case, f"{type(e).__name__}: {e}")
    finally:
        os.chdir(cwd)
    # dependencies: inline and by path, depth 2 and 3, parent algorithm different from the child's own
    for depth in (2, 3):
        for pa in (-16, -44, -45):
            for how in ("inline", "path"):
                case = {"form": f"dependency-{how}", "depth": depth, "parent_alg": names[pa]}
                B.case(("dep", depth, pa, how), sample=case if (depth, how) == (2, "path") else None)
                try:
                    leaf = _base_desc([{"suit-directive-fetch": ["suit-send-record-failure"]}])
                    leaf["SUIT_Envelope_Tagged"]["suit-authentication-wrapper"]["SuitDigest"]["suit-digest-algorithm-id"] = "cose-alg-sha-384"
                    cur = leaf
                    for lvl in range(depth - 1):
                        child_bytes = _create(cur, d)
                        cpath = f"{d}/child_{lvl}.suit"
                        open(cpath, "wb").write(child_bytes)
                        ref = cur if how == "inline" else cpath
                        parent = _base_desc([{"suit-directive-override-parameters": {
                            "suit-parameter-image-digest": {"suit-digest-algorithm-id": names[pa], "suit-digest-bytes": {"envelope": ref}},
                            "suit-parameter-image-size": {"envelope": ref}}}])
                        parent["SUIT_Envelope_Tagged"]["suit-integrated-dependencies"] = {"#child": ref}
                        # every level also carries its own payload by path: BOTH integrated maps in one envelope, in either order
                        own = bytes([lvl + 1]) * (7 + lvl)
                        opath = f"{d}/own_{lvl}.bin"
                        open(opath, "wb").write(own)
                        if pa == -44:
                            parent["SUIT_Envelope_Tagged"]["suit-integrated-payloads"] = {f"#own{lvl}": opath}
                        else:
                            e0 = parent["SUIT_Envelope_Tagged"]
                            parent["SUIT_Envelope_Tagged"] = {k: v for k, v in e0.items() if k != "suit-integrated-dependencies"}
                            parent["SUIT_Envelope_Tagged"]["suit-integrated-payloads"] = {f"#own{lvl}": opath}
                            parent["SUIT_Envelope_Tagged"]["suit-integrated-dependencies"] = e0["suit-integrated-dependencies"]
                        env = _create(parent, d)
                        t, m, ps = params_of(env)
                        if t.value.get(f"#own{lvl}") != own:
                            B.fail("payload-by-path-is-the-file-content", dict(case, level=lvl), "own payload of a level that also has an integrated dependency is missing or differs from the file")
                        cm = cborx.decode_all(child_bytes, strict=True).value.get(3)
                        want = N.HASH(*R.HASHES[pa], cborx.encode(cm))
                        got_d = cborx.decode_all(ps[0].get(3), strict=True)
                        if got_d != [pa, want]:
                            B.fail("dependency-digest-is-hash-of-its-wrapped-manifest-under-the-parents-algorithm", case, f"level {lvl}: recorded {got_d[0]}/{got_d[1].hex()[:16]}..")
                        if t.value.get("#child") != child_bytes:
                            B.fail("dependency-embedded-byte-identically", case, f"level {lvl}: embedded dependency differs from creating it on its own")
                        if ps[0].get(14) != len(child_bytes):
                            B.fail("dependency-size", case, f"level {lvl}: size {ps[0].get(14)} != {len(child_bytes)}")
                        cur = parent
                except Exception as e:  # noqa: BLE001
                    B.fail("create-succeeds", case, f"{type(e).__name__}: {e}")
    # a dependency file that is a valid envelope but not in shortest-form CBOR is still embedded / measured as the file itself
    child_bytes = _create(_base_desc([{"suit-directive-fetch": ["suit-send-record-failure"]}]), d)
    assert child_bytes[:2] == b"\xd8\x6b"
    noncanon = b"\xd9\x00\x6b" + child_bytes[2:]  # tag 107 with a 2-byte argument
    npath = f"{d}/noncanon.suit"
    open(npath, "wb").write(noncanon)
    parent = _base_desc([{"suit-directive-override-parameters": {"suit-parameter-image-size": {"envelope": npath}}}])
    parent["SUIT_Envelope_Tagged"]["suit-integrated-dependencies"] = {"#child": npath}
    case = {"form": "dependency-path-noncanonical-file"}
    B.case("noncanon", sample=case)
    try:
        env = _create(parent, d)
        t, m, ps = params_of(env)
        if ps[0].get(14) != len(noncanon) or t.value.get("#child") != noncanon:
            B.fail("dependency-by-path-is-the-file-itself", case, f"size {ps[0].get(14)} vs file {len(noncanon)}; embedded identical: {t.value.get('#child') == noncanon}")
    except Exception as e:  # noqa: BLE001
        B.fail("create-succeeds", case, f"{type(e).__name__}: {e}")
    return B.done()


ASSUMPTIONS = ["hashes.Hash, os.path.getsize, open/read are assumed contracts (ghost file system)",
               "dependency given by PATH: the re-parse/re-encode identity on created envelopes is C03's; covered here by the bounded stand-in"]
