"""C08 — Symbolic names and registry codes are in one-to-one correspondence.

E (finite, enumerated completely): the vocabulary and every key-space table are READ from the current source by executing
the class statements of /repo with the path executor, and compared with the pinned registry (contracts/registry.py).
P: the three lookups (by name, by id, enum membership) return exactly the table entry whose name/id equals the key, for a
symbolic key, for every closed key space.
"""
import z3
from pyvc.contract import Contract
from pyvc.types import Int, Str, ClsT, OneOf, Computed
from contracts import registry as R

PROPERTY = "C08"
LEVEL = "proof"
FK = "suit_generator/suit/types/keys.py"
FM = "suit_generator/suit/manifest.py"
FS = "suit_generator/suit/security.py"
FE = "suit_generator/suit/envelope.py"
FC = "suit_generator/suit/types/common.py"

# key space -> (file, class, kind of table)
SPACE_CLASS = {
    "envelope": (FE, "SuitEnvelope", "map"), "manifest": (FM, "SuitManifest", "map"), "common": (FM, "SuitCommon", "map"),
    "condition": (FM, "SuitCondition", "map"), "directive": (FM, "SuitDirective", "map"), "parameter": (FM, "SuitParameters", "map"),
    "text": (FM, "SuitTextKeys", "children"), "text_component": (FM, "SuitTextComponentKeys", "map"), "cose_header": (FS, "SuitHeaderMap", "map"),
    "cose_alg": (FS, "SuitcoseAlg", "children"), "hash_alg": (FS, "SuitCoseHashAlg", "children"), "cwt": (FS, "SuitCwtPayload", "map"),
    "report_policy": (FM, "SuitRepPolicyBits", "children"), "version_comparison": (FM, "SuitParameterVersion", "map"),
    "invoke_args": (FM, "SuitParameterInvokeArgs", "map"), "dependency_metadata": (FM, "SuitDependencyMetadata", "map"),
}
TAG_CLASS = {"SUIT_Envelope_Tagged": (FE, "SuitEnvelopeTagged"), "CoseSign1Tagged": (FS, "CoseSign1Tagged"), "CoseEncryptTagged": (FS, "CoseEncryptTagged")}


def _engine():
    from pyvc.interp import Interp, World
    return Interp(World(), [], {})


def read_table(it, relpath, cls, kind):
    """[(key class name, name, id)] of a class's key table, in table order, read from the executed class statements."""
    ci = it.get_class(relpath, cls)
    md, _ = ci.lookup("_metadata")
    tab = md.attrs[kind]
    from pyvc.values import VDict, VList
    keys = list(tab.entries.keys()) if isinstance(tab, VDict) else list(tab.items)
    out = []
    for k in keys:
        info = k.info
        nm, _ = info.lookup("name")
        idv, _ = info.lookup("id")
        out.append((info.name, nm.conc if nm is not None else None, idv.conc if idv is not None and hasattr(idv, "conc") else None))
    return out


def tables(ctx):
    it = _engine()
    res = []
    # 1. the whole vocabulary of keys.py
    m = it.load_module("suit_generator.suit.types.keys")
    seen = {}
    for name, v in m.ns.vars.items():
        if getattr(v, "info", None) is not None and name != "suit_key" and v.info.module is m:
            nm, _ = v.info.lookup("name")
            idv, _ = v.info.lookup("id")
            seen[name] = (nm.conc if nm is not None else None, getattr(idv, "conc", None) if idv is not None else None)
    for cls, want in R.VOCAB.items():
        got = seen.get(cls)
        res.append((f"vocabulary/{cls}", got == want, {"class": cls, "in_source": got, "registry": want}))
    extra = sorted(set(seen) - set(R.VOCAB))
    res.append(("vocabulary/no-unregistered-names", not extra, {"unregistered": extra}))
    # 2. key spaces: exactly the registered names, distinct names, distinct ids
    for space, (f, cls, kind) in SPACE_CLASS.items():
        tab = read_table(it, f, cls, kind)
        got = [t[0] for t in tab]
        want = R.SPACES[space]
        res.append((f"keyspace/{space}/exactly-the-registered-names", sorted(got) == sorted(want), {"in_source": got, "registry": want}))
        names, ids = [t[1] for t in tab], [t[2] for t in tab]
        res.append((f"keyspace/{space}/names-distinct", len(set(names)) == len(names), {"names": names}))
        res.append((f"keyspace/{space}/ids-distinct", len(set(ids)) == len(ids), {"ids": ids}))
        for cname, nm, idv in tab:
            if cname in R.VOCAB:
                res.append((f"keyspace/{space}/{cname}", (nm, idv) == R.VOCAB[cname], {"in_source": (nm, idv), "registry": R.VOCAB[cname]}))
    # the simplified envelope (used by image boot) has the same member table
    res.append(("keyspace/envelope-simplified", sorted(t[0] for t in read_table(it, FE, "SuitEnvelopeSimplified", "map")) == sorted(R.SPACES["envelope"]), {}))
    # 3. tags
    for tname, (f, cls) in TAG_CLASS.items():
        ci = it.get_class(f, cls)
        md, _ = ci.lookup("_metadata")
        tag = md.attrs["tag"]
        got = (tag.attrs["value"].conc, tag.attrs["name"].conc)
        res.append((f"tag/{tname}", got == (R.TAGS[tname], tname), {"in_source": got, "registry": (R.TAGS[tname], tname)}))
    return res


# ------------------------------------------------------------------------------------------------
# P: lookups with a SYMBOLIC key over each closed key space
MAP_SPACES = [(s, f, cls) for s, (f, cls, kind) in SPACE_CLASS.items() if kind == "map"]
ENUM_SPACES = [(s, f, cls) for s, (f, cls, kind) in SPACE_CLASS.items() if kind == "children"]


def _lookup_check(it, ctx):
    from pyvc.values import VNone, VTuple, VStr
    if ctx.outcome != "return":
        return None
    cls = ctx.arg("cls")
    key = ctx.arg("key")
    attr = ctx.arg("attribute").conc
    md, _ = cls.info.lookup("_metadata")
    entries = list(md.attrs["map"].entries.items())
    res = ctx.result
    goals = []
    hit_any = []
    for k, e in entries:
        a, _ = k.info.lookup(attr)
        eq = (key.e == (z3.StringVal(a.conc) if attr == "name" else z3.IntVal(a.conc))) if a is not None and getattr(a, "conc", None) is not None else z3.BoolVal(False)
        hit_any.append(eq)
        if isinstance(res, VTuple):
            is_this = z3.BoolVal(res.items[0].info is k.info and res.items[1] is e.value or (res.items[0].info is k.info))
            goals.append((f"returns_the_entry_with_that_{attr}", z3.Implies(eq, is_this)))
    if isinstance(res, VNone):
        goals.append((f"none_only_if_no_entry_has_that_{attr}", z3.Not(z3.Or(*hit_any)) if hit_any else z3.BoolVal(True)))
    else:
        goals.append((f"entry_returned_has_that_{attr}", z3.Or(*[z3.And(eq, z3.BoolVal(res.items[0].info is k.info)) for (k, e), eq in zip(entries, hit_any)])))
    return goals


c = Contract(FC, "SuitKeyValue._get_method_and_name", ["C08"])
c.param("cls", ClsT(FM, "SuitManifest"))
c.param("key", Str())
c.param("attribute", OneOf("name"))
c.variants = ([(f"{s}/by-name", {"cls": ClsT(f, cls), "key": Str(), "attribute": OneOf("name")}) for s, f, cls in MAP_SPACES]
              + [(f"{s}/by-id", {"cls": ClsT(f, cls), "key": Int(), "attribute": OneOf("id")}) for s, f, cls in MAP_SPACES])
c.check("lookup", _lookup_check)
c.callers_inline = True


def _enum_check(it, ctx):
    """SuitEnum.__init__(value): accepted iff value is None or one of the names of THIS enum's table."""
    self = ctx.arg("self")
    value = ctx.arg("value")
    md, _ = self.cls.lookup("_metadata")
    names = [k.info.lookup("name")[0].conc for k in md.attrs["children"].items]
    is_member = z3.Or(*[value.e == z3.StringVal(n) for n in names])
    if ctx.outcome == "return":
        return [("accepted_only_names_of_this_key_space", is_member)]
    return [("rejected_only_foreign_names", z3.Not(is_member))]


c = Contract(FC, "SuitEnum.__init__", ["C08"])
c.param("self", Computed(lambda it, env: None))
c.param("value", Str())
c.variants = [(s, {"self": Computed((lambda f, cls: (lambda it, env: __import__("pyvc.values", fromlist=["VObj"]).VObj(it.get_class(f, cls))))(f, cls))}) for s, f, cls in ENUM_SPACES]
c.check("enum", _enum_check)
c.raises("ValueError")
c.callers_inline = True


# ------------------------------------------------------------------------------------------------ B: end-to-end sweep of the real entry points
MINIMAL = {  # a legal value for a member of each closed key space (used to place a name from ANOTHER space there)
    "manifest": 1, "common": [], "condition": [], "directive": [], "parameter": 1, "text_component": "x", "cose_header": 1, "cwt": 1,
    "version_comparison": [1], "invoke_args": 1, "dependency_metadata": [], "envelope": [],
}


def _names_in(obj, vocab, out):
    if isinstance(obj, dict):
        for k, v in obj.items():
            if k in vocab:
                out.append(k)
            _names_in(v, vocab, out)
    elif isinstance(obj, list):
        for v in obj:
            if isinstance(v, str) and v in vocab:
                out.append(v)
            _names_in(v, vocab, out)
    elif isinstance(obj, str) and obj in vocab:
        out.append(obj)


def _edit_enums(o, depth=0):
    """Object API: set every SuitEnum found below `o` to ANOTHER name of its key space (in place).  Returns the number of edits."""
    from suit_generator.suit.types.common import SuitEnum, SuitObject
    import cbor2
    if depth > 60:
        return 0
    if isinstance(o, SuitEnum):
        other = next((ch.name for ch in o._metadata.children if ch.name != o.value), None)
        if other is not None:
            o.value = other
            return 1
        return 0
    if isinstance(o, SuitObject):
        return _edit_enums(getattr(o, "value", None), depth + 1)
    if isinstance(o, dict):
        return sum(_edit_enums(v, depth + 1) for v in list(o.values()))
    if isinstance(o, (list, tuple)):
        return sum(_edit_enums(v, depth + 1) for v in o)
    if isinstance(o, cbor2.CBORTag):
        return _edit_enums(o.value, depth + 1)
    return 0


def _history_ok(b, back):
    """parse(b) -> edit the result's enums in place -> parse(b) again must render what the first parse rendered."""
    from suit_generator.suit.envelope import SuitEnvelopeTagged
    first = SuitEnvelopeTagged.from_cbor(b)
    n = _edit_enums(first)
    again = SuitEnvelopeTagged.from_cbor(b).to_obj()
    return n, again == back


def bounded(ctx):
    import copy, importlib
    from bounded.harness import Bounded
    from bounded import gen_desc as G
    from contracts import refspec_native as RN
    from pyvc import native, front
    import logging
    native.install_log_shim()
    logging.disable(logging.CRITICAL)
    B = Bounded(ctx, rule="(1) every description of the systematic grammar set (every name of every key space at least once): create encodes it as the reference translation "
                          "(registered integers from the pinned registry) and parse renders the SAME multiset of vocabulary names back; (2) every name placed in every OTHER "
                          "closed key space is rejected by from_obj; distinct by description / (space, name)",
                bound="systematic set of the grammar generator; all (closed key space, foreign name) pairs", budget_s=60)
    from suit_generator.suit.envelope import SuitEnvelopeTagged
    vocab = {R.name_of(c) for cs in R.SPACES.values() for c in cs}
    used = set()
    edits = 0
    for name, desc in G.systematic(ctx["seed"]):
        # nested envelopes are shown as hex by parse (their names are checked when they are parsed themselves): keep this level only
        desc = {"SUIT_Envelope_Tagged": {k: v for k, v in desc["SUIT_Envelope_Tagged"].items() if k not in ("suit-integrated-payloads", "suit-integrated-dependencies")}}
        B.case(name, sample={"description": name} if name.startswith("all-parameters") else None)
        a = []
        _names_in(desc, vocab, a)
        used.update(a)
        try:
            e = SuitEnvelopeTagged.from_obj(copy.deepcopy(desc))
            e.update_severable_digests()
            e.update_digest()
            b = e.to_cbor()
        except Exception as ex:  # noqa: BLE001
            B.fail("every-name-encodes", {"name": name, "description": desc}, f"{type(ex).__name__}: {str(ex)[:160]}")
            continue
        if b != RN.reference_bytes(desc):
            B.fail("names-encode-to-their-registered-integers", {"name": name, "description": desc}, "created bytes differ from the reference translation")
            continue
        try:
            back = SuitEnvelopeTagged.from_cbor(b).to_obj()
        except Exception as ex:  # noqa: BLE001
            B.fail("integers-render-back-as-names", {"name": name, "description": desc}, f"{type(ex).__name__}: {str(ex)[:160]}")
            continue
        c = []
        _names_in(back, vocab, c)
        if sorted(a) != sorted(c):
            missing = sorted(set(a) - set(c)) + sorted(set(c) - set(a))
            B.fail("integers-render-back-as-names", {"name": name, "description": desc}, f"names differ after parse: {missing[:6]}")
            continue
        # the rendering is a function of the bytes: editing an earlier parse result through the object API does not change it
        try:
            n_edits, same = _history_ok(b, back)
            edits += n_edits
        except Exception as ex:  # noqa: BLE001
            B.fail("rendering-unaffected-by-edits-of-an-earlier-result", {"name": name, "description": desc, "history": True}, f"{type(ex).__name__}: {str(ex)[:160]}")
            continue
        if not same:
            B.fail("rendering-unaffected-by-edits-of-an-earlier-result", {"name": name, "description": desc, "history": True},
                   "the second parse of the same bytes renders other names after the first result was edited in place")
    never = sorted(n for n in vocab if n not in used and n not in ("suit-delegation", "suit-integrated-payloads", "suit-integrated-dependencies", "suit-digest-bytes", "suit-digest-algorithm-id"))
    if never:
        raise RuntimeError(f"the systematic set does not use these names (harness gap, not a verdict): {never}")
    if edits == 0:
        raise RuntimeError("the history case edited no enumeration value (harness gap, not a verdict)")
    # (2) foreign names are rejected in every closed key space
    for space, (rel, cls, kind) in SPACE_CLASS.items():
        if kind != "map" or space not in MINIMAL:
            continue
        klass = getattr(importlib.import_module(front.relpath_to_module(rel)), cls)
        own = {R.name_of(c) for c in R.SPACES[space]}
        for other, classes in R.SPACES.items():
            for c in classes:
                nm = R.name_of(c)
                if nm in own:
                    continue
                B.case((space, nm), nontrivial=True)
                try:
                    klass.from_obj({nm: MINIMAL[space]})
                except ValueError:
                    continue
                except Exception as ex:  # noqa: BLE001
                    B.fail("foreign-name-rejected-with-ValueError", {"space": space, "name": nm}, f"{type(ex).__name__}: {ex}")
                    continue
                B.fail("foreign-name-rejected-with-ValueError", {"space": space, "name": nm}, "accepted")
    return B.done()


def replay_case(case):
    import copy, importlib
    from pyvc import native, front
    native.install_log_shim()
    if "space" in case:
        rel, cls, _ = SPACE_CLASS[case["space"]]
        klass = getattr(importlib.import_module(front.relpath_to_module(rel)), cls)
        try:
            klass.from_obj({case["name"]: MINIMAL[case["space"]]})
        except ValueError:
            return True, None
        except Exception as ex:  # noqa: BLE001
            return False, f"{type(ex).__name__}: {ex}"
        return False, "accepted"
    from suit_generator.suit.envelope import SuitEnvelopeTagged
    from contracts import refspec_native as RN
    try:
        e = SuitEnvelopeTagged.from_obj(copy.deepcopy(case["description"]))
        e.update_severable_digests()
        e.update_digest()
        b = e.to_cbor()
        if case.get("history"):
            back = SuitEnvelopeTagged.from_cbor(b).to_obj()
            _, same = _history_ok(b, back)
            return same, None if same else "the second parse of the same bytes renders other names after the first result was edited in place"
        ok = b == RN.reference_bytes(case["description"])
        return ok, None if ok else "created bytes differ from the reference translation"
    except Exception as ex:  # noqa: BLE001
        return False, f"{type(ex).__name__}: {ex}"
