"""C11 — Payload extraction conserves payloads and leaves authenticated content intact (contracts + bounded stand-in)."""
import z3
from pyvc.contract import Contract
from pyvc.types import Int, Bool, Bytes, Str, Obj, PathStr, OneOf, ListT, NoneT, Const, DictT, Opt, Enc, TagT, Computed
from pyvc import symdesc as SD
import contracts.C10_cache as C10

PROPERTY = "C11"
LEVEL = "proof"
EXPLANATION = ("P: CacheFromEnvelope.fill_cache_from_envelope_data and cmd_payload_extract.main for ANY number of integrated members (predicate-abstracted envelope, "
               "foreach rule with validated pointwise effects, pyvc/relmap.py) with symbolic patterns / payload name, dependencies handled by the function's own contract "
               "at the recursive call (any depth); the 0..3-member unrolled variants beside it; the file-level wrapper and cmd_cache_create.main; "
               "B: whole hierarchies to depth 3 through the CLI entry points.")
FC = "suit_generator/cmd_cache_create.py"
FP = "suit_generator/cmd_payload_extract.py"
MEMBERS = ["#p0", "#p1", "#d0"]


def _envelope_value(it, env, members):
    """The decoded input envelope assembled from ghost parts: {2: W, 3: M, 17: X, <members>: bytes}."""
    from pyvc.values import VTag, VDict, DEntry, VInt
    d = VDict()
    d.entries[2] = DEntry(2, env.lookup("W"))
    d.entries[3] = DEntry(3, env.lookup("M"))
    d.entries[17] = DEntry(17, env.lookup("X"))
    for m in members:
        d.entries[m] = DEntry(m, env.lookup("B_" + m[1:]))
    return VTag(VInt(107), d)


def _enc_envelope(members):
    def build(it, env):
        from pyvc import cbor
        v = _envelope_value(it, env, members)
        it.c11_members = members
        return cbor.enc(it, v)
    return Computed(build)


GHOSTS = [("W", Bytes()), ("M", Bytes()), ("X", Bytes())] + [("B_" + m[1:], Bytes()) for m in MEMBERS]

# ------------------------------------------------------------------------------------------------
c = Contract(FC, "CacheFromEnvelope.fill_cache_from_envelope_data", ["C11"])
for g, t in GHOSTS:
    c.ghost(g, t)
c.param("cache", C10.CP)
c.param("envelope_data", _enc_envelope(MEMBERS))
c.param("omit_payload_regex", Opt(Str()))
c.param("dependency_regex", Opt(Str()))
import os as _os
# members per level unrolled 0..2 in the quick tier, 0..3 in the thorough tier (4**n pattern outcomes x cache states)
c.variants = [(f"{n}-members", {"envelope_data": _enc_envelope(MEMBERS[:n])}) for n in range(0, 4 if _os.environ.get("VERIF_TIER") == "thorough" else 3)]
c.requires("cache_inv", C10.INV.replace("self.", "cache."))
c.requires("payload_sizes", " and ".join(f"len(B_{m[1:]}) < 2**32" for m in MEMBERS), input_assumption=True)  # the cache format has 4-byte lengths
c.result(Bytes())
c.modifies("cache.first_slot", "cache.cache_data", "cache.uris")
c.returns("cache_invariant_kept", C10.INV.replace("self.", "cache."))
c.raises("GeneratorError")
c.raises("ValueError")  # padding larger than 0xFFFF for eb >= 0xFFFF (C10)


def _conservation(it, ctx):
    from pyvc.values import VTag, VDict, VBytes
    from pyvc.restubs import FULLMATCH
    if ctx.outcome != "return" or it.c11_members is None:  # (None: the any-members variant, checked by _conservation_any)
        return None
    members = it.c11_members
    out = SD.origin(it, ctx.result)
    goals = []
    if not (isinstance(out, VTag) and isinstance(out.value, VDict)):
        return [("output_is_an_envelope", z3.BoolVal(False))]
    o = out.value.entries
    goals.append(("tag_kept", z3.BoolVal(out.tag.conc == 107)))
    for k, g in ((2, "W"), (3, "M"), (17, "X")):
        goals.append((f"authenticated_member_{k}_byte_identical", z3.BoolVal(k in o) if k not in o else o[k].value.e == ctx.arg(g).e))
    slots = [t for t in it.trace if t[0] == "call" and t[1] == "CachePartition.add_cache_slot"]
    recs = [t for t in it.trace if t[0] == "call" and t[1] == "CacheFromEnvelope.fill_cache_from_envelope_data"]
    omit, dep = ctx.arg("omit_payload_regex"), ctx.arg("dependency_regex")
    from pyvc.values import VNone
    for m in members:
        orig = ctx.arg("B_" + m[1:])
        is_dep = z3.BoolVal(False) if isinstance(dep, VNone) else FULLMATCH(dep.e, z3.StringVal(m))
        omitted = z3.BoolVal(False) if isinstance(omit, VNone) else FULLMATCH(omit.e, z3.StringVal(m))
        extracted_expected = z3.And(z3.Not(is_dep), z3.Not(omitted))
        in_cache = [t for t in slots if t[2]["uri"].conc == m]
        in_env = m in o
        rec = [t for t in recs if z3.eq(z3.simplify(t[2]["envelope_data"].e), z3.simplify(orig.e))]
        # exactly one place
        places = (1 if in_cache else 0) + (1 if in_env else 0)
        goals.append((f"{m}_ends_up_in_exactly_one_place", z3.BoolVal(places == 1 and len(in_cache) <= 1)))
        if in_cache:
            goals.append((f"{m}_cached_bytes_identical", in_cache[0][2]["data"].e == orig.e))
            goals.append((f"{m}_extracted_as_selected_by_the_patterns", extracted_expected))
        elif in_env and rec:
            goals.append((f"{m}_dependency_re_embedded_after_recursive_extraction", o[m].value.e == rec[0][3].e))
            goals.append((f"{m}_treated_as_dependency_as_selected", is_dep))
            goals.append((f"{m}_recursion_uses_the_same_patterns_and_cache", z3.BoolVal(rec[0][2]["cache"] is ctx.arg("cache")
                          and rec[0][2]["omit_payload_regex"] is omit and rec[0][2]["dependency_regex"] is dep)))
        elif in_env:
            goals.append((f"{m}_kept_bytes_identical", o[m].value.e == orig.e))
            goals.append((f"{m}_kept_as_selected_by_the_patterns", z3.And(z3.Not(is_dep), omitted)))
    goals.append(("no_other_members", z3.BoolVal(set(o.keys()) <= {2, 3, 17} | set(members))))
    return goals


c.check("conservation", _conservation)

# ---- ANY number of integrated members (predicate-abstracted envelope, pyvc/relmap.py) -------------------------------------------------
# The envelope is {2: W, 3: M, 17: X} plus an UNBOUNDED text-keyed part given by HAS : text -> bool and VAL : text -> bytes.  The two
# filters become key sets, the three loops are verified by the foreach rule (effect validated on one arbitrary iteration, applied to all
# elements on exit), the recursion is the function's own contract.  Statement, for an ARBITRARY text key k:
#   k is in the output  <=>  k is in the input and not (k is no dependency and k is not omitted)       (exactly one place)
#   k in the output and no dependency  =>  same bytes;   members 2, 3, 17 identical;   tag 107
# and per arbitrary iteration: an extracted key goes to the cache once under its own name with its input bytes; a dependency is
# extracted recursively from its input bytes with the same cache and patterns and what comes back is stored under the same name.
def _any_envelope(it, env):
    from pyvc import relmap, cbor
    from pyvc.values import VTag, VInt
    HAS = z3.Function(it.fresh_name("HAS"), z3.StringSort(), z3.BoolSort())
    VALF = z3.Function(it.fresh_name("VAL"), z3.StringSort(), z3.SeqSort(z3.IntSort()))

    def val(k):
        it.assume(z3.Length(VALF(k)) < 2 ** 32)  # input assumption (4-byte length field of the cache format), instantiated where a value is used
        return VALF(k)
    m = relmap.new_relmap(it, {2: env.lookup("W"), 3: env.lookup("M"), 17: env.lookup("X")}, lambda k: HAS(k), val)
    it.c11_any = (HAS, VALF)
    it.c11_members = None
    it.assumptions_used.add("any-members variant: every integrated member is a text key mapped to a byte string shorter than 2**32 (the envelope shape), integer-keyed members are 2, 3 and 17")
    return cbor.enc(it, VTag(VInt(107), m))


c.variants.append(("any-members", {"envelope_data": Computed(_any_envelope)}))


def _pats(ctx):
    from pyvc.values import VNone
    from pyvc.restubs import FULLMATCH
    omit, dep = ctx.arg("omit_payload_regex"), ctx.arg("dependency_regex")
    is_dep = (lambda k: z3.BoolVal(False)) if isinstance(dep, VNone) else (lambda k: FULLMATCH(dep.e, k))
    omitted = (lambda k: z3.BoolVal(False)) if isinstance(omit, VNone) else (lambda k: FULLMATCH(omit.e, k))
    return is_dep, omitted


def _conservation_any(it, ctx):
    from pyvc import relmap
    from pyvc.values import VTag
    if getattr(it, "c11_members", 0) is not None or ctx.outcome != "return":
        return None
    HAS, VALF = it.c11_any
    out = SD.origin(it, ctx.result)
    if not (isinstance(out, VTag) and relmap.is_relmap(out.value)):
        return [("output_is_an_envelope", z3.BoolVal(False))]
    o = out.value.f
    is_dep, omitted = _pats(ctx)
    k = z3.Const(it.fresh_name("any_key"), z3.StringSort())
    extracted = z3.And(HAS(k), z3.Not(is_dep(k)), z3.Not(omitted(k)))
    goals = [("tag_kept", z3.BoolVal(out.tag.conc == 107)),
             ("every_member_in_exactly_one_place_as_selected_by_the_patterns", o["has"](k) == z3.And(HAS(k), z3.Not(extracted))),
             ("kept_member_bytes_identical", z3.Implies(z3.And(o["has"](k), z3.Not(is_dep(k))), o["val"](k) == VALF(k))),
             ("no_other_members", z3.BoolVal(set(o["fixed"]) == {2, 3, 17}))]
    for n_, g in ((2, "W"), (3, "M"), (17, "X")):
        goals.append((f"authenticated_member_{n_}_byte_identical", z3.BoolVal(False) if n_ not in o["fixed"] or not hasattr(o["fixed"][n_], "e") else o["fixed"][n_].e == ctx.arg(g).e))
    return goals


c.check("conservation_any", _conservation_any)


def _iteration_any(it, env, mark):
    """One arbitrary iteration of the loops over key sets (identified by the effect the foreach rule inferred)."""
    from pyvc.restubs import FULLMATCH
    from pyvc.values import VNone
    if getattr(it, "c11_members", 0) is not None:
        return []
    HAS, VALF = it.c11_any
    k0 = it._loop_elem
    ops = {op for _, op in getattr(it, "_foreach_effects", [])}
    tr = it.trace[mark:]
    slots = [t for t in tr if t[0] == "call" and t[1] == "CachePartition.add_cache_slot"]
    recs = [t for t in tr if t[0] == "call" and t[1] == "CacheFromEnvelope.fill_cache_from_envelope_data"]
    omit, dep = env.lookup("omit_payload_regex"), env.lookup("dependency_regex")
    is_dep = z3.BoolVal(False) if isinstance(dep, VNone) else FULLMATCH(dep.e, k0.e)
    omitted = z3.BoolVal(False) if isinstance(omit, VNone) else FULLMATCH(omit.e, k0.e)
    goals = []
    if "pop" in ops:
        goals.append(("extracted_member_is_one_selected_by_the_patterns", z3.And(HAS(k0.e), z3.Not(is_dep), z3.Not(omitted))))
        goals.append(("extracted_member_cached_once_under_its_name_with_its_bytes", z3.BoolVal(len(slots) == 1 and not recs) if len(slots) != 1 or recs else
                      z3.And(slots[0][2]["uri"].e == k0.e, slots[0][2]["data"].e == VALF(k0.e), z3.BoolVal(slots[0][2]["self"] is env.lookup("cache")))))
    elif "set" in ops:
        goals.append(("dependency_is_one_selected_by_the_pattern", z3.And(HAS(k0.e), is_dep)))
        ok = len(recs) == 1 and not slots
        goals.append(("dependency_extracted_recursively_once", z3.BoolVal(ok)))
        if ok:
            a = recs[0][2]
            goals.append(("recursion_on_the_dependency_bytes_with_the_same_cache_and_patterns", z3.And(a["envelope_data"].e == VALF(k0.e), z3.BoolVal(a["cache"] is env.lookup("cache")
                          and a["omit_payload_regex"] is omit and a["dependency_regex"] is dep))))
            stored = [o for o, op in it._foreach_effects if op == "set"][0]
            goals.append(("dependency_re_embedded_under_the_same_name", stored.f["val"](k0.e) == recs[0][3].e))
    else:
        # a loop that neither removes its element from the envelope nor stores under it: bookkeeping only
        goals.append(("extracted_member_is_removed_from_the_envelope", z3.BoolVal(not slots)))
        goals.append(("dependency_re_embedded_under_the_same_name", z3.BoolVal(not recs)))
    return goals


from pyvc.shapes import ObjInvT  # noqa: E402
c.loops(body_check=_iteration_any, cache=C10.CP_INV)

# ------------------------------------------------------------------------------------------------
c = Contract(FP, "main", ["C11"])
for g, t in GHOSTS:
    c.ghost(g, t)
c.param("input_envelope", PathStr(exists=True))
c.param("output_envelope", PathStr())
c.param("payload_name", OneOf("#p0", "#p1"))
c.param("output_payload_file", Opt(PathStr()))
c.param("payload_replace_path", Opt(PathStr(exists=True)))
def _main_setup(it, env):
    if it.variant_label == "any-members":
        # the envelope with ANY number of integrated members (see the any-members variant of fill_cache_from_envelope_data); the payload
        # that is extracted is one of them (precondition: the property speaks about payloads of the input)
        env.set("INPUT", _any_envelope(it, env))
        HAS, VALF = it.c11_any
        it.assume(HAS(env.lookup("payload_name").e))
        return
    it.c11_any = None
    env.set("INPUT", _enc_envelope(MEMBERS[:2]).fn(it, env))


c.setup = _main_setup
c.variants = [("two-members", {}), ("any-members", {"payload_name": Str()})]
c.requires("input_is_the_envelope", "FILE(input_envelope) == INPUT")
c.requires("distinct_files", "input_envelope != output_envelope and (output_payload_file is None or (output_payload_file != output_envelope and output_payload_file != input_envelope)) "
                             "and (payload_replace_path is None or payload_replace_path != output_envelope)")  # the replacement MAY be the file the payload is dumped to (in-place swap)


def _extract_checks_any(it, ctx):
    from pyvc import relmap
    from pyvc.values import VTag, VNone
    HAS, VALF = it.c11_any
    out = SD.origin(it, ctx.eval("FILE(output_envelope)"))
    if not (isinstance(out, VTag) and relmap.is_relmap(out.value)):
        return [("output_is_an_envelope", z3.BoolVal(False))]
    o = out.value.f
    name = ctx.arg("payload_name").e
    k = z3.Const(it.fresh_name("any_key"), z3.StringSort())
    goals = [("tag_kept", z3.BoolVal(out.tag.conc == 107)),
             ("every_other_member_kept_byte_identical", z3.Implies(k != name, z3.And(o["has"](k) == HAS(k), z3.Implies(HAS(k), o["val"](k) == VALF(k))))),
             ("no_other_members", z3.BoolVal(set(o["fixed"]) == {2, 3, 17}))]
    for n_, g in ((2, "W"), (3, "M"), (17, "X")):
        goals.append((f"member_{n_}_byte_identical", z3.BoolVal(False) if n_ not in o["fixed"] or not hasattr(o["fixed"][n_], "e") else o["fixed"][n_].e == ctx.arg(g).e))
    if isinstance(ctx.arg("payload_replace_path"), VNone):
        goals.append(("extracted_payload_removed_from_envelope", z3.Not(o["has"](name))))
    else:
        goals.append(("replacement_embedded_under_the_same_name", z3.And(o["has"](name), o["val"](name) == ctx.eval("old(FILE(payload_replace_path))").e)))
    if not isinstance(ctx.arg("output_payload_file"), VNone):
        goals.append(("extracted_payload_written_byte_identical", ctx.eval("FILE(output_payload_file)").e == VALF(name)))
    return goals


def _extract_checks(it, ctx):
    from pyvc.values import VTag, VDict, VNone
    if ctx.outcome != "return":
        return None
    if getattr(it, "c11_any", None) is not None:
        return _extract_checks_any(it, ctx)
    name = ctx.arg("payload_name").conc
    other = "#p1" if name == "#p0" else "#p0"
    out_bytes = ctx.eval("FILE(output_envelope)")
    out = SD.origin(it, out_bytes)
    if not (isinstance(out, VTag) and isinstance(out.value, VDict)):
        return [("output_is_an_envelope", z3.BoolVal(False))]
    o = out.value.entries
    goals = [("tag_kept", z3.BoolVal(out.tag.conc == 107))]
    for k, g in ((2, "W"), (3, "M"), (17, "X"), (other, "B_" + other[1:])):
        goals.append((f"member_{k}_byte_identical", z3.BoolVal(False) if k not in o else o[k].value.e == ctx.arg(g).e))
    orig = ctx.arg("B_" + name[1:])
    rep = ctx.arg("payload_replace_path")
    if isinstance(rep, VNone):
        goals.append(("extracted_payload_removed_from_envelope", z3.BoolVal(name not in o)))
    else:
        goals.append(("replacement_embedded_under_the_same_name", z3.BoolVal(False) if name not in o else o[name].value.e == ctx.eval("old(FILE(payload_replace_path))").e))
    if not isinstance(ctx.arg("output_payload_file"), VNone):
        goals.append(("extracted_payload_written_byte_identical", ctx.eval("FILE(output_payload_file)").e == orig.e))
    goals.append(("no_other_members", z3.BoolVal(set(o.keys()) <= {2, 3, 17, "#p0", "#p1"})))
    return goals


c.check("extraction", _extract_checks)
c.raises("FileNotFoundError")


# ------------------------------------------------------------------------------------------------
# The file-level wrapper and the command entry point of cache creation.  fill_cache_from_envelope: what is extracted is the content of the
# INPUT file, with the SAME cache object and the two patterns each in its own place; the output envelope file holds exactly what the data
# function returned; a rejection writes nothing.  cmd_cache_create.main: one partition of the requested erase-block size is filled by the
# selected operation with the named arguments and only then closed into the output file - a rejection leaves no cache file behind.
import contracts.C00_common as C00  # noqa: E402


def _wrapper_setup(it, env):
    it.call_site_summaries = {"CacheFromEnvelope.fill_cache_from_envelope_data":
                              C00.recording_summary("CacheFromEnvelope.fill_cache_from_envelope_data", ("GeneratorError", "ValueError"), result=lambda it_: it_.fresh_bytes("stripped_envelope"))}


c = Contract(FC, "CacheFromEnvelope.fill_cache_from_envelope", ["C11"])
c.param("cache", C10.CP)
c.param("input_envelope", PathStr(exists=True))
c.param("output_envelope", PathStr())
c.param("omit_payload_regex", Opt(Str()))
c.param("dependency_regex", Opt(Str()))
c.variants = [("file-level", {})]
c.setup = _wrapper_setup
# (no distinctness precondition: stripping an envelope IN PLACE is ordinary use; the input is read before anything is written)


def _wrapper_checks(it, ctx):
    calls = C00.calls_of(it, "CacheFromEnvelope.fill_cache_from_envelope_data")
    if ctx.outcome != "return":
        return [("a_rejection_writes_nothing", z3.BoolVal(len(it.fs.log) == 0))]
    goals = [("extracts_once", z3.BoolVal(len(calls) == 1))]
    if len(calls) == 1:
        goals.append(("extracts_from_the_content_of_the_input_file", calls[0][2]["envelope_data"].e == ctx.eval("old(FILE(input_envelope))").e))
        goals += C00.reaches(calls[0], ctx, [("cache", "cache"), ("omit_payload_regex", "omit_payload_regex"), ("dependency_regex", "dependency_regex")])
        goals.append(("output_file_holds_the_stripped_envelope", ctx.eval("FILE(output_envelope)").e == calls[0][3].e))
        goals.append(("input_file_untouched_unless_stripped_in_place", z3.Implies(it.stubs.path_term(it, ctx.arg("input_envelope")) != it.stubs.path_term(it, ctx.arg("output_envelope")),
                                                                                      ctx.eval("FILE(input_envelope)").e == ctx.eval("old(FILE(input_envelope))").e)))
    return goals


c.check("wrapper", _wrapper_checks)
c.raises("GeneratorError")
c.raises("ValueError")
c.raises("FileNotFoundError")


def _cc_main_setup(it, env):
    S = C00.recording_summary
    it.call_site_summaries = {"CacheFromPayloads.fill_cache_from_payloads": S("CacheFromPayloads.fill_cache_from_payloads", ("ValueError", "FileNotFoundError", "GeneratorError")),
                              "CacheFromEnvelope.fill_cache_from_envelope": S("CacheFromEnvelope.fill_cache_from_envelope", ("GeneratorError", "ValueError", "FileNotFoundError")),
                              "CacheMerge.merge_cache_files": S("CacheMerge.merge_cache_files", ("ValueError", "FileNotFoundError", "GeneratorError")),
                              "CachePartition.close_and_save_cache": S("CachePartition.close_and_save_cache", ("FileNotFoundError",))}


c = Contract(FC, "main", ["C11", "C10"])
c.param("cache_create_subcommand", Const("from_envelope"))
c.param("eb_size", Int())
c.param("input", ListT([Str(), Str()]))
c.param("input_envelope", Str())
c.param("output_envelope", Str())
c.param("omit_payload_regex", Opt(Str()))
c.param("dependency_regex", Opt(Str()))
c.param("output_file", Str())
c.variants = [(v, {"cache_create_subcommand": Const(v)}) for v in ("from_envelope", "from_payloads", "merge")]
c.call_by_keyword = True
c.setup = _cc_main_setup


def _cc_main_checks(it, ctx):
    names = {"from_envelope": "CacheFromEnvelope.fill_cache_from_envelope", "from_payloads": "CacheFromPayloads.fill_cache_from_payloads", "merge": "CacheMerge.merge_cache_files"}
    sub = ctx.arg("cache_create_subcommand").conc
    fills = [t for t in it.trace if t[0] == "call" and t[1] in names.values()]
    closes = C00.calls_of(it, "CachePartition.close_and_save_cache")
    if ctx.outcome != "return":
        return [("a_rejection_saves_no_cache_file", z3.BoolVal(len(it.fs.log) == 0))]
    goals = [("the_selected_operation_fills_once_and_then_the_partition_is_saved_once", z3.BoolVal(len(fills) == 1 and fills[0][1] == names[sub] and len(closes) == 1
                                                                                                   and it.trace.index(fills[0]) < it.trace.index(closes[0])))]
    if len(fills) == 1 and len(closes) == 1 and fills[0][1] == names[sub]:
        cache = fills[0][2]["cache"]
        goals.append(("the_partition_that_was_filled_is_the_one_saved", z3.BoolVal(closes[0][2]["self"] is cache)))
        a = cache.attrs  # the summaries do not touch the partition: these are the values the constructor left
        empty = (getattr(a.get("first_slot"), "conc", None) is True and getattr(a.get("cache_data"), "conc", None) == b"" and getattr(a.get("uris"), "items", None) == [])
        goals.append(("partition_of_the_requested_erase_block_size_starts_empty", z3.And(C00.same_value(a["eb_size"], ctx.arg("eb_size")), z3.BoolVal(empty))))
        goals += C00.reaches(closes[0], ctx, [("output_file", "output_file")])
        if sub == "from_envelope":
            goals += C00.reaches(fills[0], ctx, [(n, n) for n in ("input_envelope", "output_envelope", "omit_payload_regex", "dependency_regex")])
        else:
            formal = "input_payloads" if sub == "from_payloads" else "input_files"
            formal = formal if formal in fills[0][2] else [k for k in fills[0][2] if k != "cache"][0]
            goals.append(("inputs_reach_the_operation", z3.BoolVal(fills[0][2][formal] is ctx.arg("input"))))
    return goals


c.check("entry", _cc_main_checks)
for e_ in ("GeneratorError", "ValueError", "FileNotFoundError"):
    c.raises(e_)


# ================================================================================================
# B — bounded stand-in through the CLI entry points
# ================================================================================================
def _collect(env_bytes, prefix=()):
    """All integrated (string-keyed, bytes) members of a hierarchy: {(path of names): bytes}; dependencies are members too."""
    from bounded import cborx
    t = cborx.decode_all(env_bytes)
    out = {}
    for k, v in t.value.pairs:
        if isinstance(k, str):
            out[prefix + (k,)] = v
    return out


def _expected(env_bytes, omit, dep, prefix=()):
    """Reference semantics from the statement: (cache pairs in order, stripped envelope bytes)."""
    import re
    from bounded import cborx
    t = cborx.decode_all(env_bytes)
    names = [k for k, _ in t.value.pairs if isinstance(k, str)]
    deps = [k for k in names if dep is not None and re.fullmatch(dep, k)]
    rest = [k for k in names if k not in deps]
    extract = [k for k in rest if omit is None or not re.fullmatch(omit, k)]
    cache = [(k, t.value.get(k)) for k in extract]
    subs = {}
    for k in deps:
        sub_cache, subs[k] = _expected(t.value.get(k), omit, dep, prefix + (k,))
        cache += sub_cache
    # every member keeps its position; a dependency is replaced in place by its stripped version
    pairs = [(k, subs.get(k, v)) for k, v in t.value.pairs if k not in extract]
    return cache, cborx.encode(cborx.Tag(t.tag, cborx.Map(pairs)))


def bounded(ctx):
    import importlib, os
    from bounded.harness import Bounded
    from bounded import cborx, signing as S
    quick = ctx["tier"] == "quick"
    B = Bounded(ctx, rule="cache_create from_envelope and payload_extract through their main(): hierarchies to depth 3, pattern pairs {none, nothing, everything, "
                          "partial}^2; every integrated payload of the input hierarchy must be in exactly one place with identical bytes, all other members "
                          "byte-identical; oracle: independent CBOR reader + reference semantics written from the statement; distinct by (hierarchy, patterns)",
                bound="depth <= 3, <= 3 integrated members per level, 42 pattern pairs (incl. prefix-only and infix-only patterns), eb in {1, 8, 16, 64}", budget_s=60 if quick else 600)
    cc = importlib.import_module("suit_generator.cmd_cache_create")
    pe = importlib.import_module("suit_generator.cmd_payload_extract")
    d = B.fresh_dir("x")
    grand = S.make_envelope("g", payloads=[("#gp1", b"\x01" * 5), ("#gp2", b"")])
    childA = S.make_envelope("a", payloads=[("#ap", b"\x02" * 40)], deps=[("#dep_g", grand)])
    childB = S.make_envelope("b", payloads=[("#bp1", b"\x03"), ("#bp2", bytes(300))])
    hier = {
        "flat": S.make_envelope("r0", payloads=[("#p1", b"\xaa" * 3), ("#p2", b"\xbb" * 30), ("#q", b"")]),
        "depth2": S.make_envelope("r1", payloads=[("#p1", b"\xaa" * 3)], deps=[("#dep_b", childB)]),
        "depth3": S.make_envelope("r2", payloads=[("#p1", b"\xaa" * 3), ("#keep", b"\xcc")], deps=[("#dep_a", childA), ("#dep_b", childB)]),
        "no-payloads": S.make_envelope("r3"),
        "dependency-unchanged-last": S.make_envelope("r4", payloads=[("#p1", b"\x11")], deps=[("#dep_b", childB), ("#dep_z", S.make_envelope("z", payloads=[("#keep_z", b"\x05")]))]),
    }
    # incl. patterns that match only a proper PREFIX ("#p", "#dep") or an INFIX ("p1", "dep_b") of some names: they select nothing
    # under the full-match semantics of the statement and something under match / search
    pats = [None, "nothing", ".*", "#p.*|#bp1|#gp2", "#keep.*", "#p", "p1|keep"]
    dpats = [None, "nothing", "#dep_.*", "#dep_a", "#dep", "dep_b"]
    n = 0
    for hname, env in hier.items():
        for omit in pats:
            for dep in dpats:
                if B.out_of_time():
                    break
                n += 1
                if quick and n % 2 == 0 and hname not in ("depth3", "dependency-unchanged-last"):
                    continue
                eb = [1, 8, 16, 64][n % 4]
                case = {"hierarchy": hname, "omit": omit, "dependency": dep, "eb": eb}
                B.case((hname, omit, dep), sample=case if n in (3, 30) else None)
                inp, outp, cache = f"{d}/in.suit", f"{d}/out.suit", f"{d}/c.cache"
                open(inp, "wb").write(env)
                for f in (outp, cache):
                    if os.path.exists(f):
                        os.unlink(f)
                    if n % 3 == 0:
                        open(f, "wb").write(b"\xd8\x6b" + b"\x00" * 5000)  # history: both output files exist already and are longer
                        case["existing_longer_outputs"] = True
                exp_cache, exp_env = _expected(env, omit, dep)
                try:
                    cc.main(cache_create_subcommand="from_envelope", eb_size=eb, input_envelope=inp, output_envelope=outp, output_file=cache,
                            omit_payload_regex=omit, dependency_regex=dep)
                except Exception as e:  # noqa: BLE001
                    if not exp_cache and isinstance(e, Exception) and False:
                        pass
                    B.fail("from-envelope-succeeds", case, f"{type(e).__name__}: {e}")
                    continue
                got_env = open(outp, "rb").read()
                if got_env != exp_env:
                    B.fail("stripped-envelope-keeps-everything-else-byte-identical", case, "output envelope differs from (input minus extracted payloads)")
                blob = open(cache, "rb").read()
                if exp_cache:
                    import contracts.C10_cache as C10m
                    msg = C10m.check_cache_file(blob, exp_cache, eb)
                    if msg:
                        B.fail("every-extracted-payload-in-the-cache-exactly-once", case, msg)
                elif blob not in (b"\xff", b"\xbf\xff"):
                    B.fail("every-extracted-payload-in-the-cache-exactly-once", case, f"cache not empty although nothing was selected: {blob[:8].hex()}")
    # single payload extraction
    env = hier["flat"]
    for name, present in (("#p1", True), ("#p2", True), ("#q", True)):
        for replace in (None, b"", b"\x99" * 7):
            for with_file in (True, False):
                case = {"single": name, "replace": None if replace is None else len(replace), "output_file": with_file}
                B.case(("single", name, replace, with_file), sample=case if (name, with_file) == ("#q", True) else None)
                inp, outp, pf, rp = f"{d}/i.suit", f"{d}/o.suit", f"{d}/payload.bin", f"{d}/replace.bin"
                open(inp, "wb").write(env)
                for f in (outp, pf):
                    if os.path.exists(f):
                        os.unlink(f)
                    if with_file and replace is not None:
                        open(f, "wb").write(b"\x00" * 3000)  # history: existing longer output files
                if replace is not None:
                    open(rp, "wb").write(replace)
                try:
                    pe.main(inp, outp, name, pf if with_file else None, rp if replace is not None else None)
                except Exception as e:  # noqa: BLE001
                    B.fail("extract-succeeds", case, f"{type(e).__name__}: {e}")
                    continue
                before = cborx.decode_all(env).value
                after = cborx.decode_all(open(outp, "rb").read()).value
                orig = before.get(name)
                for k, v in before.pairs:
                    if k != name and after.get(k) != v:
                        B.fail("other-members-byte-identical", case, f"member {k!r} changed")
                if replace is None and name in after:
                    B.fail("extracted-payload-removed", case, "payload still in the envelope")
                if replace is not None and after.get(name) != replace:
                    B.fail("replacement-embedded-under-the-same-name", case, f"envelope holds {after.get(name)!r}")
                if with_file and replace is not None:
                    # in-place swap: the replacement is read from the very file the extracted payload is written to
                    swap = f"{d}/swap.bin"
                    open(swap, "wb").write(replace)
                    outp2 = f"{d}/o2.suit"
                    try:
                        pe.main(inp, outp2, name, swap, swap)
                        a2 = cborx.decode_all(open(outp2, "rb").read()).value
                        if a2.get(name) != replace or open(swap, "rb").read() != orig:
                            B.fail("replacement-embedded-under-the-same-name", dict(case, in_place_swap=True), "replacement file == output payload file: the envelope must get the replacement and the file the extracted payload")
                    except Exception as e:  # noqa: BLE001
                        B.fail("extract-succeeds", dict(case, in_place_swap=True), f"{type(e).__name__}: {e}")
                if with_file and (not os.path.exists(pf) or open(pf, "rb").read() != orig):
                    B.fail("extracted-payload-written-byte-identical", case, "output payload file missing or different" + ("" if os.path.exists(pf) else " (file not written: payload lost)"))
    # the same payload name at two places of the hierarchy with DIFFERENT bytes, both selected: one cache cannot hold both, so the only
    # outcomes that lose nothing are a refusal (exception, no payload dropped) or keeping one of them in its envelope
    clashes = {
        "root-and-dependency": S.make_envelope("c0", payloads=[("#same", b"\x01" * 9)], deps=[("#dep_x", S.make_envelope("cx", payloads=[("#same", b"\x02" * 5)]))]),
        "sibling-dependencies": S.make_envelope("c1", deps=[("#dep_x", S.make_envelope("cx", payloads=[("#same", b"\x03" * 4)])), ("#dep_y", S.make_envelope("cy", payloads=[("#same", b"\x04" * 6)]))]),
        "root-and-depth-3": S.make_envelope("c2", payloads=[("#same", b"\x05" * 3)], deps=[("#dep_x", S.make_envelope("cx", deps=[("#dep_z", S.make_envelope("cz", payloads=[("#same", b"")]))]))]),
    }
    for cname, env in clashes.items():
        case = {"clash": cname}
        B.case(("clash", cname))
        inp, outp, cache = f"{d}/in.suit", f"{d}/out.suit", f"{d}/c.cache"
        open(inp, "wb").write(env)
        for f in (outp, cache):
            if os.path.exists(f):
                os.unlink(f)
        try:
            cc.main(cache_create_subcommand="from_envelope", eb_size=8, input_envelope=inp, output_envelope=outp, output_file=cache, omit_payload_regex=None, dependency_regex="#dep_.*")
        except Exception:  # noqa: BLE001  (a refusal loses nothing)
            continue
        # accepted: every payload of the input must still be somewhere
        def collect(b, acc):
            t = cborx.decode_all(b).value
            for k, v in t.pairs:
                if isinstance(k, str):
                    if k.startswith("#dep_"):
                        collect(v, acc)
                    else:
                        acc.append((k, v))
        want, left = [], []
        collect(env, want)
        collect(open(outp, "rb").read(), left)
        import cbor2
        cached = [(k, v) for k, v in cbor2.loads(open(cache, "rb").read()).items() if k != ""]
        have = left + cached
        missing = [kv for kv in want if kv not in have]
        if missing:
            B.fail("every-payload-ends-up-in-exactly-one-place", case, f"accepted, but {[(k, len(v)) for k, v in missing]} is neither in the output envelope nor in the cache")
    return B.done()


ASSUMPTIONS = ["re.fullmatch(user pattern, name) is an uninterpreted predicate in the proof part (patterns assumed valid)",
               "every payload at every depth is shorter than 2**32 bytes (4-byte length field of the cache format)"]
