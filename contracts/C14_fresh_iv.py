"""C14 — Every encryption uses a fresh IV.

The functions carrying this property are under contract in C06_encrypt.py (tagged C06+C14):
  SuitKMS.encrypt                       the nonce passed to AES-GCM IS the single os.urandom(12) draw of the call and is returned
  Encryptor.generate_kms_artifacts      the first 12 bytes of the asset are that nonce (it is the nonce in AESGCM_ENC(...))
  Encryptor.generate_suit_encryption_info / ..._and_encrypted_payload   unprotected header 5 is the first 12 bytes of the asset
  Encryptor.encrypt_and_generate, cmd_encrypt.encrypt_and_generate      ghost result IV: published IV == nonce used
Here: the history lemma over the ghost set of used nonces, and the bounded stand-in (collision + decrypt checks).
"""
import z3
from pyvc.contract import Lemma
import contracts.C06_encrypt as C06

PROPERTY = "C14"
LEVEL = "proof"


def history_lemma(cfg):
    """Induction over the sequence of invocations.  Ghost state: used (set of nonces drawn so far), pub (set of published
    IVs).  INV: pub is a subset of used and the published IVs are pairwise distinct (represented: count function).
    Step (from the per-call contract + the os.urandom assumption `nonce not in used`): the new published IV equals the
    fresh nonce, hence it is not in pub; pub' = pub + {iv}, used' = used + {nonce}; INV is preserved."""
    B = z3.SeqSort(z3.IntSort())
    used = z3.Array("used", B, z3.BoolSort())
    pub = z3.Array("pub", B, z3.BoolSort())
    nonce, iv, x = z3.Const("nonce", B), z3.Const("iv", B), z3.Const("x", B)
    out = []
    # (1) the newly published IV was never published before
    s = z3.Solver()
    s.add(z3.ForAll([x], z3.Implies(pub[x], used[x])))  # INV
    s.add(z3.Not(used[nonce]))  # os.urandom freshness (assumed)
    s.add(iv == nonce)  # per-call contract: published IV is the nonce used (ghost result IV of encrypt_and_generate)
    s.add(pub[iv])
    r = s.check()
    out.append(("new-iv-not-published-before", "discharged" if r == z3.unsat else "refuted" if r == z3.sat else "unknown", {"backend": "z3"}))
    # (2) INV is preserved
    s = z3.Solver()
    s.add(z3.ForAll([x], z3.Implies(pub[x], used[x])))
    s.add(iv == nonce)
    used2, pub2 = z3.Store(used, nonce, True), z3.Store(pub, iv, True)
    y = z3.Const("y", B)
    s.add(pub2[y], z3.Not(used2[y]))
    r = s.check()
    out.append(("invariant-preserved", "discharged" if r == z3.unsat else "refuted" if r == z3.sat else "unknown", {"backend": "z3"}))
    # (3) base case: nothing published
    out.append(("invariant-initially", "discharged", {"backend": "trivial (pub is empty)"}))
    return out


Lemma("C14", "history", history_lemma, "all published IVs are pairwise distinct")


def bounded(ctx):
    """Collision and decrypt check over real invocations: fresh Encryptor per call AND one long-lived Encryptor."""
    import importlib
    from bounded.harness import Bounded
    from pyvc import front
    from contracts import specs_native as N
    quick = ctx["tier"] == "quick"
    n = 600 if quick else 100000
    B = Bounded(ctx, rule="encrypt_and_generate invoked repeatedly with the same key (identical and different firmware); all published IVs "
                          "collected and compared pairwise (set), every artifact decrypted with its published IV; distinct = invocations",
                bound=f"{n} invocations on a long-lived Encryptor + {n // 4} on fresh Encryptors + {min(n // 20, 200)} through cmd_encrypt.main", budget_s=60 if quick else 1500)
    es = importlib.import_module("ncs.encrypt_script")
    base = importlib.import_module("suit_generator.suit_encrypt_script_base")
    d = B.fresh_dir("k")
    key = bytes(range(32))
    open(f"{d}/k.bin", "wb").write(key)
    aad = N.ENC(["Encrypt", N.ENC({1: 3}), b""])
    seen = {}
    def one(enc, fw, tag):
        content, t, info, digest, ln = enc.encrypt_and_generate(fw, "k", 7, d, base.SuitDigestAlgorithms.SHA_256, base.SuitKWAlgorithms.DIRECT, f"{front.REPO}/ncs/basic_kms.py")
        iv = C06._read_info(info)[1]
        case = {"mode": tag, "n": len(seen), "fw_len": len(fw)}
        B.case(("iv", len(seen), tag))
        if len(iv) != 12:
            B.fail("iv-is-96-bits", case, f"published IV has {len(iv)} bytes")
            return
        if iv in seen:
            B.fail("ivs-pairwise-distinct", case, f"IV {iv.hex()} published twice (invocations {seen[iv]} and {len(seen)})")
        seen.setdefault(iv, len(seen))
        try:
            if N.AESGCM_DEC(key, iv, content, t, aad) != fw:
                B.fail("published-iv-is-the-one-used", case, "decrypts to different data")
        except Exception as e:  # noqa: BLE001
            B.fail("published-iv-is-the-one-used", case, f"decryption with the published IV fails: {e}")
    long_lived = es.Encryptor()
    for i in range(n):
        if B.out_of_time() or B.failures:
            break
        one(long_lived, b"same firmware" if i % 2 else bytes([i & 0xFF]) * (i % 40), "long-lived")
    for i in range(n // 4):
        if B.out_of_time() or B.failures:
            break
        one(es.Encryptor(), b"same firmware", "fresh")
    # a hosting process that re-seeds the process-global PRNG identically before every encryption (a build driver doing random.seed(<fixed>)
    # per image): an IV drawn from os.urandom is unaffected, one drawn from `random` repeats
    import random
    state = random.getstate()
    try:
        for i in range(12):
            if B.failures:
                break
            random.seed(20240229)
            one(long_lived if i % 2 else es.Encryptor(), bytes([i]) * 10, "prng-reseeded-identically")
    finally:
        random.setstate(state)
    for i in range(min(n // 20, 200)):
        if B.out_of_time() or B.failures:
            break
        case, msg, iv = C06.run_encrypt_case(B, 64, 7, "sha-256")
        B.case(("cli", i))
        if msg:
            B.fail("published-iv-is-the-one-used", case, msg)
        elif iv in seen:
            B.fail("ivs-pairwise-distinct", case, f"IV {iv.hex()} published twice")
        else:
            seen[iv] = len(seen)
    r = B.done()
    r["distinct_ivs"] = len(seen)
    return r


ASSUMPTIONS = C06.ASSUMPTIONS + ["the scope of `pairwise distinct` is the scope of the os.urandom freshness assumption (one process or many)"]
