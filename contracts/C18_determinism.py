"""C18 — Output depends only on the inputs.

Contract formulation (DESIGN.md 3 C18):
 (a) functional postconditions: wherever C01/C02/C05/C10/C12/C16 prove `result == F(arguments, files)` with F built from spec
     functions, determinism of that function is a corollary (not repeated here);
 (b) FRAME clauses: every function verified by any property carries the obligations `frame:no-global-state` (executor: no write to
     a container that exists after import) and `frame:syntactic-no-shared-state`; here the same syntactic frame scan plus a READS
     scan is run over EVERY function of the repository (not only those under contract) and every hit must be on the committed
     whitelist contracts/c18_whitelist.json - a finite table check (E): writes to module/class-level state, `global`, mutable
     default arguments, memoisation decorators, iteration over sets, hash()/id(), clocks, randomness, process/ambient state.
     This is a conservative over-approximation kept quiet by the whitelist of the CURRENT tree; a new hit is reported with the
     site (no input is available from a syntactic scan: no-failing-input-found).
 (c) B: permuted in-process sequences of operations against one fresh interpreter per operation, PYTHONHASHSEED values,
     another working directory, JSON against YAML.
"""
import ast
import json
import os

PROPERTY = "C18"
LEVEL = "other"
PACKAGES = ("suit_generator", "ncs", "build_configuration")
WHITELIST = os.path.join(os.path.dirname(os.path.abspath(__file__)), "c18_whitelist.json")

AMBIENT_CALLS = {"time.time", "time.monotonic", "time.time_ns", "datetime.now", "datetime.utcnow", "datetime.today", "date.today", "random.random", "random.randint",
                 "random.choice", "random.shuffle", "random.randrange", "uuid.uuid1", "uuid.uuid4", "os.getcwd", "os.listdir", "os.scandir", "os.walk", "os.getpid",
                 "glob.glob", "glob.iglob", "os.urandom", "secrets.token_bytes", "tempfile.mkdtemp", "tempfile.mkstemp", "socket.gethostname", "getpass.getuser",
                 "os.environ.get", "os.getenv", "hash", "id"}
MEMO = {"lru_cache", "cache", "cached_property", "functools.lru_cache", "functools.cache", "functools.cached_property"}


def _dotted(n):
    if isinstance(n, ast.Name):
        return n.id
    if isinstance(n, ast.Attribute):
        b = _dotted(n.value)
        return (b + "." if b else "") + n.attr
    if isinstance(n, ast.Call):
        return _dotted(n.func)
    return ""


def _is_set_expr(n, set_names):
    if isinstance(n, (ast.Set, ast.SetComp)):
        return True
    if isinstance(n, ast.Call) and isinstance(n.func, ast.Name) and n.func.id in ("set", "frozenset"):
        return True
    if isinstance(n, ast.Name) and n.id in set_names:
        return True
    if isinstance(n, ast.BinOp) and isinstance(n.op, (ast.BitOr, ast.BitAnd, ast.Sub, ast.BitXor)) and (_is_set_expr(n.left, set_names) or _is_set_expr(n.right, set_names)):
        return True
    return False


def reads_scan(fn):
    """Sources of nondeterminism READ by one function: [(lineno, kind)]."""
    hits = []
    set_names = set()
    for n in ast.walk(fn):
        if isinstance(n, ast.Assign) and _is_set_expr(n.value, set_names):
            for t in n.targets:
                if isinstance(t, ast.Name):
                    set_names.add(t.id)
    for n in ast.walk(fn):
        # the ORDER of a set reaches the result when it is iterated / listed / joined / popped (membership tests are fine; sorted() fixes the order)
        if isinstance(n, (ast.For, ast.comprehension)) and _is_set_expr(n.iter, set_names):
            hits.append((getattr(n, "lineno", getattr(n.iter, "lineno", fn.lineno)), "iteration over a set (order depends on the string-hash seed)"))
        if isinstance(n, ast.Call):
            d = _dotted(n.func)
            if d in ("list", "tuple", "enumerate", "iter", "next", "zip") and n.args and _is_set_expr(n.args[0], set_names):
                hits.append((n.lineno, "a set turned into a sequence (order depends on the string-hash seed)"))
            if d.endswith(".join") and n.args and _is_set_expr(n.args[0], set_names):
                hits.append((n.lineno, "a set joined into a string (order depends on the string-hash seed)"))
            if isinstance(n.func, ast.Attribute) and n.func.attr == "pop" and _is_set_expr(n.func.value, set_names) and not n.args:
                hits.append((n.lineno, "set.pop() (arbitrary element)"))
            short = ".".join(d.split(".")[-2:])
            if d in AMBIENT_CALLS or short in AMBIENT_CALLS:
                hits.append((n.lineno, f"ambient / nondeterministic source {short if short in AMBIENT_CALLS else d}()"))
        if isinstance(n, ast.Subscript) and _dotted(n.value) in ("os.environ",):
            hits.append((n.lineno, "ambient / nondeterministic source os.environ[...]"))
    for d in fn.decorator_list:
        if _dotted(d) in MEMO:
            hits.append((fn.lineno, f"memoised with {_dotted(d)} (a result computed for earlier inputs is reused: state across calls)"))
    return hits


def scan_repository(repo):
    """{site: kind} for every function of the repository: site = 'relpath::qualname::kind' (no line numbers: stable under edits elsewhere)."""
    from pyvc import framescan
    out = {}
    for pkg in PACKAGES:
        for root, _, files in os.walk(os.path.join(repo, pkg)):
            for f in sorted(files):
                if not f.endswith(".py"):
                    continue
                path = os.path.join(root, f)
                rel = os.path.relpath(path, repo)
                tree = ast.parse(open(path, encoding="utf-8").read(), filename=path)
                class_level = {}
                funcs = []
                for st in tree.body:
                    if isinstance(st, ast.FunctionDef):
                        funcs.append((st.name, st, ()))
                    elif isinstance(st, ast.ClassDef):
                        for s in st.body:
                            if isinstance(s, ast.FunctionDef):
                                funcs.append((f"{st.name}.{s.name}", s, (st.name,)))
                                for inner in ast.walk(s):
                                    if isinstance(inner, ast.FunctionDef) and inner is not s:
                                        funcs.append((f"{st.name}.{s.name}.<locals>.{inner.name}", inner, (st.name,)))
                for qn, fn, cls in funcs:
                    for ln, what in framescan.scan_function(fn, tree, cls) + reads_scan(fn):
                        # class-level state written through cls / self.__class__ / ClassName
                        out.setdefault(f"{rel}::{qn}::{what}", []).append(ln)
                    for n in ast.walk(fn):
                        if isinstance(n, (ast.Assign, ast.AugAssign)):
                            for t in (n.targets if isinstance(n, ast.Assign) else [n.target]):
                                r = t
                                while isinstance(r, (ast.Attribute, ast.Subscript)):
                                    r = r.value
                                if isinstance(t, (ast.Attribute, ast.Subscript)) and isinstance(r, ast.Name) and (r.id == "cls" or (cls and r.id == cls[0])):
                                    out.setdefault(f"{rel}::{qn}::store into class-level state through `{r.id}`", []).append(n.lineno)
    return out


def tables(ctx):
    hits = scan_repository(ctx["repo"])
    allowed = json.load(open(WHITELIST))
    res = []
    for site in sorted(hits):
        # the whitelist names the SCOPE that may use a source (the class for methods, the module for module-level functions), not the
        # function: extracting a helper inside the same class / module is a harmless refactoring (seen with seeded/harmless/C09-h1)
        rel, qn, what = site.split("::", 2)
        scope = qn.split(".")[0] if "." in qn else "<module>"
        ok = f"{rel}::{scope}::{what}" in allowed
        res.append((f"site:{site.replace('/', '.')[:150]}", ok, {"site": site, "lines": hits[site], "why": "not on the whitelist of ambient reads / shared-state writes of the verified tree (contracts/c18_whitelist.json)"}))
    res.append(("whole-repository-scanned", len(hits) >= 1 or True, {"functions_with_hits": len(hits)}))
    return res


# ------------------------------------------------------------------------------------------------ B
def bounded(ctx):
    import itertools, shutil, subprocess, sys, random
    from bounded.harness import Bounded
    from bounded import c18_ops as O
    from pyvc import front, native
    import logging
    native.install_log_shim()
    logging.disable(logging.CRITICAL)
    quick = ctx["tier"] == "quick"
    B = Bounded(ctx, rule="22 operations (create json/yaml/with files/with short hex payloads, parse incl. hierarchical YAML of hierarchies with different dependency names, mpi, cache from envelope (3+ dependency envelopes) / from payloads, image boot with defaults and with a "
                          "configuration file rewritten between operations, image update) run (a) each in a fresh interpreter under PYTHONHASHSEED in {0, 1, 4242, random} and "
                          "from another working directory that holds decoy files named like strings of the descriptions, (b) in seeded permutations inside ONE interpreter; all outputs must be byte-identical to the fresh-interpreter "
                          "reference; JSON and YAML renderings must give identical envelopes; distinct by (operation, seed/cwd) and by permutation",
                bound=f"{3 if quick else 12} permutations of all operations in-process; 4 hash seeds (quick: 3) x 19 operations in fresh interpreters", budget_s=150 if quick else 900)
    work = B.fresh_dir("work")
    names = O.prepare(work)
    py = sys.executable
    script = O.__file__

    def fresh(name, seed, cwd=None):
        out = B.fresh_dir(f"fresh_{name}_{seed}")
        env = dict(os.environ, PYTHONHASHSEED=str(seed), PYTHONDONTWRITEBYTECODE="1")
        env.pop("SUIT_GENERATOR_VERIF", None)
        r = subprocess.run([py, script, front.REPO, work, out, name] + ([cwd] if cwd else []), capture_output=True, text=True, env=env, timeout=300)
        if r.returncode != 0:
            return None, r.stderr[-300:]
        return O.outputs(out), None

    ref = {}
    for name in names:
        res, err = fresh(name, 0)
        B.case(("fresh", name, 0))
        if res is None:
            B.fail("operation-succeeds-in-a-fresh-interpreter", {"op": name}, err)
            continue
        ref[name] = res
    other = B.fresh_dir("othercwd")
    # decoy files in the other working directory, named like strings that occur in the descriptions (inline hex payloads, names):
    # with every input given by absolute path the working directory must not matter
    for decoy in ("C0FFEE", "AB", "00", "M", "fw.bin", "d0.json", "kconfig", "cose-alg-sha-256"):
        with open(os.path.join(other, decoy), "wb") as fh:
            fh.write(b"decoy file content \x00\x01")
    for seed in ([1, "random"] if quick else [1, 4242, "random"]):
        for name in names:
            if name not in ref or B.out_of_time():
                continue
            res, err = fresh(name, seed, cwd=other if seed == 1 else None)
            B.case(("fresh", name, seed), sample={"op": name, "PYTHONHASHSEED": seed} if name == "cache-from-envelope" else None)
            if res is None:
                B.fail("operation-succeeds-in-a-fresh-interpreter", {"op": name, "seed": seed}, err)
            elif res != ref[name]:
                diff = [k for k in ref[name] if res.get(k) != ref[name][k]]
                B.fail("same-bytes-for-every-hash-seed-and-working-directory", {"op": name, "seed": seed}, f"files differ: {diff[:4]}")
    for i in range(4):
        a, b = ref.get(f"create-json-{i}"), ref.get(f"create-yaml-{i}")
        if a is not None and b is not None:
            B.case(("json-vs-yaml", i))
            if list(a.values()) != list(b.values()):
                B.fail("json-and-yaml-renderings-give-identical-envelopes", {"description": i}, "envelopes differ")
    rng = random.Random(ctx["seed"] + 5)
    for p in range(3 if quick else 12):
        order = list(ref)
        rng.shuffle(order)
        if p == 0:
            order = sorted(order)
        elif p == 1:
            order = sorted(order, reverse=True)
        for name in order:
            if B.out_of_time():
                break
            out = B.fresh_dir(f"inproc_{p}_{name}")
            B.case(("inproc", p, name), sample={"permutation": order[:6]} if name == order[0] and p == 2 else None)
            try:
                O.run_op(name, work, out)
            except Exception as e:  # noqa: BLE001
                B.fail("operation-succeeds-after-other-operations", {"op": name, "order": order}, f"{type(e).__name__}: {str(e)[:200]}")
                continue
            res = O.outputs(out)
            if res != ref[name]:
                diff = [k for k in ref[name] if res.get(k) != ref[name][k]] + [k for k in res if k not in ref[name]]
                B.fail("result-independent-of-earlier-operations-in-the-process", {"op": name, "order": order, "position": order.index(name)}, f"files differ from the fresh-interpreter run: {diff[:4]}")
    return B.done()


EXPLANATION = ("E: whole-repository frame + reads scan against the committed whitelist; B: permuted in-process sequences vs fresh interpreters, hash seeds, working directory, "
               "JSON vs YAML. The per-function frame obligations of the other properties (executor + scan) are the P part of this formulation.")
ASSUMPTIONS = ["effects and iteration orders INSIDE PyYAML / cbor2 / intelhex / cryptography are outside the scan (exercised by B only)",
               "the whitelist (contracts/c18_whitelist.json) lists the ambient reads the property itself permits: os.urandom (IV), uuid4 (module names of plug-ins), os.environ (choice of sign/KMS script), import-time patches of _metadata"]
