"""C19 — NCS templates yield consistent dependency wiring for every image set.

There is NO deductive obligation for this property: the artefact is two Jinja2 templates interpreted by a third-party
engine, then PyYAML, then create; no verification condition can be generated for template text with what is installed
(DESIGN.md 3 C19).  What stands in, labelled bounded: a run-time contract on the real `ncs.build.render_template` followed
by the real create: WIRING_OK(envelope), evaluated by an independent interpreter of the decoded manifest (own CBOR reader,
hashlib, sha1-based UUIDv5).  The CONFIGURATION space is enumerated completely (image subsets x MPI names x version
variables); the child envelopes are sampled.
"""
import itertools
import os

PROPERTY = "C19"
LEVEL = "exploration"

POLICY_ALL = ["suit-send-record-success", "suit-send-record-failure", "suit-send-sysinfo-success", "suit-send-sysinfo-failure"]
ALGS = ["cose-alg-sha-256", "cose-alg-sha-384", "cose-alg-sha-512"]


def _child_desc(rng, vendor, cls, alg, with_text):
    d = {"SUIT_Envelope_Tagged": {
        "suit-authentication-wrapper": {"SuitDigest": {"suit-digest-algorithm-id": alg}},
        "suit-manifest": {"suit-manifest-version": 1, "suit-manifest-sequence-number": rng.randrange(1, 2 ** 20),
                          "suit-common": {"suit-components": [["M", rng.randrange(0, 255), rng.randrange(0x0E000000, 0x0E100000), rng.randrange(1, 2 ** 16)]],
                                          "suit-shared-sequence": [{"suit-directive-override-parameters": {
                                              "suit-parameter-vendor-identifier": {"RFC4122_UUID": vendor},
                                              "suit-parameter-class-identifier": {"RFC4122_UUID": {"namespace": vendor, "name": cls}}}},
                                              {"suit-condition-vendor-identifier": POLICY_ALL}, {"suit-condition-class-identifier": POLICY_ALL}]},
                          "suit-validate": [{"suit-condition-image-match": POLICY_ALL}],
                          "suit-manifest-component-id": ["INSTLD_MFST", {"RFC4122_UUID": {"namespace": vendor, "name": cls}}]}}}
    if with_text:
        d["SUIT_Envelope_Tagged"]["suit-manifest"]["suit-text"] = {"suit-digest-algorithm-id": alg}
        d["SUIT_Envelope_Tagged"]["suit-text"] = {"en": {"suit-text-manifest-description": "child " + cls}}
    return d


def wiring_problems(env_bytes, expect):
    """Independent interpreter of the created envelope. expect: {'deps': {name: child envelope bytes}, 'installed': [(vendor, class)], 'class': (vendor, class)}."""
    from bounded import cborx
    from contracts.specs_native import HASH, UUID5, NAMESPACE_DNS
    from contracts import registry as R
    out = []
    t = cborx.decode_all(env_bytes, strict=True)
    env = t.value
    manifest = cborx.decode_all(env.get(3), strict=True)
    common = cborx.decode_all(manifest.get(3), strict=True)
    comps = common.get(2) or []
    deps = common.get(1)
    dep_idx = deps.keys() if deps is not None else []
    # (1) every component index used by a command refers to a declared component
    seqs = {"shared": common.get(4)}
    for key, name in ((7, "validate"), (8, "load"), (9, "invoke"), (20, "install"), (18, "candidate-verification"), (16, "payload-fetch"), (15, "dependency-resolution")):
        v = manifest.get(key)
        if isinstance(v, bytes):
            seqs[name] = v
        if key in env:
            seqs[name + "(severed)"] = env.get(key)
    fetched = []
    for name, sb in seqs.items():
        if sb is None:
            continue
        seq = cborx.decode_all(sb, strict=True)
        cur_uri = None
        for code, arg in zip(seq[0::2], seq[1::2]):
            if code == 12:  # set-component-index
                idxs = arg if isinstance(arg, list) else ([] if isinstance(arg, bool) else [arg])
                for i in idxs:
                    if not (isinstance(i, int) and 0 <= i < len(comps)):
                        out.append(f"{name}: component index {i} used, {len(comps)} components declared")
            if code in (19, 20) and isinstance(arg, cborx.Map):
                if 21 in arg:
                    cur_uri = arg.get(21)
                if 3 in arg and cur_uri is not None:
                    fetched.append((name, cur_uri, cborx.decode_all(arg.get(3), strict=True)))
            if code == 21 and cur_uri is not None:
                fetched.append((name, cur_uri, None))
    # (2) every declared dependency is a candidate- or installed-manifest component
    for i in dep_idx:
        if not (isinstance(i, int) and 0 <= i < len(comps)):
            out.append(f"suit-dependencies key {i} is not a component index")
            continue
        first = comps[i][0] if comps[i] else b""
        kind = None
        try:
            kind = cborx.decode_all(first, strict=True)
        except Exception:  # noqa: BLE001
            pass
        if kind not in ("CAND_MFST", "INSTLD_MFST"):
            out.append(f"dependency {i} is component {comps[i]!r}: neither CAND_MFST nor INSTLD_MFST")
    # (3) every fetched '#name' has an integrated dependency of that name whose manifest digest equals the digest the parent verifies
    for where, uri, dg in fetched:
        if not (isinstance(uri, str) and uri.startswith("#")):
            continue
        if uri not in env:
            out.append(f"{where}: fetches {uri} but the envelope has no integrated dependency of that name")
            continue
        child = env.get(uri)
        if uri in expect["deps"] and child != expect["deps"][uri]:
            out.append(f"integrated dependency {uri} is not the child envelope that was supplied")
        if dg is not None:
            ct = cborx.decode_all(child, strict=True)
            name, size = R.HASHES[dg[0]]
            want = HASH(name, size, cborx.encode(ct.value.get(3)))
            if dg[1] != want:
                out.append(f"{where}: digest verified for {uri} ({name}, {len(dg[1])} bytes) is not the digest of that dependency's manifest")
    for uri in expect["deps"]:
        if uri not in env:
            out.append(f"child {uri} was supplied but is not integrated")
        elif not any(u == uri for _, u, _ in fetched):
            out.append(f"child {uri} is integrated but never fetched")
    # (4) installed-manifest class ids are those of the configured names
    got = []
    for c in comps:
        try:
            if cborx.decode_all(c[0], strict=True) == "INSTLD_MFST":
                got.append(c[1])
        except Exception:  # noqa: BLE001
            continue
    want = [UUID5(UUID5(NAMESPACE_DNS, v), c) for v, c in expect["installed"]]
    if got != want:
        out.append(f"installed-manifest class ids {[g.hex()[:8] for g in got]} differ from those of the configured names {[w.hex()[:8] for w in want]}")
    own = manifest.get(5)
    v, c = expect["class"]
    if not (isinstance(own, list) and len(own) == 2 and own[1] == UUID5(UUID5(NAMESPACE_DNS, v), c)):
        out.append("the manifest's own component id is not INSTLD_MFST + the class id of the configured root/top names")
    return out


def bounded(ctx):
    import copy, importlib, json, random, yaml
    from bounded.harness import Bounded
    from pyvc import front, native
    import logging
    native.install_log_shim()
    logging.disable(logging.CRITICAL)
    quick = ctx["tier"] == "quick"
    B = Bounded(ctx, rule="ncs.build.render_template on the two shipped templates + create, for EVERY configuration: root template: the 7 non-empty subsets of {radio, application, top} "
                          "x {default, custom-all, custom-radio-vendor-only, custom-app-only, custom-mixed-case-and-non-ascii} MPI names x {no version variables, DEFAULT_* only, APP_ROOT_* and DEFAULT_*}; top template: "
                          "its image set x 3 version settings; children sampled (digest algorithm sha-256/384/512, with/without severed text, random contents); the created envelope is "
                          "checked by an independent interpreter (component indices, dependency kinds, fetched URIs vs integrated dependencies and verified digests, class ids); "
                          "distinct by configuration", bound="configuration space complete (7 x 5 x 3 + 3); 1 (quick) / 6 (thorough) child samples per configuration", budget_s=120 if quick else 900)
    sys_path_repo = front.REPO
    build = importlib.import_module("ncs.build")
    BuildConfiguration = build.BuildConfiguration
    create = importlib.import_module("suit_generator.cmd_create")
    from suit_generator.suit.envelope import SuitEnvelopeTagged
    rng = random.Random(ctx["seed"] + 19)
    d = B.fresh_dir("c19")
    root_t = os.path.join(sys_path_repo, "ncs", "root_with_nordic_top_envelope.yaml.jinja2")
    top_t = os.path.join(sys_path_repo, "ncs", "nordic_top_envelope.yaml.jinja2")
    DEF = {"root": ("nordicsemi.com", "nRF54H20_sample_root"), "app": ("nordicsemi.com", "nRF54H20_sample_app"), "rad": ("nordicsemi.com", "nRF54H20_sample_rad")}
    MPI = {
        "default": {},
        "custom-all": {"ROOT": ("acme.com", "acme_root"), "APP_LOCAL_1": ("acme.com", "acme_app"), "RAD_LOCAL_1": ("radio-vendor.org", "acme_rad")},
        "custom-radio-vendor-only": {"RAD_LOCAL_1": ("radio-vendor.org", "nRF54H20_sample_rad")},
        "custom-app-only": {"APP_LOCAL_1": ("app-vendor.io", "my_app")},
        "custom-mixed-case-and-non-ascii": {"ROOT": ("ACME.Example", "Root Class"), "APP_LOCAL_1": ("Acme-Corp.example", "App_é"), "RAD_LOCAL_1": ("RadioWorks.IO", "RAD")},
    }
    VERS = {"none": {}, "default-only": {"DEFAULT_SEQ_NUM": 16909056, "DEFAULT_VERSION": "1.2.3"}, "explicit-and-default": {"DEFAULT_SEQ_NUM": 5, "DEFAULT_VERSION": "0.0.5-rc.1", "APP_ROOT_SEQ_NUM": 77, "APP_ROOT_VERSION": "7.7.0",
                                                                                                            "NORDIC_TOP_SEQ_NUM": 78, "NORDIC_TOP_VERSION": "7.8.0-alpha"}}

    # version settings as the NCS build produces them: a VERSION file read by the real ncs/build.read_version_file (DEFAULT_VERSION / DEFAULT_SEQ_NUM derived
    # by append_default_version_values) - for every shape of EXTRAVERSION incl. upper / mixed case and unsupported labels ("every version setting")
    for extra in ("", "rc1", "RC1", "Beta.2", "alpha", "dev", "rc.10", "ALPHA"):
        vf = f"{d}/VERSION_{extra or 'none'}"
        with open(vf, "w") as fh:
            fh.write(f"VERSION_MAJOR = 2\nVERSION_MINOR = 7\nPATCHLEVEL = 0\nVERSION_TWEAK = 3\nEXTRAVERSION = {extra}\n")
        VERS[f"VERSION-file/EXTRAVERSION={extra or '(empty)'}"] = dict(build.read_version_file(vf))

    def make_child(name, vendor, cls, k):
        desc = _child_desc(rng, vendor, cls, ALGS[k % 3], with_text=k % 2 == 1)
        e = SuitEnvelopeTagged.from_obj(copy.deepcopy(desc))
        e.update_severable_digests()
        e.update_digest()
        b = e.to_cbor()
        with open(f"{d}/{name}.suit", "wb") as fh:
            fh.write(b)
        return b

    def render_and_create(template, data, tag):
        text = build.render_template(template, data)
        y = f"{d}/{tag}.yaml"
        with open(y, "w") as fh:
            fh.write(text)
        out = f"{d}/{tag}.suit"
        create.main(input_file=y, input_format="AUTO", output_file=out)
        with open(out, "rb") as fh:
            return fh.read()

    n = 0
    images = ["radio", "application", "top"]
    for r in range(1, 4):
        for subset in itertools.combinations(images, r):
            for mpi_name, mpi in MPI.items():
                for vname, vers in VERS.items():
                    for sample in range(1 if quick else 6):
                        if B.out_of_time():
                            break
                        n += 1
                        names = {"radio": rng.choice(["radio", "hci_ipc", "rad_img"]), "application": rng.choice(["application", "app_img"]), "top": "nordic_top"}
                        rad = mpi.get("RAD_LOCAL_1", DEF["rad"])
                        app = mpi.get("APP_LOCAL_1", DEF["app"])
                        root = mpi.get("ROOT", DEF["root"])
                        cfg = {}
                        for m, (v, c) in mpi.items():
                            cfg[f"SB_CONFIG_SUIT_MPI_{m}_VENDOR_NAME"] = v
                            cfg[f"SB_CONFIG_SUIT_MPI_{m}_CLASS_NAME"] = c
                        # the sysbuild configuration goes through the REAL reader (a .config file parsed by BuildConfiguration), one build after another in
                        # this one process: values must come from THIS build's file only (a later build that leaves a name unset gets the default)
                        kc = f"{d}/sysbuild_{n % 3}.config"
                        with open(kc, "w", encoding="utf-8") as fh:
                            fh.write("# generated\nCONFIG_SOMETHING=y\n" + "".join(f'{k_}="{v_}"\n' for k_, v_ in cfg.items()))
                        data = {"sysbuild": {"config": BuildConfiguration(kc)}, "artifacts_folder": d + "/"}
                        data.update(vers)
                        deps, installed = {}, []
                        owners = {"radio": rad, "application": app, "top": ("nordicsemi.com", "nRF54H20_nordic_top")}
                        for k, img in enumerate(images):
                            if img in subset:
                                data[img] = {"name": names[img]}
                                deps["#" + names[img]] = make_child(names[img], owners[img][0], owners[img][1], n + k)
                                installed.append(owners[img])
                        case = {"template": "root", "images": list(subset), "mpi": mpi_name, "versions": vname, "sample": sample}
                        B.case(("root", subset, mpi_name, vname, sample), sample=case if n in (1, 40) else None)
                        try:
                            env = render_and_create(root_t, data, f"root{n % 4}")
                        except Exception as e:  # noqa: BLE001
                            B.fail("render-and-create-succeeds", case, f"{type(e).__name__}: {str(e)[:200]}")
                            continue
                        for msg in wiring_problems(env, {"deps": deps, "installed": installed, "class": root})[:1]:
                            B.fail("wiring-consistent", case, msg)
                        # the sequence number / version variables take effect in the documented precedence
                        from bounded import cborx
                        man = cborx.decode_all(cborx.decode_all(env, strict=True).value.get(3), strict=True)
                        want_seq = int(vers.get("APP_ROOT_SEQ_NUM", vers.get("DEFAULT_SEQ_NUM", 1)))
                        if man.get(2) != want_seq:
                            B.fail("sequence-number-from-the-version-variables", case, f"sequence number {man.get(2)}, expected {want_seq}")
    for vname, vers in VERS.items():
        for sample in range(1 if quick else 6):
            n += 1
            data = {"sysbuild": {"config": {}}, "artifacts_folder": d + "/", "secdom": {"name": "secdom"}, "sysctrl": {"name": "sysctrl"}}
            data.update(vers)
            deps = {"#secdom": make_child("secdom", "nordicsemi.com", "nRF54H20_sec", n), "#sysctrl": make_child("sysctrl", "nordicsemi.com", "nRF54H20_sys", n + 1)}
            case = {"template": "top", "versions": vname, "sample": sample}
            B.case(("top", vname, sample), sample=case if sample == 0 and vname == "none" else None)
            try:
                env = render_and_create(top_t, data, f"top{n % 4}")
            except Exception as e:  # noqa: BLE001
                B.fail("render-and-create-succeeds", case, f"{type(e).__name__}: {str(e)[:200]}")
                continue
            for msg in wiring_problems(env, {"deps": deps, "installed": [("nordicsemi.com", "nRF54H20_sec"), ("nordicsemi.com", "nRF54H20_sys")], "class": ("nordicsemi.com", "nRF54H20_nordic_top")})[:1]:
                B.fail("wiring-consistent", case, msg)
    return B.done()


EXPLANATION = "bounded stand-in only (no deductive obligation exists for Jinja2 template text): complete configuration space, sampled children, independent wiring interpreter"
ASSUMPTIONS = ["Jinja2 and PyYAML are third-party interpreters of the template text: not modelled, only executed",
               "child envelopes are sampled, not quantified; the Python half of the NCS glue (append_default_version_values) is verified under C20"]
