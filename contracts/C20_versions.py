"""C20 — Version strings and default sequence numbers preserve release ordering (contracts and lemmas)."""
import z3
from pyvc.contract import Contract, Lemma
from pyvc.types import Int, Bool, Bytes, Str, Obj, PathStr, OneOf, ListT, NoneT, Const, DictT

PROPERTY = "C20"
LEVEL = "proof"
FM = "suit_generator/suit/manifest.py"
FB = "ncs/build.py"

# ------------------------------------------------------------------------------------------------
# part conversion: digits -> their value; alpha/beta/rc -> -3/-2/-1; any other string rejected
c = Contract(FM, "SuitComponentVersion._convert_version_part", ["C20"])
c.param("part", Str())
c.variants = [("str", {"part": Str()}), ("int", {"part": Int()}), ("none", {"part": NoneT()}), ("bytes", {"part": Bytes()})]
c.returns("value", "result == ((int(part) if part.isnumeric() else -3 if part == 'alpha' else -2 if part == 'beta' else -1) "
                   "if isinstance(part, str) else part)")
c.returns("accepted", "(isinstance(part, str) and (part.isnumeric() or part == 'alpha' or part == 'beta' or part == 'rc')) "
                      "or (isinstance(part, int) and not isinstance(part, bool)) or isinstance(part, bool)")
c.raises("ValueError", when="not ((isinstance(part, str) and (part.isnumeric() or part == 'alpha' or part == 'beta' or part == 'rc')) "
                            "or isinstance(part, int))", label="unsupported_part")
c.result(Int())


# ------------------------------------------------------------------------------------------------
# Ordering lemma over the integer lists (pure arithmetic, all field values, field counts 1..6):
#   semantic-version precedence PREC(v, w)  <=>  zero-padded element-wise comparison ZLEX(L(v), L(w))
# where for a version with numeric fields r_1..r_k and optional pre-release (label l in {-3,-2,-1}, number n >= 0):
#   L(v) = [r_1..r_k]            (release)           L(v) = [r_1..r_k, l, n]  or  [r_1..r_k, l]  (pre-release)
# PREC is the statement's own definition: numeric per field; alpha < beta < rc < release; a missing trailing pre-release
# number counts as 0. It is stated for pairs with the same number of numeric fields (see DESIGN.md 5 item 8).
def _zlex_lt(a, b):
    """zero-padded element-wise (lexicographic) a < b over lists of z3 Ints."""
    n = max(len(a), len(b))
    a = list(a) + [z3.IntVal(0)] * (n - len(a))
    b = list(b) + [z3.IntVal(0)] * (n - len(b))
    def rec(i):
        if i == n:
            return z3.BoolVal(False)
        return z3.Or(a[i] < b[i], z3.And(a[i] == b[i], rec(i + 1)))
    return rec(0)


def _lex_lt(a, b):
    def rec(i):
        if i == len(a):
            return z3.BoolVal(False)
        return z3.Or(a[i] < b[i], z3.And(a[i] == b[i], rec(i + 1)))
    return rec(0)


def _prec_lt(k, rv, pv, rw, pw):
    """Semantic-version precedence v < w for k numeric fields; p* = None (release) or (label, number)."""
    rel_lt = _lex_lt(rv, rw)
    rel_eq = z3.And(*[x == y for x, y in zip(rv, rw)])
    if pv is None and pw is None:
        pre_lt = z3.BoolVal(False)
    elif pv is None:  # release vs pre-release: the release is newer
        pre_lt = z3.BoolVal(False)
    elif pw is None:
        pre_lt = z3.BoolVal(True)
    else:
        pre_lt = z3.Or(pv[0] < pw[0], z3.And(pv[0] == pw[0], pv[1] < pw[1]))
    return z3.Or(rel_lt, z3.And(rel_eq, pre_lt))


def ordering_lemma(cfg):
    out = []
    forms = ["release", "label", "label.n"]
    for k in range(1, 7):
        for fv in forms:
            for fw in forms:
                rv = [z3.Int(f"rv{i}") for i in range(k)]
                rw = [z3.Int(f"rw{i}") for i in range(k)]
                lv, nv, lw, nw = z3.Int("lv"), z3.Int("nv"), z3.Int("lw"), z3.Int("nw")
                hyps = [x >= 0 for x in rv + rw] + [nv >= 0, nw >= 0, z3.Or(lv == -3, lv == -2, lv == -1), z3.Or(lw == -3, lw == -2, lw == -1)]
                def mk(r, form, l, n):
                    if form == "release":
                        return list(r), None
                    if form == "label":
                        return list(r) + [l], (l, z3.IntVal(0))
                    return list(r) + [l, n], (l, n)
                Lv, pv = mk(rv, fv, lv, nv)
                Lw, pw = mk(rw, fw, lw, nw)
                goal = _prec_lt(k, rv, pv, rw, pw) == _zlex_lt(Lv, Lw)
                s = z3.Solver()
                s.set("timeout", 20000)
                for h in hyps:
                    s.add(h)
                s.add(z3.Not(goal))
                r = s.check()
                label = f"fields={k}/{fv}-vs-{fw}"
                if r == z3.unsat:
                    out.append((label, "discharged", {"backend": "z3"}))
                elif r == z3.sat:
                    out.append((label, "refuted", {"model": str(s.model())}))
                else:
                    out.append((label, "unknown", {"reason": s.reason_unknown()}))
    return out


Lemma("C20", "ordering", ordering_lemma, "semantic-version precedence coincides with zero-padded element-wise comparison of the lists")


def monotonicity_lemma(cfg):
    """(M,m,p,t) <lex (M',m',p',t') and m,p,t,m',p',t' < 256  =>  seq < seq'   with seq = M*2^24 + m*2^16 + p*2^8 + t."""
    v = [z3.Int(n) for n in ("M", "m", "p", "t")]
    w = [z3.Int(n + "_") for n in ("M", "m", "p", "t")]
    seq = lambda x: x[0] * 2 ** 24 + x[1] * 2 ** 16 + x[2] * 2 ** 8 + x[3]
    hyps = [x >= 0 for x in v + w] + [x < 256 for x in v[1:] + w[1:]]
    s = z3.Solver()
    for h in hyps:
        s.add(h)
    s.add(_lex_lt(v, w))
    s.add(z3.Not(seq(v) < seq(w)))
    r = s.check()
    return [("strictly-increasing", "discharged" if r == z3.unsat else "refuted" if r == z3.sat else "unknown", {"backend": "z3", "model": str(s.model()) if r == z3.sat else None})]


Lemma("C20", "seqnum-monotone", monotonicity_lemma)


# ------------------------------------------------------------------------------------------------
# ncs/build.py: default sequence number and default version string derived from a VERSION file
KEYS = ["VERSION_MAJOR", "VERSION_MINOR", "PATCHLEVEL", "VERSION_TWEAK", "EXTRAVERSION", "APP_ROOT_VERSION", "APP_ROOT_SEQ_NUM",
        "DEFAULT_VERSION", "DEFAULT_SEQ_NUM", "SYSCTRL_VERSION_MAJOR", "SYSCTRL_VERSION_MINOR", "SYSCTRL_VERSION_PATCH",
        "SYSCTRL_VERSION_TWEAK", "SYSCTRL_VERSION_EXTRA", "SCFW_VERSION", "SCFW_SEQ_NUM"]
NUMERIC = ["VERSION_MAJOR", "VERSION_MINOR", "PATCHLEVEL", "VERSION_TWEAK", "SYSCTRL_VERSION_MAJOR", "SYSCTRL_VERSION_MINOR",
           "SYSCTRL_VERSION_PATCH", "SYSCTRL_VERSION_TWEAK"]
c = Contract(FB, "append_default_version_values", ["C20"])
c.param("cfg", DictT(required={"VERSION": DictT(optional={k: Str() for k in KEYS})}))
# The function has two independent halves (application / system-controller firmware). With all 16 keys of symbolic
# presence it has ~13000 paths; each half is verified for ALL configurations of its own keys with the other half's keys
# absent (quick) - the full cross product is explored in the thorough tier only.
APP_KEYS = [k for k in KEYS if not k.startswith(("SYSCTRL_", "SCFW_"))]
SCFW_KEYS = [k for k in KEYS if k.startswith(("SYSCTRL_", "SCFW_"))]
c.variants = [("app-half", {"cfg": DictT(required={"VERSION": DictT(optional={k: Str() for k in APP_KEYS})})}),
              ("scfw-half", {"cfg": DictT(required={"VERSION": DictT(optional={k: Str() for k in SCFW_KEYS})})})]
c.let("version", "cfg['VERSION']")
# the numeric fields of a VERSION file are decimal numerals (Zephyr's version.cmake enforces this)
c.requires("numerals", " and ".join(f"('{k}' not in version or is_numeral(version['{k}']))" for k in NUMERIC))
c.let("has_mmp", "'VERSION_MAJOR' in version and 'VERSION_MINOR' in version and 'PATCHLEVEL' in version")
c.let("has_scfw", "'SYSCTRL_VERSION_MAJOR' in version and 'SYSCTRL_VERSION_MINOR' in version and 'SYSCTRL_VERSION_PATCH' in version")
c.returns("seq_num_explicit_wins", "not old('DEFAULT_SEQ_NUM' in version) or version['DEFAULT_SEQ_NUM'] == old(version['DEFAULT_SEQ_NUM'])")
c.returns("seq_num_app_root", "old('DEFAULT_SEQ_NUM' in version) or not old('APP_ROOT_SEQ_NUM' in version) "
                               "or version['DEFAULT_SEQ_NUM'] == old(version['APP_ROOT_SEQ_NUM'])")
c.returns("seq_num_default", "old('DEFAULT_SEQ_NUM' in version) or old('APP_ROOT_SEQ_NUM' in version) or not old(has_mmp) "
                             "or version['DEFAULT_SEQ_NUM'] == str(old(default_seq_num(version, 'VERSION_MAJOR', 'VERSION_MINOR', 'PATCHLEVEL', 'VERSION_TWEAK')))")
c.returns("seq_num_fallback", "old('DEFAULT_SEQ_NUM' in version) or old('APP_ROOT_SEQ_NUM' in version) or old(has_mmp) or version['DEFAULT_SEQ_NUM'] == '1'")
c.returns("scfw_seq_num", "old('SCFW_SEQ_NUM' in version) or version['SCFW_SEQ_NUM'] == "
                          "(str(old(default_seq_num(version, 'SYSCTRL_VERSION_MAJOR', 'SYSCTRL_VERSION_MINOR', 'SYSCTRL_VERSION_PATCH', 'SYSCTRL_VERSION_TWEAK'))) if old(has_scfw) else '1')")
c.returns("version_explicit_wins", "not old('DEFAULT_VERSION' in version) or version['DEFAULT_VERSION'] == old(version['DEFAULT_VERSION'])")
c.returns("version_app_root", "old('DEFAULT_VERSION' in version) or not old('APP_ROOT_VERSION' in version) "
                              "or version['DEFAULT_VERSION'] == old(version['APP_ROOT_VERSION'])")
# the derived default version string is in the grammar N.N.N[-(alpha|beta|rc)[.N]] that the manifest encoder accepts
c.returns("version_in_grammar", "old('DEFAULT_VERSION' in version) or old('APP_ROOT_VERSION' in version) or not old(has_mmp) "
                                "or in_version_grammar(version['DEFAULT_VERSION'])")
c.returns("version_release_part", "old('DEFAULT_VERSION' in version) or old('APP_ROOT_VERSION' in version) or not old(has_mmp) "
                                  "or version['DEFAULT_VERSION'].startswith(old(version['VERSION_MAJOR'] + '.' + version['VERSION_MINOR'] + '.' + version['PATCHLEVEL']))")
c.returns("version_absent_without_fields", "old('DEFAULT_VERSION' in version) or old('APP_ROOT_VERSION' in version) or old(has_mmp) "
                                           "or 'DEFAULT_VERSION' not in version")
c.returns("scfw_version_in_grammar", "old('SCFW_VERSION' in version) or not old(has_scfw) or in_version_grammar(version['SCFW_VERSION'])")
