"""C20 — Version strings and default sequence numbers preserve release ordering (contracts and lemmas)."""
import z3
from pyvc.contract import Contract, Lemma
from pyvc.types import Int, Bool, Bytes, Str, Obj, PathStr, OneOf, ListT, NoneT, Const, DictT

PROPERTY = "C20"
LEVEL = "proof"
FM = "suit_generator/suit/manifest.py"
FB = "ncs/build.py"

# ------------------------------------------------------------------------------------------------
# part conversion: digits -> their value; alpha/beta/rc -> -3/-2/-1; any other string rejected
c = Contract(FM, "SuitComponentVersion._convert_version_part", ["C20"])
c.param("part", Str())
c.variants = [("str", {"part": Str()}), ("int", {"part": Int()}), ("none", {"part": NoneT()}), ("bytes", {"part": Bytes()})]
c.returns("value", "result == ((int(part) if part.isnumeric() else -3 if part == 'alpha' else -2 if part == 'beta' else -1) "
                   "if isinstance(part, str) else part)")
c.returns("accepted", "(isinstance(part, str) and (part.isnumeric() or part == 'alpha' or part == 'beta' or part == 'rc')) "
                      "or (isinstance(part, int) and not isinstance(part, bool)) or isinstance(part, bool)")
c.raises("ValueError", when="not ((isinstance(part, str) and (part.isnumeric() or part == 'alpha' or part == 'beta' or part == 'rc')) "
                            "or isinstance(part, int))", label="unsupported_part")
c.result(Int())


# ------------------------------------------------------------------------------------------------
# Ordering lemma over the integer lists (pure arithmetic, all field values, field counts 1..6):
#   semantic-version precedence PREC(v, w)  <=>  zero-padded element-wise comparison ZLEX(L(v), L(w))
# where for a version with numeric fields r_1..r_k and optional pre-release (label l in {-3,-2,-1}, number n >= 0):
#   L(v) = [r_1..r_k]            (release)           L(v) = [r_1..r_k, l, n]  or  [r_1..r_k, l]  (pre-release)
# PREC is the statement's own definition: numeric per field; alpha < beta < rc < release; a missing trailing pre-release
# number counts as 0. It is stated for pairs with the same number of numeric fields (see DESIGN.md 5 item 8).
def _zlex_lt(a, b):
    """zero-padded element-wise (lexicographic) a < b over lists of z3 Ints."""
    n = max(len(a), len(b))
    a = list(a) + [z3.IntVal(0)] * (n - len(a))
    b = list(b) + [z3.IntVal(0)] * (n - len(b))
    def rec(i):
        if i == n:
            return z3.BoolVal(False)
        return z3.Or(a[i] < b[i], z3.And(a[i] == b[i], rec(i + 1)))
    return rec(0)


def _lex_lt(a, b):
    def rec(i):
        if i == len(a):
            return z3.BoolVal(False)
        return z3.Or(a[i] < b[i], z3.And(a[i] == b[i], rec(i + 1)))
    return rec(0)


def _prec_lt(k, rv, pv, rw, pw):
    """Semantic-version precedence v < w for k numeric fields; p* = None (release) or (label, number)."""
    rel_lt = _lex_lt(rv, rw)
    rel_eq = z3.And(*[x == y for x, y in zip(rv, rw)])
    if pv is None and pw is None:
        pre_lt = z3.BoolVal(False)
    elif pv is None:  # release vs pre-release: the release is newer
        pre_lt = z3.BoolVal(False)
    elif pw is None:
        pre_lt = z3.BoolVal(True)
    else:
        pre_lt = z3.Or(pv[0] < pw[0], z3.And(pv[0] == pw[0], pv[1] < pw[1]))
    return z3.Or(rel_lt, z3.And(rel_eq, pre_lt))


def ordering_lemma(cfg):
    out = []
    forms = ["release", "label", "label.n"]
    for k in range(1, 7):
        for fv in forms:
            for fw in forms:
                rv = [z3.Int(f"rv{i}") for i in range(k)]
                rw = [z3.Int(f"rw{i}") for i in range(k)]
                lv, nv, lw, nw = z3.Int("lv"), z3.Int("nv"), z3.Int("lw"), z3.Int("nw")
                hyps = [x >= 0 for x in rv + rw] + [nv >= 0, nw >= 0, z3.Or(lv == -3, lv == -2, lv == -1), z3.Or(lw == -3, lw == -2, lw == -1)]
                def mk(r, form, l, n):
                    if form == "release":
                        return list(r), None
                    if form == "label":
                        return list(r) + [l], (l, z3.IntVal(0))
                    return list(r) + [l, n], (l, n)
                Lv, pv = mk(rv, fv, lv, nv)
                Lw, pw = mk(rw, fw, lw, nw)
                goal = _prec_lt(k, rv, pv, rw, pw) == _zlex_lt(Lv, Lw)
                s = z3.Solver()
                s.set("timeout", 20000)
                for h in hyps:
                    s.add(h)
                s.add(z3.Not(goal))
                r = s.check()
                label = f"fields={k}/{fv}-vs-{fw}"
                if r == z3.unsat:
                    out.append((label, "discharged", {"backend": "z3"}))
                elif r == z3.sat:
                    out.append((label, "refuted", {"model": str(s.model())}))
                else:
                    out.append((label, "unknown", {"reason": s.reason_unknown()}))
    return out


Lemma("C20", "ordering", ordering_lemma, "semantic-version precedence coincides with zero-padded element-wise comparison of the lists")


def ordering_induction(cfg):
    """ANY number of numeric fields, by induction on the number k of numeric fields (k >= 1; same k on both sides):
         base   k = 1: the nine form pairs of `ordering` above (fields=1/...).
         step   PREC_{k+1}(r::v, r'::w) == (r < r' or (r == r' and PREC_k(v, w)))      [unfolding of the statement's definition]
                ZLEX(r::L(v), r'::L(w))  == (r < r' or (r == r' and ZLEX(L(v), L(w))))  [unfolding of zero-padded comparison]
                so  PREC_k == ZLEX on the tails  implies  PREC_{k+1} == ZLEX on the whole lists.
       The two unfolding identities hold by the recursive definitions; they are additionally CHECKED here against the executable encodings
       _prec_lt / _zlex_lt for k = 1..5 and every form pair, and the step itself is discharged with the tails abstracted to propositions."""
    out = []
    r0, r1 = z3.Int("r_head"), z3.Int("r_head_")
    A, Bp = z3.Bool("PREC_tail"), z3.Bool("ZLEX_tail")
    s = z3.Solver()
    s.add(A == Bp)
    s.add(z3.Not(z3.Or(r0 < r1, z3.And(r0 == r1, A)) == z3.Or(r0 < r1, z3.And(r0 == r1, Bp))))
    r = s.check()
    out.append(("step/tails-agree-implies-lists-agree", "discharged" if r == z3.unsat else "refuted" if r == z3.sat else "unknown", {"backend": "z3"}))
    forms = ["release", "label", "label.n"]
    for k in range(1, 6):
        bad = None
        for fv in forms:
            for fw in forms:
                rv = [z3.Int(f"rv{i}") for i in range(k)]
                rw = [z3.Int(f"rw{i}") for i in range(k)]
                lv, nv, lw, nw = z3.Int("lv"), z3.Int("nv"), z3.Int("lw"), z3.Int("nw")
                def mk(r, form, l, n):
                    if form == "release":
                        return list(r), None
                    if form == "label":
                        return list(r) + [l], (l, z3.IntVal(0))
                    return list(r) + [l, n], (l, n)
                Lv, pv = mk(rv, fv, lv, nv)
                Lw, pw = mk(rw, fw, lw, nw)
                unfold_prec = _prec_lt(k + 1, [r0] + rv, pv, [r1] + rw, pw) == z3.Or(r0 < r1, z3.And(r0 == r1, _prec_lt(k, rv, pv, rw, pw)))
                unfold_zlex = _zlex_lt([r0] + Lv, [r1] + Lw) == z3.Or(r0 < r1, z3.And(r0 == r1, _zlex_lt(Lv, Lw)))
                s = z3.Solver()
                s.set("timeout", 20000)
                s.add(z3.Not(z3.And(unfold_prec, unfold_zlex)))
                if s.check() != z3.unsat:
                    bad = bad or f"{fv}-vs-{fw}"
        out.append((f"unfolding-identities/fields={k}+1", "discharged" if bad is None else "refuted", {"backend": "z3", "model": bad}))
    return out


Lemma("C20", "ordering-induction", ordering_induction, "induction on the number of numeric fields: the ordering lemma for ANY number of fields")


def monotonicity_lemma(cfg):
    """(M,m,p,t) <lex (M',m',p',t') and m,p,t,m',p',t' < 256  =>  seq < seq'   with seq = M*2^24 + m*2^16 + p*2^8 + t."""
    v = [z3.Int(n) for n in ("M", "m", "p", "t")]
    w = [z3.Int(n + "_") for n in ("M", "m", "p", "t")]
    seq = lambda x: x[0] * 2 ** 24 + x[1] * 2 ** 16 + x[2] * 2 ** 8 + x[3]
    hyps = [x >= 0 for x in v + w] + [x < 256 for x in v[1:] + w[1:]]
    s = z3.Solver()
    for h in hyps:
        s.add(h)
    s.add(_lex_lt(v, w))
    s.add(z3.Not(seq(v) < seq(w)))
    r = s.check()
    return [("strictly-increasing", "discharged" if r == z3.unsat else "refuted" if r == z3.sat else "unknown", {"backend": "z3", "model": str(s.model()) if r == z3.sat else None})]


Lemma("C20", "seqnum-monotone", monotonicity_lemma)


# ------------------------------------------------------------------------------------------------
# ncs/build.py: default sequence number and default version string derived from a VERSION file
KEYS = ["VERSION_MAJOR", "VERSION_MINOR", "PATCHLEVEL", "VERSION_TWEAK", "EXTRAVERSION", "APP_ROOT_VERSION", "APP_ROOT_SEQ_NUM",
        "DEFAULT_VERSION", "DEFAULT_SEQ_NUM", "SYSCTRL_VERSION_MAJOR", "SYSCTRL_VERSION_MINOR", "SYSCTRL_VERSION_PATCH",
        "SYSCTRL_VERSION_TWEAK", "SYSCTRL_VERSION_EXTRA", "SCFW_VERSION", "SCFW_SEQ_NUM"]
NUMERIC = ["VERSION_MAJOR", "VERSION_MINOR", "PATCHLEVEL", "VERSION_TWEAK", "SYSCTRL_VERSION_MAJOR", "SYSCTRL_VERSION_MINOR",
           "SYSCTRL_VERSION_PATCH", "SYSCTRL_VERSION_TWEAK"]
c = Contract(FB, "append_default_version_values", ["C20"])
c.param("cfg", DictT(required={"VERSION": DictT(optional={k: Str() for k in KEYS})}))
# The function has two independent halves (application / system-controller firmware). With all 16 keys of symbolic
# presence it has ~13000 paths; each half is verified for ALL configurations of its own keys with the other half's keys
# absent (quick) - the full cross product is explored in the thorough tier only.
APP_KEYS = [k for k in KEYS if not k.startswith(("SYSCTRL_", "SCFW_"))]
SCFW_KEYS = [k for k in KEYS if k.startswith(("SYSCTRL_", "SCFW_"))]
c.variants = [("app-half", {"cfg": DictT(required={"VERSION": DictT(optional={k: Str() for k in APP_KEYS})})}),
              ("scfw-half", {"cfg": DictT(required={"VERSION": DictT(optional={k: Str() for k in SCFW_KEYS})})})]
c.let("version", "cfg['VERSION']")
# the numeric fields of a VERSION file are decimal numerals (Zephyr's version.cmake enforces this)
c.requires("numerals", " and ".join(f"('{k}' not in version or is_numeral(version['{k}']))" for k in NUMERIC))
c.let("has_mmp", "'VERSION_MAJOR' in version and 'VERSION_MINOR' in version and 'PATCHLEVEL' in version")
c.let("has_scfw", "'SYSCTRL_VERSION_MAJOR' in version and 'SYSCTRL_VERSION_MINOR' in version and 'SYSCTRL_VERSION_PATCH' in version")
c.returns("seq_num_explicit_wins", "not old('DEFAULT_SEQ_NUM' in version) or version['DEFAULT_SEQ_NUM'] == old(version['DEFAULT_SEQ_NUM'])")
c.returns("seq_num_app_root", "old('DEFAULT_SEQ_NUM' in version) or not old('APP_ROOT_SEQ_NUM' in version) "
                               "or version['DEFAULT_SEQ_NUM'] == old(version['APP_ROOT_SEQ_NUM'])")
c.returns("seq_num_default", "old('DEFAULT_SEQ_NUM' in version) or old('APP_ROOT_SEQ_NUM' in version) or not old(has_mmp) "
                             "or version['DEFAULT_SEQ_NUM'] == str(old(default_seq_num(version, 'VERSION_MAJOR', 'VERSION_MINOR', 'PATCHLEVEL', 'VERSION_TWEAK')))")
c.returns("seq_num_fallback", "old('DEFAULT_SEQ_NUM' in version) or old('APP_ROOT_SEQ_NUM' in version) or old(has_mmp) or version['DEFAULT_SEQ_NUM'] == '1'")
c.returns("scfw_seq_num", "old('SCFW_SEQ_NUM' in version) or version['SCFW_SEQ_NUM'] == "
                          "(str(old(default_seq_num(version, 'SYSCTRL_VERSION_MAJOR', 'SYSCTRL_VERSION_MINOR', 'SYSCTRL_VERSION_PATCH', 'SYSCTRL_VERSION_TWEAK'))) if old(has_scfw) else '1')")
c.returns("version_explicit_wins", "not old('DEFAULT_VERSION' in version) or version['DEFAULT_VERSION'] == old(version['DEFAULT_VERSION'])")
c.returns("version_app_root", "old('DEFAULT_VERSION' in version) or not old('APP_ROOT_VERSION' in version) "
                              "or version['DEFAULT_VERSION'] == old(version['APP_ROOT_VERSION'])")
# the derived default version string is in the grammar N.N.N[-(alpha|beta|rc)[.N]] that the manifest encoder accepts
c.returns("version_in_grammar", "old('DEFAULT_VERSION' in version) or old('APP_ROOT_VERSION' in version) or not old(has_mmp) "
                                "or in_version_grammar(version['DEFAULT_VERSION'])")
c.returns("version_release_part", "old('DEFAULT_VERSION' in version) or old('APP_ROOT_VERSION' in version) or not old(has_mmp) "
                                  "or version['DEFAULT_VERSION'].startswith(old(version['VERSION_MAJOR'] + '.' + version['VERSION_MINOR'] + '.' + version['PATCHLEVEL']))")
c.returns("version_absent_without_fields", "old('DEFAULT_VERSION' in version) or old('APP_ROOT_VERSION' in version) or old(has_mmp) "
                                           "or 'DEFAULT_VERSION' not in version")
c.returns("scfw_version_in_grammar", "old('SCFW_VERSION' in version) or not old(has_scfw) or in_version_grammar(version['SCFW_VERSION'])")


# ================================================================================================
# B — bounded stand-in: the real SuitComponentVersion.from_obj / ncs.build.read_version_file against the statement's own definitions
# ================================================================================================
def _precedence_key(s):
    """(numeric fields, label rank, pre-release number) from the statement: numeric per field; alpha < beta < rc < release; a missing number counts as 0."""
    rel, _, pre = s.partition("-")
    fields = [int(x) for x in rel.split(".")]
    if not pre:
        return fields, 0, 0
    label, _, num = pre.partition(".")
    return fields, {"alpha": -3, "beta": -2, "rc": -1}[label], int(num) if num else 0


def _zcmp(a, b):
    n = max(len(a), len(b))
    a, b = a + [0] * (n - len(a)), b + [0] * (n - len(b))
    return (a > b) - (a < b)


def bounded(ctx):
    import importlib, itertools, random
    from bounded.harness import Bounded
    from pyvc import native, front
    import logging
    native.install_log_shim()
    logging.disable(logging.CRITICAL)
    quick = ctx["tier"] == "quick"
    B = Bounded(ctx, rule="version strings of the grammar N(.N)*[-(alpha|beta|rc)[.N]] with fields from {0,1,2,9,10,255,256,300}: ALL strings with <= 2 numeric fields pairwise, "
                          "seeded pairs for 3..5 fields (same number of numeric fields, or both releases): sign of the statement's precedence == sign of the zero-padded comparison of "
                          "the integer lists the real from_obj stores (read back from to_cbor with the independent reader); unsupported labels rejected; VERSION files through the real "
                          "read_version_file: sequence number strictly increasing in (major, minor, patch, tweak) order for minor, patch, tweak < 256, DEFAULT_VERSION accepted by from_obj",
                bound="640 strings pairwise (204k pairs) + 20k/200k seeded pairs; 4000+ VERSION tuples x 12 EXTRAVERSION forms", budget_s=90 if quick else 600)
    man = importlib.import_module("suit_generator.suit.manifest")
    from bounded import cborx
    vals = [0, 1, 2, 9, 10, 255, 256, 300]
    pres = [""] + [f"-{l}{n}" for l in ("alpha", "beta", "rc") for n in ("", ".0", ".1", ".10")]
    conv = {}

    def lst(s):
        if s not in conv:
            o = man.SuitComponentVersion.from_obj(s)
            conv[s] = cborx.decode_all(o.to_cbor())
        return conv[s]

    def check_pair(a, b):
        ka, kb = _precedence_key(a), _precedence_key(b)
        fa, fb = ka[0], kb[0]
        n = max(len(fa), len(fb))
        pa, pb = (fa + [0] * (n - len(fa)), ka[1], ka[2]), (fb + [0] * (n - len(fb)), kb[1], kb[2])
        want = (pa > pb) - (pa < pb)
        got = _zcmp(list(lst(a)), list(lst(b)))
        if want != got:
            B.fail("list-comparison-coincides-with-version-precedence", {"a": a, "b": b}, f"precedence {want}, lists {lst(a)} vs {lst(b)} compare {got}")
            return False
        return True

    small = [".".join(map(str, f)) + p for k in (1, 2) for f in itertools.product(vals, repeat=k) for p in pres]
    by_count = {}
    for s in small:
        by_count.setdefault(len(_precedence_key(s)[0]), []).append(s)
    ok = True
    for k, strs in by_count.items():
        for a in strs:
            for b in strs:
                B.evaluations += 1
                if ok and not check_pair(a, b):
                    ok = False
    B.distinct.update(("pairwise", k, len(v)) for k, v in by_count.items())
    B.samples.append({"pairwise_strings": len(small), "example": small[137]})
    rng = random.Random(ctx["seed"] + 20)
    for i in range(20000 if quick else 200000):
        k = rng.choice((3, 3, 4, 5, 6))
        mk = lambda: ".".join(str(rng.choice(vals + [rng.randrange(301)])) for _ in range(k)) + rng.choice(pres)
        a, b = mk(), mk()
        if rng.random() < 0.3:  # near-equal pairs
            b = a.rsplit("-", 1)[0] + rng.choice(pres)
        B.case((a, b), sample={"a": a, "b": b} if i == 7 else None)
        if not check_pair(a, b):
            break
    # releases of DIFFERENT field counts
    for i in range(3000):
        a = ".".join(str(rng.choice(vals)) for _ in range(rng.randrange(1, 7)))
        b = ".".join(str(rng.choice(vals)) for _ in range(rng.randrange(1, 7)))
        B.case(("rel", a, b))
        if not check_pair(a, b):
            break
    for bad in ("1.0-gamma", "1.0-RC", "1.0-Alpha", "1.0-", "1..0", "1.0-rc1", "a.b", "1.0-pre.1", "1.0+build", "-1"):
        B.case(("reject", bad))
        try:
            man.SuitComponentVersion.from_obj(bad)
        except ValueError:
            continue
        except Exception as e:  # noqa: BLE001
            B.fail("unsupported-label-rejected-with-ValueError", {"version": bad}, f"{type(e).__name__}: {e}")
            continue
        B.fail("unsupported-label-rejected-with-ValueError", {"version": bad}, "accepted")
    # VERSION files
    import sys
    sys.path.insert(0, front.REPO)
    build = importlib.import_module("ncs.build")
    d = B.fresh_dir("c20")
    tuples = sorted(set(itertools.product([0, 1, 2, 127, 128, 255, 256, 300], [0, 1, 255], [0, 1, 255], [None, 0, 1, 255])), key=lambda t: (t[0], t[1], t[2], -1 if t[3] is None else t[3]))
    prev = None
    extras = [None, "", "rc1", "rc.1", "alpha", "beta2", "beta.10", "dev", "RC1", "Beta", "rc", "something-else"]
    for i, (M, m, p, t) in enumerate(tuples):
        ev = extras[i % len(extras)]
        path = f"{d}/VERSION"
        with open(path, "w") as fh:
            fh.write(f"VERSION_MAJOR = {M}\nVERSION_MINOR = {m}\nPATCHLEVEL = {p}\n" + (f"VERSION_TWEAK = {t}\n" if t is not None else "") + (f"EXTRAVERSION = {ev}\n" if ev is not None else ""))
        case = {"major": M, "minor": m, "patch": p, "tweak": t, "extraversion": ev}
        B.case(("VERSION", M, m, p, t, ev), sample=case if i == 50 else None)
        try:
            items = dict(build.read_version_file(path))
        except Exception as e:  # noqa: BLE001
            B.fail("version-file-is-read", case, f"{type(e).__name__}: {e}")
            continue
        seq = int(items["DEFAULT_SEQ_NUM"])
        key = (M, m, p, 0 if t is None else t)
        if prev is not None and key > prev[0] and not seq > prev[1]:
            B.fail("default-sequence-number-strictly-increasing", case, f"{key} -> {seq} after {prev[0]} -> {prev[1]}")
        if prev is None or key >= prev[0]:
            prev = (key, seq)
        try:
            man.SuitComponentVersion.from_obj(items["DEFAULT_VERSION"])
        except Exception as e:  # noqa: BLE001
            B.fail("default-version-string-accepted-by-the-encoder", case, f"DEFAULT_VERSION {items.get('DEFAULT_VERSION')!r}: {type(e).__name__}: {e}")
    return B.done()
