"""C03 — Parse then create reproduces the envelope.

B  (bounded stand-in, the deciding check of this property at present): for envelopes in the image of create over the
   generated description language (contracts/C02's generator: every name, union alternative, nesting, severed members, signed
   wrappers with CWT payloads, integrated payloads and dependency envelopes) and the envelopes derived from them by severing:
   `parse` (cmd_parse.main, YAML and JSON, with and without hierarchy expansion) followed by `create` (cmd_create.main) must
   regenerate a byte-identical envelope (manifest, authentication wrapper, severed members, integrated payloads and dependencies).
P  the generic from_cbor/to_obj node types are under contract for C17 (exception escapes, payload invariants); the MIRROR
   lemmas (to_cbor . from_obj . to_obj . from_cbor == identity) are not discharged by the verifier - see DESIGN.md; P here is
   limited to the symbolic round trip on description templates (thorough tier) where it goes through.

Known-lossy input classes (genuine defects of the union design, recorded as known findings, each with its own obligation so
that any OTHER loss is still reported): a suit-parameter-content / key-id byte string whose bytes start with a CBOR integer is
shown and re-created as that integer.
"""
import copy
import os

PROPERTY = "C03"
LEVEL = "other"


def _roundtrip(env_bytes, d, fmt, hierarchy, n):
    import importlib
    parse = importlib.import_module("suit_generator.cmd_parse")
    create = importlib.import_module("suit_generator.cmd_create")
    inp, mid, out = f"{d}/e{n}.suit", f"{d}/e{n}.{fmt}", f"{d}/r{n}.suit"
    with open(inp, "wb") as fh:
        fh.write(env_bytes)
    parse.main(input_file=inp, output_file=mid, output_format="AUTO", parse_hierarchy=hierarchy)
    create.main(input_file=mid, input_format="AUTO", output_file=out)
    with open(out, "rb") as fh:
        return fh.read()


def _members(b):
    from bounded import cborx
    t = cborx.decode_all(b, strict=True)
    return {repr(k): v for k, v in t.value.pairs}


def _diff(a, b):
    try:
        ma, mb = _members(a), _members(b)
    except Exception as e:  # noqa: BLE001
        return f"regenerated envelope is not a tagged map: {e}"
    names = {"2": "authentication wrapper", "3": "manifest", "15": "dependency-resolution", "16": "payload-fetch", "17": "install-legacy", "18": "candidate-verification", "20": "install", "23": "text"}
    out = []
    for k in ma:
        if k not in mb:
            out.append(f"{names.get(k, k)} dropped")
        elif ma[k] != mb[k]:
            out.append(f"{names.get(k, k)} differs ({len(ma[k])} -> {len(mb[k])} bytes)")
    for k in mb:
        if k not in ma:
            out.append(f"{names.get(k, k)} added")
    if not out and list(ma) != list(mb):
        out.append("member order differs")
    return "; ".join(out) or "same members, different envelope bytes"


def _lossy_hex(h, allow_negative):
    """Does the byte string (hex) start with a CBOR integer (the union's first alternative would claim it)?"""
    if not h:
        return False
    b0 = int(h[:2], 16)
    if b0 <= 0x1B or b0 in (0xC2, 0xF4, 0xF5, 0xF6):  # uint, bignum, false / true (bool is an int in Python), null (the scalar types accept None)
        return True
    return allow_negative and (0x20 <= b0 <= 0x3B or b0 == 0xC3)


def _sanitize(x, path=()):
    """Keep the sweep inside the part of the language that is NOT in a known-lossy class (those have their own cases)."""
    if isinstance(x, dict):
        out = {}
        for k, v in x.items():
            if k == "suit-parameter-content" and isinstance(v, str) and _lossy_hex(v, False):
                v = "f0" + v[2:]
            if k == "suit-cose-key-id" and isinstance(v, str) and _lossy_hex(v, True):
                v = "f0" + v[2:]
            if k == "ciphertext" and isinstance(v, str) and v[:2].lower() == "f6":
                v = "f0" + v[2:]  # a ciphertext starting with the CBOR encoding of null is claimed by the SuitNull alternative
            out[k] = _sanitize(v, path + (k,))
        return out
    if isinstance(x, list):
        return [_sanitize(v, path) for v in x]
    return x


def _create(desc):
    from suit_generator.suit.envelope import SuitEnvelopeTagged
    e = SuitEnvelopeTagged.from_obj(copy.deepcopy(desc))
    e.update_severable_digests()
    e.update_digest()
    return e.to_cbor()


def _severed(desc):
    d = copy.deepcopy(desc)
    for k in ("suit-payload-fetch", "suit-install", "suit-dependency-resolution", "suit-candidate-verification", "suit-text", "suit-integrated-payloads", "suit-integrated-dependencies"):
        d["SUIT_Envelope_Tagged"].pop(k, None)
    return d


KNOWN_LOSSY = [
    ("known-lossy/parameter-content-bytes-starting-with-a-cbor-uint", lambda: {"suit-parameter-content": "0505"}),
    ("known-lossy/parameter-content-single-byte-uint", lambda: {"suit-parameter-content": "05"}),
    ("known-lossy/parameter-content-bytes-starting-with-a-cbor-simple-value", lambda: {"suit-parameter-content": "f4aabb"}),
    ("known-lossy/component-part-single-non-ascii-character", lambda: {"__component__": "\u00e9"}),
    ("known-lossy/ciphertext-bytes-starting-with-cbor-null", lambda: {"suit-parameter-encryption-info": {"CoseEncryptTagged": {
        "protected": {"suit-cose-algorithm-id": "cose-alg-aes-gcm-256"}, "unprotected": {}, "ciphertext": "f6aa", "recipients": []}}}),
]


def _shown(params):
    if "__component__" in params:
        return params["__component__"]
    if "suit-parameter-content" in params:
        return params["suit-parameter-content"]
    return params["suit-parameter-encryption-info"]["CoseEncryptTagged"]["ciphertext"]


def bounded(ctx):
    from bounded.harness import Bounded
    from bounded import gen_desc as G
    from pyvc import native
    import logging
    native.install_log_shim()
    logging.disable(logging.CRITICAL)
    quick = ctx["tier"] == "quick"
    B = Bounded(ctx, rule="cmd_parse.main (yaml / json, +/- hierarchy expansion) followed by cmd_create.main on envelopes created from the generated description language "
                          "and on their severed forms: the regenerated envelope must be byte-identical (manifest, authentication wrapper incl. signatures, severed members, "
                          "integrated payloads and dependencies); distinct by (description, format, hierarchy mode)",
                bound=f"systematic set + {60 if quick else 1500} seeded random descriptions (dependency nesting <= 2), 2 formats x 2 hierarchy modes", budget_s=150 if quick else 1200)
    cases = G.systematic(ctx["seed"]) + G.sample(ctx["seed"] + 7, 60 if quick else 1500)
    d = B.fresh_dir("c03")
    n = 0
    for name, desc in cases:
        if B.out_of_time():
            break
        desc = _sanitize(desc)
        variants = [("as-created", desc)]
        if n % 3 == 0:
            variants.append(("severed", _severed(desc)))
        for vname, dv in variants:
            try:
                env0 = _create(dv)
            except Exception as e:  # noqa: BLE001
                continue  # create's acceptance is C02's; only envelopes in the image of create are in scope here
            combos = [("yaml", False), ("json", False), ("yaml", True), ("json", True)]
            if quick:
                combos = [combos[n % 4], combos[(n + 3) % 4]] if "integrated-dependencies" not in str(dv.keys()) else combos
            for fmt, hier in combos:
                n += 1
                case = {"name": name, "variant": vname, "format": fmt, "parse_hierarchy": hier, "seed": ctx["seed"], "description": dv}
                B.case((name, vname, fmt, hier), sample={k: case[k] for k in ("name", "variant", "format", "parse_hierarchy")} if n in (2, 50) else None)
                try:
                    env1 = _roundtrip(env0, d, fmt, hier, n % 8)
                except Exception as e:  # noqa: BLE001
                    B.fail("parse-then-create-succeeds", case, f"{type(e).__name__}: {str(e)[:200]}")
                    continue
                if env1 != env0:
                    B.fail("regenerated-envelope-is-byte-identical", case, _diff(env0, env1))
    # the known-lossy classes, each under its own obligation
    base = G.envelope(__import__("random").Random(5), severed=[], n_auth=0, members=[])
    for label, mk in KNOWN_LOSSY:
        dv = copy.deepcopy(base)
        dv["SUIT_Envelope_Tagged"]["suit-manifest"]["suit-validate"] = [{"suit-directive-override-parameters": mk()}]
        if "__component__" in mk():
            dv["SUIT_Envelope_Tagged"]["suit-manifest"]["suit-validate"] = [{"suit-condition-abort": []}]
            dv["SUIT_Envelope_Tagged"]["suit-manifest"]["suit-common"]["suit-components"] = [[mk()["__component__"], 2]]
        env0 = _create(dv)
        case = {"name": label, "variant": "as-created", "format": "yaml", "parse_hierarchy": False, "seed": 0, "description": dv}
        B.case(label)
        try:
            env1 = _roundtrip(env0, d, "yaml", False, 9)
            import yaml
            y = yaml.safe_load(open(f"{d}/e9.yaml"))["SUIT_Envelope_Tagged"]["suit-manifest"]
            shown = y["suit-common"]["suit-components"][0][0] if "__component__" in mk() else _shown(y["suit-validate"][0]["suit-directive-override-parameters"])
        except Exception as e:  # noqa: BLE001
            B.fail(label, case, f"{type(e).__name__}: {e}")
            continue
        want = _shown(mk())
        if env1 != env0 or shown != want:
            B.fail(label, case, f"byte string {want!r} is shown as {shown!r}" + ("" if env1 == env0 else "; " + _diff(env0, env1)))
    return B.done()


def replay_case(case):
    import tempfile, shutil
    from pyvc import native
    native.install_log_shim()
    d = tempfile.mkdtemp(prefix="verif_c03_")
    try:
        env0 = _create(case["description"])
        env1 = _roundtrip(env0, d, case["format"], case["parse_hierarchy"], 0)
        return env0 == env1, None if env0 == env1 else _diff(env0, env1)
    except Exception as e:  # noqa: BLE001
        return False, f"{type(e).__name__}: {e}"
    finally:
        shutil.rmtree(d, ignore_errors=True)


EXPLANATION = ("P: symbolic parse-then-create round trip on description templates with symbolic leaves; B: byte-level round trip through the CLI entry points over the "
               "generated description language")
ASSUMPTIONS = ["P covers the listed template shapes for all leaf values under the input assumptions: text parts of component identifiers have at least two characters; byte strings "
               "given in hex for parameter content / key ids / ciphertext start with a byte of CBOR major type 2..5 (outside the recorded known-lossy classes)",
               "cbor2.loads: the kind of the decoded value is tied to the major type of the first byte (RFC 8949); law A1 for bytes produced by ENC",
               "YAML/JSON file forms live in PyYAML/json (third party): only exercised (B), not modelled"]


# ================================================================================================
# P — symbolic round trip on description templates (all leaf values): the real parse (`from_suit_file`: from_cbor + to_obj)
# is executed on the bytes the real create produced for a template with symbolic leaves; re-creating from the description it
# returns (the real `prepare_suit_data`, executed by the same executor) must give the same encoding - compared structurally
# through law A1/A3 (contracts/C02_wire.tree_goals).
# ================================================================================================
import z3  # noqa: E402
from pyvc.contract import Contract, REGISTRY  # noqa: E402
from pyvc.types import Computed, PathStr, ClsT  # noqa: E402
from contracts import C02_wire as W  # noqa: E402

FIO = "suit_generator/input_output.py"
P_TEMPLATES = ["commands", "nesting"] + (["parameters-a", "parameters-b", "severed-members-text-payload", "auth-blocks-cwt", "encryption-info-recipients", "dependencies-nested-envelope"]
                                         if os.environ.get("VERIF_TIER") == "thorough" else [])


def _setup_created_file(name):
    def setup(it, env):
        """FS[file_name] := the bytes the real create produces for the template (origins recorded by the ENC stub)."""
        from pyvc import symdesc as SD
        leaves = {}
        desc = SD.build(it, W.TEMPLATES[name](), leaves)
        for lname, v in leaves.items():
            # text parts of component identifiers: at least two characters here - a SINGLE character part is encoded as its raw
            # bytes (SuitBchar) and is not recognised again unless it is one ASCII letter (known finding, own bounded obligation)
            if lname.startswith(("comp_", "cid_text", "prefix")):
                it.assume(z3.Length(v.e) >= 2)
            # byte strings the unions would re-interpret (known finding): keep the first byte a CBOR major type 2..5 here
            if lname in ("content", "kid_hex", "rk2", "cek", "cwid"):
                b = it.stubs.UNHEX(v.e)
                it.assume(z3.And(z3.Length(v.e) >= 2, b[0] >= 0x40, b[0] <= 0xBF))
        fi = it.get_func(FIO, "InputOutputMixin.prepare_suit_data")
        created = it.call_function(fi, [desc], {}, force_inline=True)
        path = env.lookup("file_name")
        pt = it.stubs.path_term(it, path)
        it.assume(it.fs.exists(pt))
        it.fs.write(pt, "b", created.e)
        env.set("CREATED", created)
    return setup


def _recreate_equals(it, ctx):
    if ctx.outcome != "return":
        return None
    fi = it.get_func(FIO, "InputOutputMixin.prepare_suit_data")
    again = it.call_function(fi, [ctx.result], {}, force_inline=True)
    goals = []
    W.tree_goals(it, again, ctx.env.lookup("CREATED"), "recreated_envelope_equals_parsed_envelope", goals)
    return [("recreated_envelope_equals_parsed_envelope", z3.And(*[g for _, g in goals]) if goals else z3.BoolVal(True))]


c = Contract(FIO, "InputOutputMixin.from_suit_file", ["C03"])
c.param("cls", ClsT("suit_generator/envelope.py", "SuitEnvelope"))
c.param("file_name", PathStr())
c.variants = [(n, {}) for n in P_TEMPLATES]
c.setup = lambda it, env: _setup_created_file(it.variant_label)(it, env)
c.check("roundtrip", _recreate_equals)
c.raises("ValueError")
c.max_paths = 400
