"""pyvc path executor: symbolic execution of the repository's Python `ast` into z3 terms.

One Interp instance explores ONE path of one function under contract; the driver in `verify.py`
re-executes the function once per path (decision-log DFS), which keeps the mutable heap model
trivial (no state copying) and the exploration deterministic.
"""
from __future__ import annotations
import ast
import z3

from .values import *  # noqa: F401,F403
from .values import V, VNone, NONE, VInt, VBool, VBytes, VStr, VFloat, VList, VTuple, VSeq, VDict, DEntry, VObj, \
    VClass, VEnum, VFunc, VBuiltin, VTag, VOpaque, VExc, VLib, PyRaise, OutOfSubset, mk, conc_key, BSort, SSort
from . import front
from .front import FuncInfo, ClassInfo, ModuleInfo


_PURE_CACHE = {}
_ARITH_KINDS = None


def is_pure_arith(e) -> bool:
    """Only Int/Bool constants, numerals and arithmetic / boolean / comparison operators (no function symbols, no sequences)."""
    global _ARITH_KINDS
    if _ARITH_KINDS is None:
        _ARITH_KINDS = {z3.Z3_OP_ADD, z3.Z3_OP_SUB, z3.Z3_OP_MUL, z3.Z3_OP_UMINUS, z3.Z3_OP_IDIV, z3.Z3_OP_MOD, z3.Z3_OP_LE, z3.Z3_OP_LT, z3.Z3_OP_GE,
                        z3.Z3_OP_GT, z3.Z3_OP_EQ, z3.Z3_OP_DISTINCT, z3.Z3_OP_AND, z3.Z3_OP_OR, z3.Z3_OP_NOT, z3.Z3_OP_IMPLIES, z3.Z3_OP_ITE,
                        z3.Z3_OP_TRUE, z3.Z3_OP_FALSE, z3.Z3_OP_ANUM, z3.Z3_OP_XOR, z3.Z3_OP_IFF if hasattr(z3, "Z3_OP_IFF") else z3.Z3_OP_EQ}
    if isinstance(e, bool):
        return True
    k = e.get_id()
    if k in _PURE_CACHE:
        return _PURE_CACHE[k][1]
    ok = True
    if not (z3.is_int(e) or z3.is_bool(e)) or not z3.is_app(e):
        ok = False
    else:
        kind = e.decl().kind()
        if kind == z3.Z3_OP_UNINTERPRETED:
            ok = e.num_args() == 0
        elif kind in _ARITH_KINDS:
            ok = all(is_pure_arith(c) for c in e.children())
        else:
            ok = False
    if len(_PURE_CACHE) > 200000:
        _PURE_CACHE.clear()
    _PURE_CACHE[k] = (e, ok)  # the term is kept alive so that its AST id cannot be reused while cached
    return ok


def _const_vs_uninterpreted(atom):
    if not (z3.is_app(atom) and atom.decl().kind() == z3.Z3_OP_EQ and atom.num_args() == 2):
        return False
    a, b = atom.arg(0), atom.arg(1)
    for x, y in ((a, b), (b, a)):
        if z3.is_string_value(x) and z3.is_app(y) and y.num_args() > 0 and y.decl().kind() == z3.Z3_OP_UNINTERPRETED:
            return True
    return False


class Infeasible(Exception):
    """The current path condition became unsatisfiable."""


class _Return(Exception):
    def __init__(self, value):
        self.value = value


class _Break(Exception):
    pass


class _Continue(Exception):
    pass


class PathEnd(Exception):
    """The path ends here without reaching the function's exit: one arbitrary iteration of a loop summarised by its
    invariant has been checked (the obligations collected so far are still discharged by the driver)."""


class VSuper(V):
    def __init__(self, cls, self_obj):
        self.cls = cls
        self.self_obj = self_obj


class OldEnv(V):
    def __init__(self, env, fs=None):
        self.env = env
        self.fs = fs


class VPoison(V):
    def __init__(self, reason):
        self.reason = reason

    def __repr__(self):
        return f"<poison {self.reason}>"


class Env:
    """Lexical environment: locals over an optional enclosing env over module globals."""

    def __init__(self, module: ModuleInfo | None, parent: "Env" | None = None):
        self.vars = {}
        self.module = module
        self.parent = parent

    def lookup(self, name):
        e = self
        while e is not None:
            if name in e.vars:
                return e.vars[name]
            e = e.parent
        return None

    def set(self, name, value):
        self.vars[name] = value


class World:
    """Loaded repository modules (executed symbolically, top to bottom) shared by all paths of a run."""

    def __init__(self):
        self.modules = {}
        self.loading = set()


class Interp:
    MAX_INLINE_DEPTH = 40
    MAX_LOOP = 70

    def __init__(self, world: World, decisions=None, contracts=None, solver_timeout_ms=10000, verifying=None):
        self.world = world
        self.decisions = list(decisions or [])
        self.pos = 0
        self.new_alternatives = []  # decision prefixes to explore later
        self.pc = []  # path condition (list of z3 Bool)
        self.len_vars = {}  # sexpr of Length(t) -> its integer abstraction variable
        self.fact_index = set()  # sexprs of assumed facts (a condition that literally is a fact needs no solver)
        self.arith_facts = []  # facts over integer/boolean constants only (no sequences, strings or function symbols)
        self.pc_index = {}  # sexpr of decided condition -> bool
        self.constrained_bools = set()  # propositional variables mentioned by some assumed fact
        self.facts = []  # assumptions: type facts, requires, stub axioms, callee posts
        self.fact_notes = []
        self.counter = 0
        self.contracts = contracts or {}
        self.verifying = verifying  # qualname key of the function being verified (its own contract is not used, except recursion)
        self.solver_timeout_ms = solver_timeout_ms
        self.trace = []  # ordered effects: ('write', pathV, contentV, mode) / ('call', name, args)
        self.fs = None  # ghost file system (set by stubs.FS)
        self.call_depth = 0
        self.call_obligations = []  # (label, z3 goal, note) pre@call obligations collected on this path
        self.inlined = set()
        self.used_stubs = set()
        self.assumptions_used = set()
        self.ghost = {}
        self.euclid = {}
        self.solver_calls = 0
        self.solver_time = 0.0
        self.active_calls = []
        self.known_lens = {}  # sexpr of a byte term -> its concrete length (syntactic knowledge used by structural slicing)
        self.pure = False  # clause-evaluation mode: total (exception-free), non-forking boolean structure
        from . import stubs
        self.stubs = stubs
        stubs.init(self)

    # ------------------------------------------------------------------ fresh symbols / facts
    def fresh_name(self, hint):
        self.counter += 1
        return f"{hint}!{self.counter}"

    def fresh_int(self, hint="i", lo=None, hi=None):
        x = z3.Int(self.fresh_name(hint))
        if lo is not None:
            self.assume(x >= lo)
        if hi is not None:
            self.assume(x <= hi)
        return VInt(x)

    def fresh_bool(self, hint="b"):
        return VBool(z3.Bool(self.fresh_name(hint)))

    def fresh_bytes(self, hint="by", length=None):
        x = z3.Const(self.fresh_name(hint), BSort)
        if length is not None:
            self.assume(z3.Length(x) == (length.e if isinstance(length, VInt) else length))
            n = length.conc if isinstance(length, VInt) else length if isinstance(length, int) else None
            if n is not None:
                self.known_lens[x.sexpr()] = n
        return VBytes(x)

    def fresh_str(self, hint="s"):
        return VStr(z3.Const(self.fresh_name(hint), SSort))

    def assume(self, fact, note=None):
        fact = z3.simplify(fact) if not isinstance(fact, bool) else z3.BoolVal(fact)
        if z3.is_true(fact):
            return
        self.facts.append(fact)
        self.fact_index.add(fact.sexpr())
        rf = self.relax(fact)
        if rf is not None and is_pure_arith(rf):
            self.arith_facts.append(rf)
        self._note_bools(fact)

    def _note_bools(self, e, depth=0):
        if depth > 60:
            return
        if z3.is_const(e):
            if z3.is_bool(e) and e.decl().kind() == z3.Z3_OP_UNINTERPRETED:
                self.constrained_bools.add(e.sexpr())
            return
        if z3.is_app(e) and z3.is_bool(e):
            for ch in e.children():
                if z3.is_bool(ch):
                    self._note_bools(ch, depth + 1)

    # ------------------------------------------------------------------ solver
    def _solver(self, timeout_ms=None):
        s = z3.Solver()
        s.set("timeout", timeout_ms or self.solver_timeout_ms)
        for f in self.facts:
            s.add(f)
        for f in self.pc:
            s.add(f)
        return s

    FEAS_TIMEOUT_MS = 1500

    def relax(self, e):
        """Length(t) -> a persistent non-negative integer variable per term t (lengths-as-integers abstraction); the result is
        an over-approximation of e (it only forgets how lengths relate to contents). None if the walk fails."""
        cache = {}
        keep = []

        def walk(x):
            k = x.get_id()
            if k in cache:
                return cache[k]
            if z3.is_app(x):
                if x.decl().kind() == z3.Z3_OP_SEQ_LENGTH:
                    key = x.sexpr()
                    v = self.len_vars.get(key)
                    if v is None:
                        v = z3.Int(f"len!{len(self.len_vars)}")
                        self.len_vars[key] = v
                        self.arith_facts.append(v >= 0)
                    r = v
                else:
                    ch = [walk(c) for c in x.children()]
                    r = x.decl()(*ch) if ch else x
            else:
                r = x
            cache[k] = r
            keep.append(x)
            return r
        try:
            return walk(e)
        except Exception:
            return None

    def check_sat(self, extra=None, timeout_ms=None):
        """'sat' | 'unsat' | 'unknown' for facts ∧ pc ∧ extra (short budget: unknown counts as feasible)."""
        import time
        if extra is not None and not is_pure_arith(extra):
            rx = self.relax(extra)
            if rx is not None and is_pure_arith(rx):
                extra = rx  # a condition over integers and sequence LENGTHS only: decided in the lengths-as-integers abstraction
        if extra is not None and is_pure_arith(extra):
            # pure integer/boolean condition: decided against the pure-arithmetic part of the hypotheses only. `unsat` there
            # is `unsat` of the whole (sound); `sat` there is treated as feasible (over-approximation of path feasibility).
            s = z3.Solver()
            s.set("timeout", timeout_ms or self.FEAS_TIMEOUT_MS)
            for f in self.arith_facts:
                s.add(f)
            for f in self.pc:
                rf = self.relax(f)
                if rf is not None and is_pure_arith(rf):
                    s.add(rf)
            s.add(extra)
            t = time.time()
            r = s.check()
            self.solver_calls += 1
            self.solver_time += time.time() - t
            return str(r)
        s = self._solver(timeout_ms or self.FEAS_TIMEOUT_MS)
        if extra is not None:
            s.add(extra)
        t = time.time()
        r = s.check()
        self.solver_calls += 1
        self.solver_time += time.time() - t
        if r == z3.unknown:
            # the length-only relaxation can still refute (sound: it only forgets constraints)
            from . import smt
            rel = smt.relaxed_lengths(list(self.facts) + list(self.pc) + ([extra] if extra is not None else []))
            if rel is not None:
                s2 = z3.Solver()
                s2.set("timeout", self.FEAS_TIMEOUT_MS)
                for f in rel:
                    s2.add(f)
                if s2.check() == z3.unsat:
                    return "unsat"
        return str(r)

    def feasible(self, cond):
        return self.check_sat(cond) != "unsat"

    def must(self, cond) -> bool:
        """True iff cond is implied by the current path (proved); unknown counts as not proved."""
        cond = z3.simplify(cond)
        if z3.is_true(cond):
            return True
        if z3.is_false(cond):
            return False
        # first the length-only relaxation (sound for `unsat`, and much cheaper than the sequence theory)
        from . import smt
        rel = smt.relaxed_lengths(list(self.facts) + list(self.pc) + [z3.Not(cond)])
        if rel is not None:
            s = z3.Solver()
            s.set("timeout", self.FEAS_TIMEOUT_MS)
            for f in rel:
                s.add(f)
            self.solver_calls += 1
            if s.check() == z3.unsat:
                return True
        return self.check_sat(z3.Not(cond)) == "unsat"

    def branch(self, cond) -> bool:
        """Decide a symbolic condition on this path (forking: the other side is queued if feasible)."""
        if isinstance(cond, VBool):
            cond = cond.e if cond.conc is None else cond.conc
        if isinstance(cond, bool):
            return cond
        cond = z3.simplify(cond)
        if z3.is_true(cond):
            return True
        if z3.is_false(cond):
            return False
        # a condition (or its negation) that is literally part of the path condition is already decided
        key = cond.sexpr()
        if key in self.pc_index:
            return self.pc_index[key]
        if key in self.fact_index:
            return True
        if z3.is_not(cond) and cond.arg(0).sexpr() in self.fact_index:
            return False
        if self.pos < len(self.decisions):
            d = self.decisions[self.pos]
            self.pos += 1
            self._push_pc(cond, d)
            return d
        atom = cond.arg(0) if z3.is_not(cond) else cond
        if z3.is_const(atom) and atom.decl().kind() == z3.Z3_OP_UNINTERPRETED and atom.sexpr() not in self.constrained_bools:
            # a fresh propositional variable nothing else talks about: both sides are feasible, no solver call needed
            can_t = can_f = True
        elif _const_vs_uninterpreted(atom):
            # "<literal> == F(...)" for an uninterpreted F (HEX(UUID5(..)) against a table key): taken as feasible both ways without
            # asking the solver - an over-approximation of feasibility, which is always sound (an infeasible path proves vacuously)
            can_t = can_f = True
        else:
            can_t = self.feasible(cond)
            can_f = self.feasible(z3.Not(cond))
        if can_t and can_f:
            self.new_alternatives.append(self.decisions[: self.pos] + [False])
            d = True
        elif can_t:
            d = True
        elif can_f:
            d = False
        else:
            raise Infeasible()
        self.decisions.append(d)
        self.pos += 1
        self._push_pc(cond, d)
        return d

    def _push_pc(self, cond, d):
        self.pc.append(cond if d else z3.Not(cond))
        self.pc_index[cond.sexpr()] = d
        neg = z3.simplify(z3.Not(cond))
        self.pc_index[neg.sexpr()] = not d

    def choose(self, n, hint="choice") -> int:
        """Nondeterministic choice among n alternatives (each becomes its own path)."""
        for i in range(n - 1):
            b = z3.Bool(self.fresh_name(f"{hint}{i}"))
            if self.branch(b):
                return i
        return n - 1

    # ------------------------------------------------------------------ exceptions
    def raise_(self, cls, msg=""):
        e = VExc(cls, (mk(msg),))
        e.where = "%s:%s" % getattr(self, "cur_where", ("?", 0))
        e.msg = msg
        raise PyRaise(e)

    def exc_matches(self, exc: VExc, handler_type: V) -> bool:
        if isinstance(handler_type, VTuple):
            return any(self.exc_matches(exc, t) for t in handler_type.items)
        if isinstance(handler_type, VClass):
            target = self.pyclass_of(handler_type)
            return issubclass(exc.cls, target)
        raise OutOfSubset(f"except handler type {handler_type}")

    def pyclass_of(self, vc: VClass):
        if vc.py is not None:
            return vc.py
        return self.stubs.repo_exception_class(self, vc.info)

    # ------------------------------------------------------------------ modules
    def load_module(self, name) -> ModuleInfo:
        w = self.world
        if name in w.modules:
            return w.modules[name]
        loc = front.module_path(name)
        if loc is None:
            raise OutOfSubset(f"not a repository module: {name}")
        m = ModuleInfo(name, loc[0], loc[1])
        w.modules[name] = m
        env = Env(m)
        m.ns = env
        env.set("__name__", mk(name))
        env.set("__file__", mk(loc[0]))
        for st in m.tree.body:
            try:
                self.exec_stmt(st, env)
            except OutOfSubset as e:
                for t in _targets_of(st):
                    env.set(t, VPoison(f"{m.relpath}:{st.lineno}: {e}"))
            except PyRaise as e:
                for t in _targets_of(st):
                    env.set(t, VPoison(f"{m.relpath}:{st.lineno}: raised {e.exc}"))
        # containers that exist after import are module-/class-level state: writes to them by a function are frame violations
        seen = set()

        def mark(v, depth=0):
            if id(v) in seen or depth > 6:
                return
            seen.add(id(v))
            if isinstance(v, (VDict, VList)):
                v.global_ = True
                for x in (v.items if isinstance(v, VList) else [e.value for e in v.entries.values()]):
                    mark(x, depth + 1)
            elif isinstance(v, VObj):
                for x in v.attrs.values():
                    mark(x, depth + 1)
            elif isinstance(v, VClass) and v.info is not None and v.info.module is m:
                for x in v.info.attrs.values():
                    mark(x, depth + 1)
        for v in env.vars.values():
            mark(v)
        return m

    def get_func(self, relpath, qualname) -> FuncInfo:
        m = self.load_module(front.relpath_to_module(relpath))
        parts = qualname.split(".")
        v = m.ns.lookup(parts[0])
        if v is None:
            raise KeyError(f"{qualname} not found in {relpath}")
        for p in parts[1:]:
            if isinstance(v, VClass) and v.info is not None:
                a, _ = v.info.lookup(p)
                if a is None:
                    raise KeyError(f"{qualname} not found in {relpath}")
                v = a
            else:
                raise KeyError(f"{qualname} not found in {relpath}")
        if isinstance(v, VFunc):
            return v.info
        if isinstance(v, VClass) and v.info is not None:
            a, _ = v.info.lookup("__init__")
            return a.info
        raise KeyError(f"{qualname} in {relpath} is not a function: {v}")

    def get_class(self, relpath, name) -> ClassInfo:
        m = self.load_module(front.relpath_to_module(relpath))
        v = m.ns.lookup(name)
        if not isinstance(v, VClass) or v.info is None:
            raise KeyError(f"class {name} not found in {relpath}")
        return v.info

    # ------------------------------------------------------------------ truthiness / coercions
    def truth(self, v: V):
        """Python truthiness as python bool or z3 Bool."""
        if isinstance(v, VBool):
            return v.conc if v.conc is not None else v.e
        if isinstance(v, VNone):
            return False
        if isinstance(v, VInt):
            return (v.conc != 0) if v.conc is not None else (v.e != 0)
        if isinstance(v, (VBytes, VStr)):
            return (len(v.conc) > 0) if v.conc is not None else (z3.Length(v.e) > 0)
        if isinstance(v, (VList, VTuple)):
            return len(v.items) > 0
        if isinstance(v, VSeq):
            return z3.Length(v.e) > 0
        if isinstance(v, VDict):
            if v.open_:
                raise OutOfSubset("truthiness of an open dict")
            conds = [e.present for e in v.entries.values()]
            if any(c is True for c in conds):
                return True
            return z3.Or(*conds) if conds else False
        if isinstance(v, (VObj, VClass, VFunc, VBuiltin, VEnum, VTag)):
            if isinstance(v, VObj):
                f, _ = v.cls.lookup("__len__")
                if f is not None:
                    raise OutOfSubset("__len__ truthiness")
            return True
        if isinstance(v, VFloat):
            return v.conc != 0.0
        if isinstance(v, VLib) and v.kind in ("Logger", "Match", "UUID", "Path", "IntelHex", "Struct", "HashAlg", "PrivateKey", "PublicKey"):
            return True
        if isinstance(v, VOpaque):
            from . import plain
            if isinstance(v, plain.Lazy):
                return plain.truth(self, v)
        raise OutOfSubset(f"truthiness of {v!r}")

    def test(self, v: V) -> bool:
        return self.branch(self.truth(v))

    # ------------------------------------------------------------------ statements
    def exec_block(self, stmts, env):
        for st in stmts:
            self.exec_stmt(st, env)

    def exec_stmt(self, st, env):
        self.cur_where = (env.module.relpath if env.module is not None else "?", getattr(st, "lineno", 0))
        m = getattr(self, "st_" + type(st).__name__, None)
        if m is None:
            raise OutOfSubset(f"statement {type(st).__name__} at line {st.lineno}")
        return m(st, env)

    def st_Pass(self, st, env):
        pass

    def st_Expr(self, st, env):
        if isinstance(st.value, ast.Constant):
            return  # docstring
        self.eval(st.value, env)

    def st_Import(self, st, env):
        for a in st.names:
            top = a.name.split(".")[0]
            if front.module_path(a.name) is not None:
                raise OutOfSubset("plain import of repository module")
            env.set(a.asname or top, VBuiltin(a.name if a.asname else top))

    def st_ImportFrom(self, st, env):
        mod = st.module or ""
        if mod == "__future__":
            return
        if front.module_path(mod) is not None:
            if mod in self.world.loading:
                # circular import at module level: bind lazily
                for a in st.names:
                    env.set(a.asname or a.name, VPoison(f"circular import {mod}.{a.name}"))
                return
            self.world.loading.add(mod)
            try:
                m = self.load_module(mod)
            finally:
                self.world.loading.discard(mod)
            for a in st.names:
                v = m.ns.lookup(a.name)
                if v is None:
                    sub = front.module_path(mod + "." + a.name)
                    if sub is not None:
                        raise OutOfSubset("import of a repository sub-module object")
                    raise OutOfSubset(f"cannot import {a.name} from {mod}")
                env.set(a.asname or a.name, v)
        else:
            for a in st.names:
                env.set(a.asname or a.name, VBuiltin(mod + "." + a.name))

    def st_FunctionDef(self, st, env):
        fi = FuncInfo(st, env.module, None)
        fi.closure = env
        env.set(st.name, VFunc(fi))

    def st_ClassDef(self, st, env):
        ci = ClassInfo(st, env.module)
        for b in st.bases:
            bv = self.eval(b, env)
            if not isinstance(bv, VClass):
                if isinstance(bv, VBuiltin):
                    bv = VClass(py=self.stubs.builtin_class(bv.name))
                else:
                    raise OutOfSubset(f"base class {bv!r}")
            ci.bases.append(bv)
        decos = [front.deco_name(d) for d in st.decorator_list]
        ci.is_dataclass = "dataclass" in decos
        ci.is_enum = any((b.py is not None and b.py.__name__ in ("Enum", "IntEnum")) or (b.info is not None and b.info.is_enum) for b in ci.bases)
        cenv = Env(env.module, env)
        vc = VClass(info=ci)
        for s in st.body:
            if isinstance(s, ast.FunctionDef):
                fi = FuncInfo(s, env.module, ci)
                fi.closure = env
                ci.attrs[s.name] = VFunc(fi)
                if fi.kind == "setter":
                    ci.attrs["__set_" + s.name] = VFunc(fi)
                    # keep the getter under the plain name
                    getter = [x for x in st.body if isinstance(x, ast.FunctionDef) and x.name == s.name and "property" in [front.deco_name(d) for d in x.decorator_list]]
                    if getter:
                        gi = FuncInfo(getter[0], env.module, ci)
                        gi.closure = env
                        ci.attrs[s.name] = VFunc(gi)
            elif isinstance(s, ast.Expr) and isinstance(s.value, ast.Constant):
                continue
            elif isinstance(s, ast.AnnAssign):
                if s.value is not None:
                    val = self.eval(s.value, cenv)
                    cenv.set(s.target.id, val)
                    ci.attrs[s.target.id] = val
                    ci.fields.append((s.target.id, val))
                else:
                    ci.fields.append((s.target.id, None))
            elif isinstance(s, ast.Assign):
                val = self.eval(s.value, cenv)
                for t in s.targets:
                    if not isinstance(t, ast.Name):
                        raise OutOfSubset("class-level non-name assignment")
                    cenv.set(t.id, val)
                    if ci.is_enum and not t.id.startswith("_"):
                        ci.attrs[t.id] = VEnum(ci, t.id, val)
                    else:
                        ci.attrs[t.id] = val
            elif isinstance(s, ast.Pass):
                continue
            else:
                raise OutOfSubset(f"class body statement {type(s).__name__}")
        env.set(st.name, vc)

    def st_Assign(self, st, env):
        val = self.eval(st.value, env)
        for t in st.targets:
            self.assign(t, val, env)

    def st_AnnAssign(self, st, env):
        if st.value is not None:
            self.assign(st.target, self.eval(st.value, env), env)

    def st_AugAssign(self, st, env):
        cur = self.eval(_as_load(st.target), env)
        rhs = self.eval(st.value, env)
        if isinstance(cur, VList) and isinstance(st.op, ast.Add):
            # in-place list extension
            cur.items.extend(self.iterate(rhs))
            return
        val = self.binop(st.op, cur, rhs)
        self.assign(st.target, val, env)

    def assign(self, target, val, env):
        if isinstance(target, ast.Name):
            env.set(target.id, val)
        elif isinstance(target, (ast.Tuple, ast.List)):
            items = self.iterate(val, unpack=len(target.elts))
            if len(items) != len(target.elts):
                self.raise_(ValueError, "unpack length mismatch")
            for t, v in zip(target.elts, items):
                self.assign(t, v, env)
        elif isinstance(target, ast.Attribute):
            obj = self.eval(target.value, env)
            self.setattr_(obj, target.attr, val)
        elif isinstance(target, ast.Subscript):
            obj = self.eval(target.value, env)
            if isinstance(target.slice, ast.Slice):
                raise OutOfSubset("slice assignment")
            key = self.eval(target.slice, env)
            self.setitem(obj, key, val)
        else:
            raise OutOfSubset(f"assignment target {type(target).__name__}")

    def st_Delete(self, st, env):
        raise OutOfSubset("del statement")

    def st_If(self, st, env):
        if self.test(self.eval(st.test, env)):
            self.exec_block(st.body, env)
        else:
            self.exec_block(st.orelse, env)

    def st_Return(self, st, env):
        raise _Return(self.eval(st.value, env) if st.value is not None else NONE)

    def st_Raise(self, st, env):
        if st.exc is None:
            cur = env.lookup("__current_exception__")
            if cur is None:
                raise OutOfSubset("bare raise outside handler")
            raise PyRaise(cur)
        v = self.eval(st.exc, env)
        if isinstance(v, VClass):
            v = VExc(self.pyclass_of(v), ())
        if not isinstance(v, VExc):
            raise OutOfSubset(f"raise of {v!r}")
        raise PyRaise(v)

    def st_Assert(self, st, env):
        if not self.test(self.eval(st.test, env)):
            self.raise_(AssertionError, "assert")

    def st_Break(self, st, env):
        raise _Break()

    def st_Continue(self, st, env):
        raise _Continue()

    def st_For(self, st, env):
        src = self.eval(st.iter, env)
        from . import plain
        if isinstance(src, plain.VPlain):
            src = plain.resolve(self, src)
        if isinstance(src, (plain.VPList, plain.VPMap, plain.VPIter)):
            return self.symbolic_for(st, env, src)
        from . import relmap
        if relmap.is_keyset(src):
            return relmap.foreach(self, st, env, src)
        if isinstance(src, VSeq) and self.loop_spec() is not None:
            # a homogeneous list of symbolic length (list[str] / list[int] argument): arbitrary element, invariant rule
            seq = src
            n = VInt(z3.Length(seq.e))
            def elem(it_, hint, seq=seq):
                i = it_.fresh_int("seq_i", 0)
                it_.assume(i.e < z3.Length(seq.e))
                return VStr(seq.e[i.e]) if seq.kind == "str" else VInt(seq.e[i.e])
            return self.symbolic_for(st, env, plain.VPList(self, self.fresh_name("seq"), elem, n=n))
        spec = self.loop_spec()
        if spec is not None and spec.get("__all_for__"):
            return self.symbolic_for(st, env, VList(self.iterate(src)))
        items = self.iterate(src)
        broke = False
        for it in items:
            self.assign(st.target, it, env)
            try:
                self.exec_block(st.body, env)
            except _Break:
                broke = True
                break
            except _Continue:
                continue
        if not broke:
            self.exec_block(st.orelse, env)

    def st_While(self, st, env):
        spec = self.loop_spec()
        if spec is not None and spec.get("__while__"):
            return self.symbolic_while(st, env)
        n = 0
        broke = False
        while self.test(self.eval(st.test, env)):
            n += 1
            if n > self.MAX_LOOP:
                raise OutOfSubset(f"while loop exceeds {self.MAX_LOOP} unrollings at line {st.lineno}")
            try:
                self.exec_block(st.body, env)
            except _Break:
                broke = True
                break
            except _Continue:
                continue
        if not broke:
            self.exec_block(st.orelse, env)

    # ------------------------------------------------------------------ loops over collections of symbolic size (invariant rule)
    def loop_spec(self):
        """Declared loop-carried shapes of the function currently executing (sidecar: Contract.loops / LOOP_SPECS)."""
        from . import contract as contract_mod
        if not self.active_calls:
            return None
        return contract_mod.LOOP_SPECS.get(self.active_calls[-1])

    def _loop_effects(self, body, target=None):
        """(assigned names, mutated names) of a loop body, syntactically (over-approximation)."""
        assigned, mutated = set(), set()
        called = {}
        self._loop_called = called
        MUT = {"append", "extend", "insert", "pop", "remove", "update", "setdefault", "clear", "sort", "reverse", "popitem", "add", "discard"}

        def root(n):
            while isinstance(n, (ast.Attribute, ast.Subscript)):
                n = n.value
            return n.id if isinstance(n, ast.Name) else None
        for st in body:
            for n in ast.walk(st):
                if isinstance(n, ast.Name) and isinstance(n.ctx, (ast.Store, ast.Del)):
                    assigned.add(n.id)
                elif isinstance(n, (ast.Attribute, ast.Subscript)) and isinstance(n.ctx, (ast.Store, ast.Del)):
                    r = root(n)
                    if r is not None:
                        mutated.add(r)
                elif isinstance(n, ast.Call) and isinstance(n.func, ast.Attribute) and n.func.attr in MUT:
                    r = root(n.func.value)
                    if r is not None:
                        mutated.add(r)
                elif isinstance(n, ast.Call) and isinstance(n.func, ast.Attribute) and isinstance(n.func.value, ast.Name):
                    called.setdefault(n.func.value.id, set()).add(n.func.attr)
                elif isinstance(n, ast.ExceptHandler) and n.name:
                    assigned.add(n.name)
                elif isinstance(n, (ast.Import, ast.ImportFrom)):
                    for a in n.names:
                        assigned.add(a.asname or a.name.split(".")[0])
        if target is not None:
            for n in ast.walk(target):
                if isinstance(n, ast.Name):
                    assigned.discard(n.id)
                    mutated.discard(n.id)
        return assigned, mutated

    def _loop_enter(self, st, env, target=None, tracked=(), force=()):
        """Check the invariant on entry and havoc the loop-carried state. Returns the declared (name, shape) list."""
        from . import shapes
        spec = self.loop_spec()
        if spec is None:
            raise OutOfSubset(f"loop over a collection of symbolic size at line {st.lineno} without a declared invariant")
        assigned, mutated = self._loop_effects(st.body, target)
        mutated = (mutated - set(tracked)) | {n for n in force if n not in assigned}  # tracked: handled by the foreach rule (relmap.py); force: declared names used in the body
        declared = []
        for name in sorted(assigned | mutated):
            cur = env.lookup(name)
            if name in spec:
                shape = spec[name]
                if callable(shape) and not isinstance(shape, type):
                    shape = shape(self, env)
                if cur is None or isinstance(cur, VPoison):
                    raise OutOfSubset(f"loop-carried variable {name} is not initialised before the loop at line {st.lineno}")
                ok = shapes.conforms(self, cur, shape)
                shapes.note_obligation(self, f"invariant-init:{name}", ok, f"{cur!r} is not of shape {shape!r}")
                declared.append((name, shape))
            elif name in mutated and name not in assigned:
                if cur is not None and not isinstance(cur, (VClass, VBuiltin)):
                    raise OutOfSubset(f"loop at line {st.lineno} mutates {name} but no invariant shape is declared for it")
        # methods called on loop-external repository objects: a method that writes attributes of its receiver mutates loop-carried state
        for name, meths in sorted(getattr(self, "_loop_called", {}).items()):
            cur = env.lookup(name)
            if name in assigned or not isinstance(cur, VObj) or getattr(cur, "abstract", False):
                continue
            if not any(self._method_writes_receiver(cur.cls, m) for m in meths):
                continue
            if name not in spec:
                raise OutOfSubset(f"loop at line {st.lineno} calls a mutating method on {name} but no invariant is declared for it")
            shape = spec[name]
            if callable(shape) and not isinstance(shape, type):
                shape = shape(self, env)
            shapes.check_shape(self, f"invariant-init:{name}", cur, shape, f"{name} does not satisfy {shape!r} on loop entry")
            declared.append((name, shape))
        for name, shape in declared:
            if isinstance(shape, shapes.ObjInvT):
                shapes.havoc_object(self, env.lookup(name), shape, name)
            else:
                env.set(name, shapes.make(self, shape, name))
        for name in sorted(assigned):
            if name not in spec:
                env.set(name, VPoison(f"value of {name} from an earlier loop iteration (not declared loop-carried)"))
        return declared

    def _method_writes_receiver(self, ci, mname, depth=0, seen=None):
        """Does method `mname` of class ci (or a method of the same object it calls) store into attributes of its receiver?"""
        seen = set() if seen is None else seen
        if (id(ci), mname) in seen or depth > 4:
            return False
        seen.add((id(ci), mname))
        a, _ = ci.lookup(mname)
        if not isinstance(a, VFunc):
            return False
        fi = a.info
        if fi.kind in ("static", "class"):
            return False
        params = [p.arg for p in fi.node.args.args]
        if not params:
            return False
        me = params[0]
        MUT = {"append", "extend", "insert", "pop", "remove", "update", "setdefault", "clear", "sort", "reverse", "popitem", "add", "discard"}
        for n in ast.walk(fi.node):
            tgt = None
            if isinstance(n, (ast.Attribute, ast.Subscript)) and isinstance(n.ctx, (ast.Store, ast.Del)):
                tgt = n
            elif isinstance(n, ast.Call) and isinstance(n.func, ast.Attribute) and n.func.attr in MUT:
                tgt = n.func.value
            if tgt is not None:
                r = tgt
                while isinstance(r, (ast.Attribute, ast.Subscript)):
                    r = r.value
                if isinstance(r, ast.Name) and r.id == me:
                    return True
            if isinstance(n, ast.Call) and isinstance(n.func, ast.Attribute) and isinstance(n.func.value, ast.Name) and n.func.value.id == me:
                if self._method_writes_receiver(ci, n.func.attr, depth + 1, seen):
                    return True
        return False

    def _loop_step_done(self, declared, env):
        from . import shapes
        spec = self.loop_spec() or {}
        chk = spec.get("__body_check__")
        if chk is not None:
            # element-wise postcondition of ONE arbitrary iteration (what the iteration must have done with its element)
            try:
                goals = chk(self, env, getattr(self, "_loop_trace_mark", 0)) or []
            except (PyRaise, OutOfSubset, PathEnd, Infeasible):
                raise
            except Exception as e:  # the check could not be formulated on this path (e.g. after a refactoring): undecided, never a crash
                raise OutOfSubset(f"element-wise iteration check could not be formulated: {type(e).__name__}: {e}")
            for label, goal in goals:
                if isinstance(goal, bool):
                    goal = z3.BoolVal(goal)
                self.call_obligations.append((f"iteration:{label}", goal, list(self.facts), list(self.pc)))
        for name, shape in declared:
            cur = env.lookup(name)
            if cur is None or isinstance(cur, VPoison):
                shapes.note_obligation(self, f"invariant-step:{name}", False, f"{name} is unbound after the iteration")
            else:
                shapes.check_shape(self, f"invariant-step:{name}", cur, shape, f"{cur!r} is not of shape {shape!r}")
        raise PathEnd()

    def arbitrary_element(self, src, hint="elem"):
        """An arbitrary element of a non-empty symbolic collection (assumes non-emptiness on this path)."""
        from . import plain
        if isinstance(src, VList):
            if not src.items:
                raise Infeasible()
            return src.items[self.choose(len(src.items), "which_iteration")]
        if isinstance(src, plain.VPList):
            self.assume(src.n.e > 0)
            i = self.fresh_int(f"idx_{src.name}", 0)
            self.assume(i.e < src.n.e)
            return src.elem(self, i)
        m = src.m if isinstance(src, plain.VPIter) else src
        what = src.what if isinstance(src, plain.VPIter) else "keys"
        self.assume(m.n.e > 0)
        k = plain.resolve_key(self, m.key_fn(self, f"{m.name}@key"))
        kid = plain._key_id(k)
        if kid is not None:
            m.presence = getattr(m, "presence", {})
            m.presence[kid] = z3.BoolVal(True)  # a key handed out by iteration is in the mapping
        if what == "keys":
            return k
        v = m.value_at(self, k)
        return v if what == "values" else VTuple([k, v])

    def symbolic_for(self, st, env, src):
        declared = self._loop_enter(st, env, st.target)
        if self.choose(2, "loop_iter_or_exit") == 0:
            elem = self.arbitrary_element(src)
            self._loop_trace_mark = len(self.trace)
            self._loop_elem, self._loop_src = elem, src  # for element-wise checks: no dependence on local names
            self.assign(st.target, elem, env)
            try:
                self.exec_block(st.body, env)
            except _Break:
                return  # leaves the loop with the state of this (arbitrary) iteration; `else` is skipped
            except _Continue:
                pass
            self._loop_step_done(declared, env)
        self.exec_block(st.orelse, env)

    def symbolic_while(self, st, env):
        declared = self._loop_enter(st, env)
        spec = self.loop_spec() or {}
        if self.test(self.eval(st.test, env)):
            measure = spec.get("__decreases__")
            m0 = measure(self, env) if measure is not None else None
            self._loop_trace_mark = len(self.trace)
            try:
                self.exec_block(st.body, env)
            except _Break:
                return
            except _Continue:
                pass
            if measure is not None:
                # termination: every iteration that goes round again strictly decreases a measure that is bounded below
                m1 = measure(self, env)
                self.call_obligations.append(("termination:measure-decreases", z3.And(m0.e >= 0, m1.e < m0.e), list(self.facts), list(self.pc)))
            elif spec.get("__while__"):
                from . import shapes
                shapes.note_obligation(self, "termination:measure-declared", False, f"while loop at line {st.lineno} verified by the invariant rule has no declared measure")
            self._loop_step_done(declared, env)
        self.exec_block(st.orelse, env)

    def symbolic_comprehension(self, n, env, kind):
        """[elt for x in <symbolic collection> if c] / {k: v for ...}: the element expression is evaluated once for an
        arbitrary element (every exception it can raise is explored); the result is a collection of symbolic size whose
        element shape must not depend on the path taken (shapes.shape_like)."""
        from . import plain, shapes
        if len(n.generators) != 1:
            return None
        g = n.generators[0]
        src = self.eval(g.iter, env)
        if isinstance(src, plain.VPlain):
            src = plain.resolve(self, src)
        if not isinstance(src, (plain.VPList, plain.VPMap, plain.VPIter)):
            self._comp_src = getattr(self, "_comp_src", {})
            self._comp_src[id(n.generators)] = src  # evaluated once: the unrolling code below picks it up
            return None
        size = src.n if isinstance(src, plain.VPList) else (src.m.n if isinstance(src, plain.VPIter) else src.n)
        if self.branch(size.e == 0):
            return VList([]) if kind == "list" else VDict()
        e2 = Env(env.module, env)
        self.assign(g.target, self.arbitrary_element(src), e2)
        kept = True
        for c in g.ifs:
            kept = self.test(self.eval(c, e2)) and kept
        if kind == "list":
            if not kept:
                # this arbitrary element is filtered out: nothing more is learnt on this path
                raise PathEnd()
            r = self.eval(n.elt, e2)
            sh = shapes.shape_like(self, r)
            if sh is None:
                raise OutOfSubset(f"comprehension over a symbolic collection at line {n.lineno}: element {r!r} has no path-independent shape")
            m = self.fresh_int("len_comp", 0)
            self.assume(m.e <= size.e)
            if not g.ifs:
                self.assume(m.e == size.e)
            return plain.VPList(self, self.fresh_name("comp"), lambda it_, hint: shapes.make(it_, sh, hint), shape=shapes.AbsListT(sh), n=m)
        if not kept:
            raise PathEnd()
        k = self.eval(n.key, e2)
        v = self.eval(n.value, e2)
        ks, vs = shapes.shape_like(self, k), shapes.shape_like(self, v)
        if ks is None or vs is None:
            raise OutOfSubset(f"dict comprehension over a symbolic collection at line {n.lineno}: no path-independent shape for {k!r}: {v!r}")
        sh = shapes.AbsDictT(lambda it_, key: vs, key=ks, label=f"comp@{n.lineno}")
        return shapes.make(self, sh, "dcomp")

    def st_Try(self, st, env):
        try:
            try:
                self.exec_block(st.body, env)
            except PyRaise as pr:
                for h in st.handlers:
                    if h.type is None or self.exc_matches(pr.exc, self.eval(h.type, env)):
                        if h.name:
                            env.set(h.name, pr.exc)
                        saved = env.lookup("__current_exception__")
                        env.set("__current_exception__", pr.exc)
                        try:
                            self.exec_block(h.body, env)
                        finally:
                            env.vars["__current_exception__"] = saved
                        break
                else:
                    raise
            else:
                self.exec_block(st.orelse, env)
        finally:
            if st.finalbody:
                self.exec_block(st.finalbody, env)

    def st_With(self, st, env):
        mgrs = []
        for item in st.items:
            cm = self.eval(item.context_expr, env)
            entered = self.stubs.ctx_enter(self, cm)
            if item.optional_vars is not None:
                self.assign(item.optional_vars, entered, env)
            mgrs.append(cm)
        try:
            self.exec_block(st.body, env)
        finally:
            for cm in reversed(mgrs):
                self.stubs.ctx_exit(self, cm)

    def st_Global(self, st, env):
        raise OutOfSubset("global statement")

    # ------------------------------------------------------------------ iteration
    def iterate(self, v: V, unpack=None):
        if isinstance(v, VLib) and v.kind == "dict_keys":
            v = v.f["dict"]
        if isinstance(v, (VList, VTuple)):
            return list(v.items)
        if isinstance(v, VDict):
            return [mk_key(k) for k in self.dict_keys(v)]
        if isinstance(v, VStr) and v.conc is not None:
            return [mk(c) for c in v.conc]
        if isinstance(v, VBytes) and v.conc is not None:
            return [mk(c) for c in v.conc]
        if isinstance(v, VBytes) and unpack is not None:
            if self.branch(z3.Length(v.e) == unpack):
                return [self.index_bytes(v, VInt(i)) for i in range(unpack)]
            self.raise_(ValueError, "unpack")
        if isinstance(v, VClass) and v.info is not None and v.info.is_enum:
            return [a for c in reversed(v.info.mro()) for a in c.attrs.values() if isinstance(a, VEnum)]
        if isinstance(v, VOpaque) or isinstance(v, VSeq) or isinstance(v, (VStr, VBytes)):
            got = self.stubs.iterate_symbolic(self, v, unpack)
            if got is not None:
                return got
        if isinstance(v, VNone):
            self.raise_(TypeError, "'NoneType' object is not iterable")
        if isinstance(v, (VInt, VBool)):
            self.raise_(TypeError, "object is not iterable")
        raise OutOfSubset(f"iteration over {v!r}")

    def dict_keys(self, d: VDict):
        """Keys of a dict; entries with symbolic presence are decided by branching (in order)."""
        if d.open_:
            raise OutOfSubset("iteration over an open dict")
        out = []
        for k, e in list(d.entries.items()):
            if e.present is True or self.branch(e.present):
                e.present = True if e.present is True else e.present
                out.append(k)
        return out

    # ------------------------------------------------------------------ expressions
    def eval(self, node, env) -> V:
        m = getattr(self, "ex_" + type(node).__name__, None)
        if m is None:
            raise OutOfSubset(f"expression {type(node).__name__} at line {getattr(node, 'lineno', '?')}")
        return m(node, env)

    def ex_Constant(self, n, env):
        if n.value is Ellipsis:
            raise OutOfSubset("Ellipsis")
        return mk(n.value)

    def ex_Name(self, n, env):
        v = env.lookup(n.id)
        if v is None:
            v = self.stubs.builtin_name(self, n.id)
            if v is None:
                raise OutOfSubset(f"unresolved name {n.id} at line {n.lineno}")
        if isinstance(v, VPoison):
            v2 = self.stubs.resolve_poison(self, n.id, v, env)
            if v2 is None:
                raise OutOfSubset(f"use of unmodelled name {n.id}: {v.reason}")
            return v2
        return v

    def ex_NamedExpr(self, n, env):
        v = self.eval(n.value, env)
        env.set(n.target.id, v)
        return v

    def ex_Tuple(self, n, env):
        return VTuple(self._elts(n.elts, env))

    def ex_List(self, n, env):
        return VList(self._elts(n.elts, env))

    def _elts(self, elts, env):
        out = []
        for e in elts:
            if isinstance(e, ast.Starred):
                out.extend(self.iterate(self.eval(e.value, env)))
            else:
                out.append(self.eval(e, env))
        return out

    def ex_Set(self, n, env):
        raise OutOfSubset("set display")

    def ex_Dict(self, n, env):
        d = VDict()
        for k, v in zip(n.keys, n.values):
            if k is None:
                src = self.eval(v, env)
                from . import plain
                if isinstance(src, plain.VPlain):
                    src = plain.resolve(self, src)
                if isinstance(src, plain.VPMap):
                    # {**a, **b, ...} with a mapping of symbolic size: the result is a mapping of symbolic size of the same shape
                    if d.entries:
                        raise OutOfSubset("dict display mixing concrete entries and ** of a symbolic mapping")
                    prev = getattr(d, "_sym_merge", None)
                    if prev is not None and not (prev.shape is src.shape or (prev.shape is not None and src.shape is not None and prev.shape.label == src.shape.label)):
                        raise OutOfSubset("** merge of symbolic mappings of different shapes")
                    d._sym_merge = src
                    continue
                if getattr(d, "_sym_merge", None) is not None:
                    raise OutOfSubset("dict display mixing ** of a symbolic mapping with other entries")
                if not isinstance(src, VDict):
                    raise OutOfSubset("** of non-dict")
                for kk in self.dict_keys(src):
                    d.entries[kk] = DEntry(kk, src.entries[kk].value)
                continue
            kv = self.eval(k, env)
            ck = conc_key(kv)
            from . import plain as _plain
            if isinstance(kv, _plain.Lazy) and len(n.keys) == 1:
                return _plain.singleton_map(self, kv, self.eval(v, env))
            if ck is None and not isinstance(kv, VNone):
                raise OutOfSubset(f"dict display with symbolic key {kv!r}")
            if getattr(d, "_sym_merge", None) is not None:
                raise OutOfSubset("dict display mixing ** of a symbolic mapping with other entries")
            d.entries[ck] = DEntry(ck, self.eval(v, env))
        if getattr(d, "_sym_merge", None) is not None:
            from . import plain
            m = d._sym_merge
            return plain.VPMap(self, m.name + "@merged", m.key_fn, m.val_fn, frozen=False, shape=m.shape)
        return d

    def ex_JoinedStr(self, n, env):
        parts = []
        for p in n.values:
            if isinstance(p, ast.Constant):
                parts.append(mk(p.value))
            else:
                val = self.eval(p.value, env)
                if p.conversion == 114:  # !r
                    parts.append(self.stubs.to_repr(self, val))
                    continue
                spec = None
                if p.format_spec is not None:
                    sv = self.eval(p.format_spec, env)
                    spec = sv.conc
                parts.append(self.stubs.format_value(self, val, spec))
        out = VStr("")
        for p in parts:
            out = self.binop(ast.Add(), out, p)
        return out

    def ex_FormattedValue(self, n, env):
        return self.stubs.format_value(self, self.eval(n.value, env), None)

    def ite(self, c, a, b):
        """Non-forking if-then-else on same-kind scalars, or None."""
        for K in (VInt, VBool, VBytes, VStr):
            if isinstance(a, (K, VBool) if K is VInt else K) and isinstance(b, (K, VBool) if K is VInt else K):
                if K is VInt:
                    a, b = self.to_int(a), self.to_int(b)
                return K(z3.If(c, a.e, b.e))
        return None

    def ex_IfExp(self, n, env):
        if self.pure:
            c = self.truth(self.eval(n.test, env))
            if isinstance(c, bool):
                return self.eval(n.body if c else n.orelse, env)
            a, b = self.eval(n.body, env), self.eval(n.orelse, env)
            r = self.ite(c, a, b)
            if r is not None:
                return r
            raise OutOfSubset("pure if-expression over non-scalar values")
        if self.test(self.eval(n.test, env)):
            return self.eval(n.body, env)
        return self.eval(n.orelse, env)

    def ex_BoolOp(self, n, env):
        is_and = isinstance(n.op, ast.And)
        val = None
        if self.pure:
            parts = []
            for e in n.values:
                t = self.truth(self.eval(e, env))
                if isinstance(t, bool):
                    if t != is_and:
                        return VBool(t)  # short-circuit on a concrete decisive operand
                    continue
                parts.append(t)
            if not parts:
                return VBool(is_and)
            return VBool(z3.And(*parts) if is_and else z3.Or(*parts))
        for e in n.values:
            val = self.eval(e, env)
            t = self.test(val)
            if is_and and not t:
                return val
            if not is_and and t:
                return val
        return val

    def ex_UnaryOp(self, n, env):
        v = self.eval(n.operand, env)
        if isinstance(n.op, ast.Not):
            t = self.truth(v)
            return VBool(not t) if isinstance(t, bool) else VBool(z3.Not(t))
        if isinstance(n.op, ast.USub):
            if isinstance(v, VBool):
                v = self.to_int(v)
            if isinstance(v, VInt):
                return VInt(-v.conc) if v.conc is not None else VInt(-v.e)
            if isinstance(v, VFloat):
                return VFloat(-v.conc)
        if isinstance(n.op, ast.UAdd) and isinstance(v, VInt):
            return v
        if isinstance(n.op, ast.Invert) and isinstance(v, VInt):
            return VInt(-v.conc - 1) if v.conc is not None else VInt(-v.e - 1)
        raise OutOfSubset(f"unary {type(n.op).__name__} on {v!r}")

    def ex_BinOp(self, n, env):
        return self.binop(n.op, self.eval(n.left, env), self.eval(n.right, env))

    def ex_Compare(self, n, env):
        left = self.eval(n.left, env)
        result = None
        for op, rn in zip(n.ops, n.comparators):
            right = self.eval(rn, env)
            r = self.compare(op, left, right)
            if len(n.ops) == 1:
                return r
            if self.pure:
                result = r if result is None else VBool(z3.And(result.e, r.e))
                left = right
                continue
            if not self.test(r):
                return VBool(False)
            result = r
            left = right
        if self.pure and result is not None:
            return result
        return VBool(True)

    def ex_Attribute(self, n, env):
        obj = self.eval(n.value, env)
        return self.getattr_(obj, n.attr)

    def ex_Subscript(self, n, env):
        obj = self.eval(n.value, env)
        if isinstance(n.slice, ast.Slice):
            lo = self.eval(n.slice.lower, env) if n.slice.lower is not None else None
            hi = self.eval(n.slice.upper, env) if n.slice.upper is not None else None
            st = self.eval(n.slice.step, env) if n.slice.step is not None else None
            return self.getslice(obj, lo, hi, st)
        key = self.eval(n.slice, env)
        return self.getitem(obj, key)

    def ex_Starred(self, n, env):
        raise OutOfSubset("starred expression outside call/display")

    def ex_Lambda(self, n, env):
        fn = ast.FunctionDef(name="<lambda>", args=n.args, body=[ast.Return(value=n.body, lineno=n.lineno, col_offset=0)], decorator_list=[], lineno=n.lineno, col_offset=0)
        fi = FuncInfo(fn, env.module, None)
        fi.closure = env
        return VFunc(fi)

    def _comp_iter(self, generators, env, body):
        """Run `body(env2)` for every binding of the comprehension generators (concrete-length iterables)."""
        def rec(i, e):
            if i == len(generators):
                body(e)
                return
            g = generators[i]
            pre = getattr(self, "_comp_src", {}).pop(id(generators), None) if i == 0 else None
            for it in self.iterate(pre if pre is not None else self.eval(g.iter, e)):
                e2 = Env(e.module, e)
                self.assign(g.target, it, e2)
                if all(self.test(self.eval(c, e2)) for c in g.ifs):
                    rec(i + 1, e2)
        rec(0, env)

    def ex_ListComp(self, n, env):
        sym = self.stubs.symbolic_comprehension(self, n, env)
        if sym is not None:
            return sym
        sym = self.symbolic_comprehension(n, env, "list")
        if sym is not None:
            return sym
        out = []
        self._comp_iter(n.generators, env, lambda e: out.append(self.eval(n.elt, e)))
        return VList(out)

    def ex_GeneratorExp(self, n, env):
        return self.ex_ListComp(n, env)

    def ex_DictComp(self, n, env):
        sym = self.symbolic_comprehension(n, env, "dict")
        if sym is not None:
            return sym
        d = VDict()

        def body(e):
            kv = self.eval(n.key, e)
            ck = conc_key(kv)
            if ck is None:
                raise OutOfSubset("dict comprehension with symbolic key")
            d.entries[ck] = DEntry(ck, self.eval(n.value, e))
        self._comp_iter(n.generators, env, body)
        return d

    def ex_Call(self, n, env):
        if isinstance(n.func, ast.Name) and n.func.id == "old" and env.lookup("__old_env__") is not None:
            oe = env.lookup("__old_env__")
            from .ghostfs import OldView
            with OldView(self.fs, oe.fs):
                return self.eval(n.args[0], oe.env)
        if isinstance(n.func, ast.Name) and n.func.id == "super" and not n.args:
            cls = env.lookup("__class__")
            slf = env.lookup("__self__")
            if cls is None:
                raise OutOfSubset("super() outside a method")
            return VSuper(cls.info, slf)
        fn = self.eval(n.func, env)
        args = []
        for a in n.args:
            if isinstance(a, ast.Starred):
                args.extend(self.iterate(self.eval(a.value, env)))
            else:
                args.append(self.eval(a, env))
        kwargs = {}
        for k in n.keywords:
            if k.arg is None:
                d = self.eval(k.value, env)
                if not isinstance(d, VDict):
                    raise OutOfSubset("** of non-dict in call")
                for kk in self.dict_keys(d):
                    kwargs[kk] = d.entries[kk].value
            else:
                kwargs[k.arg] = self.eval(k.value, env)
        return self.call(fn, args, kwargs, node=n)

    # ------------------------------------------------------------------ operators
    def to_int(self, v):
        if isinstance(v, VBool):
            return VInt(int(v.conc)) if v.conc is not None else VInt(z3.If(v.e, 1, 0))
        return v

    def binop(self, op, a: V, b: V) -> V:
        r = self.stubs.binop(self, op, a, b)
        if r is None:
            raise OutOfSubset(f"binary {type(op).__name__} on {a!r}, {b!r}")
        return r

    def compare(self, op, a: V, b: V) -> VBool:
        r = self.stubs.compare(self, op, a, b)
        if r is None:
            raise OutOfSubset(f"comparison {type(op).__name__} on {a!r}, {b!r}")
        return r

    def index_bytes(self, b: VBytes, i: VInt) -> VInt:
        """b[i] with i already known to be in range (non-negative)."""
        if b.conc is not None and i.conc is not None:
            return VInt(b.conc[i.conc])
        t = b.e[i.e]
        self.assume(z3.And(t >= 0, t <= 255))
        return VInt(t)

    def getitem(self, obj, key):
        return self.stubs.getitem(self, obj, key)

    def getslice(self, obj, lo, hi, step):
        return self.stubs.getslice(self, obj, lo, hi, step)

    def setitem(self, obj, key, val):
        return self.stubs.setitem(self, obj, key, val)

    # ------------------------------------------------------------------ attributes
    def getattr_(self, obj: V, name: str) -> V:
        if isinstance(obj, VSuper):
            start = obj.self_obj.cls if isinstance(obj.self_obj, VObj) else obj.self_obj.info if isinstance(obj.self_obj, VClass) else obj.cls
            mro = start.mro()
            idx = mro.index(obj.cls) if obj.cls in mro else -1
            for c in mro[idx + 1:]:
                if name in c.attrs:
                    a = c.attrs[name]
                    if isinstance(a, VFunc):
                        fi = a.info
                        if fi.kind == "static":
                            return VFunc(fi)
                        if fi.kind == "class":
                            return VFunc(fi, self_obj=obj.self_obj if isinstance(obj.self_obj, VClass) else VClass(info=obj.self_obj.cls))
                        return VFunc(fi, self_obj=obj.self_obj, cls=c)
                    return a
            if name == "__init__":
                return VBuiltin("object.__init__", self_obj=obj.self_obj)
            if name == "__setitem__" and isinstance(obj.self_obj, VObj) and "__dict_base__" in obj.self_obj.attrs:
                return VBuiltin("dict.__setitem__", self_obj=obj.self_obj.attrs["__dict_base__"])
            raise OutOfSubset(f"super().{name} not found")
        if isinstance(obj, VObj):
            if getattr(obj, "abstract", False) and not getattr(obj, "materialised", False):
                from . import shapes
                if name == shapes.payload_attr(obj.cls) or name == "__dict__":
                    shapes.materialise_payload(self, obj)
            if name in obj.attrs:
                return obj.attrs[name]
            a, owner = obj.cls.lookup(name)
            if a is not None:
                if isinstance(a, VFunc):
                    fi = a.info
                    if fi.kind == "property":
                        return self.call_function(fi, [obj], {})
                    if fi.kind == "static":
                        return VFunc(fi)
                    if fi.kind == "class":
                        return VFunc(fi, self_obj=VClass(info=obj.cls))
                    return VFunc(fi, self_obj=obj, cls=owner)
                return a
            if name == "__class__":
                return VClass(info=obj.cls)
            if name == "__dict__":
                return VDict([(k, v) for k, v in obj.attrs.items()])
            r = self.stubs.obj_getattr(self, obj, name)
            if r is not None:
                return r
            self.raise_(AttributeError, f"{obj.cls.name} has no attribute {name}")
        if isinstance(obj, VClass) and obj.info is not None:
            a, owner = obj.info.lookup(name)
            if a is not None:
                if isinstance(a, VFunc):
                    fi = a.info
                    if fi.kind == "class":
                        return VFunc(fi, self_obj=obj)
                    return VFunc(fi)
                return a
            if name == "__name__":
                return mk(obj.info.name)
            if obj.info.is_enum and name == "__members__":
                return VDict([(e.name, e) for e in self.iterate(obj)])
            r = self.stubs.class_getattr(self, obj, name)
            if r is not None:
                return r
            self.raise_(AttributeError, f"class {obj.info.name} has no attribute {name}")
        if isinstance(obj, VEnum):
            if name == "value":
                return obj.value
            if name == "name":
                return mk(obj.name)
            a, owner = obj.cls.lookup(name)
            if isinstance(a, VFunc):
                return VFunc(a.info, self_obj=obj)
            self.raise_(AttributeError, name)
        if isinstance(obj, VTag):
            if name == "tag":
                return obj.tag
            if name == "value":
                return obj.value
            self.raise_(AttributeError, name)
        if isinstance(obj, VExc):
            if name == "args":
                return VTuple(obj.args)
            raise OutOfSubset(f"exception attribute {name}")
        return self.stubs.getattr_builtin(self, obj, name)

    def setattr_(self, obj: V, name: str, val: V):
        if isinstance(obj, VObj):
            a, owner = obj.cls.lookup("__set_" + name)
            if a is not None and name not in obj.attrs:
                self.call_function(a.info, [obj, val], {})
                return
            obj.attrs[name] = val
            return
        if isinstance(obj, VClass) and obj.info is not None:
            self.trace.append(("class-attr-write", obj.info.name, name))
            obj.info.attrs[name] = val
            return
        if isinstance(obj, VTag):
            self.raise_(AttributeError, f"attribute '{name}' of 'cbor2.CBORTag' objects is not writable")
        self.stubs.setattr_builtin(self, obj, name, val)

    # ------------------------------------------------------------------ calls
    def call(self, fn: V, args, kwargs, node=None) -> V:
        if isinstance(fn, VFunc):
            a = list(args)
            if fn.self_obj is not None:
                a = [fn.self_obj] + a
            return self.call_function(fn.info, a, kwargs, looked_up_on=fn.cls)
        if isinstance(fn, VClass):
            return self.instantiate(fn, args, kwargs)
        if isinstance(fn, VBuiltin):
            return self.stubs.call_builtin(self, fn, args, kwargs)
        if isinstance(fn, VObj):
            f, _ = fn.cls.lookup("__call__")
            if f is not None:
                return self.call_function(f.info, [fn] + list(args), kwargs)
        raise OutOfSubset(f"call of {fn!r}")

    def instantiate(self, vc: VClass, args, kwargs) -> V:
        if vc.info is None:
            return self.stubs.instantiate_py(self, vc.py, args, kwargs)
        ci = vc.info
        if ci.is_enum:
            # Enum lookup by value
            if len(args) != 1:
                raise OutOfSubset("Enum call")
            for m in self.iterate(vc):
                eq = self.compare(ast.Eq(), m.value, args[0])
                if self.test(eq):
                    return m
            if isinstance(args[0], VEnum) and args[0].cls is ci:
                return args[0]
            self.raise_(ValueError, f"not a valid {ci.name}")
        if any(isinstance(b, type) and issubclass(b, BaseException) for b in ci.py_bases()):
            return VExc(self.pyclass_of(vc), tuple(args))
        obj = VObj(ci)
        init, owner = ci.lookup("__init__")
        if init is not None:
            self.call_function(init.info, [obj] + list(args), kwargs, looked_up_on=owner)
        elif any(c.is_dataclass for c in ci.mro()):
            fields = []
            for c in reversed(ci.mro()):
                fields.extend(c.fields)
            vals = list(args)
            for i, (fname, default) in enumerate(fields):
                if i < len(vals):
                    obj.attrs[fname] = vals[i]
                elif fname in kwargs:
                    obj.attrs[fname] = kwargs[fname]
                elif default is not None:
                    obj.attrs[fname] = default
                else:
                    self.raise_(TypeError, f"missing argument {fname}")
        else:
            pyb = ci.py_bases()
            r = self.stubs.init_py_base(self, obj, pyb, args, kwargs)
            if r is not None:
                return r
        return obj

    def bind_args(self, fi: FuncInfo, args, kwargs, env):
        a = fi.node.args
        params = [p.arg for p in a.posonlyargs + a.args]
        defaults = [None] * (len(params) - len(a.defaults)) + list(a.defaults)
        args = list(args)
        kwargs = dict(kwargs)
        denv = fi.closure or fi.module.ns
        for i, p in enumerate(params):
            if i < len(args):
                env.set(p, args[i])
            elif p in kwargs:
                env.set(p, kwargs.pop(p))
            elif defaults[i] is not None:
                env.set(p, self._default_value(defaults[i], denv))
            else:
                self.raise_(TypeError, f"{fi.qualname}() missing argument {p}")
        extra = args[len(params):]
        if a.vararg is not None:
            env.set(a.vararg.arg, VTuple(extra))
        elif extra:
            self.raise_(TypeError, f"{fi.qualname}() takes {len(params)} positional arguments")
        for i, p in enumerate(a.kwonlyargs):
            if p.arg in kwargs:
                env.set(p.arg, kwargs.pop(p.arg))
            elif a.kw_defaults[i] is not None:
                env.set(p.arg, self.eval(a.kw_defaults[i], denv))
            else:
                self.raise_(TypeError, f"missing kw-only {p.arg}")
        if a.kwarg is not None:
            env.set(a.kwarg.arg, VDict([(k, v) for k, v in kwargs.items()]))
        elif kwargs:
            self.raise_(TypeError, f"{fi.qualname}() got unexpected keyword {list(kwargs)}")

    def _default_value(self, node, denv):
        """Default argument values are created ONCE at definition time: a mutable default is shared by all calls, so
        its state at entry is whatever earlier calls left behind -> havoc (library objects) / flag writes (containers)."""
        v = self.eval(node, denv)
        if isinstance(node, (ast.Call, ast.List, ast.Dict, ast.Set, ast.ListComp, ast.DictComp)):
            if isinstance(v, VLib) and v.kind == "IntelHex":
                from .stubs import ValSort
                v.f["state"] = VOpaque(z3.Const(self.fresh_name("shared_default_state"), ValSort), "hexmap")
                self.assumptions_used.add("mutable default argument: entry state havoced (shared across calls)")
            elif isinstance(v, (VList, VDict, VObj, VLib)):
                v.global_ = True
        return v

    def _in_scope(self, c):
        """Contracts with a `scope` are used modularly only while a function of one of those properties is verified
        (elsewhere the body is inlined as before)."""
        if c.scope is None:
            return True
        v = self.contracts.get(self.verifying)
        return v is not None and bool(set(v.props) & set(c.scope))

    def contract_key(self, fi: FuncInfo):
        return (fi.module.relpath, fi.qualname)

    def call_function(self, fi: FuncInfo, args, kwargs, looked_up_on=None, force_inline=False) -> V:
        key = self.contract_key(fi)
        if not force_inline and fi.qualname == "Signer.sign_envelope" and getattr(self, "sign_envelope_call_site", None) is not None and key != self.verifying:
            return self.sign_envelope_call_site(self, self.contracts.get(key), fi, args, kwargs)
        summ = getattr(self, "call_site_summaries", None)
        if not force_inline and summ and fi.qualname in summ and key != self.verifying:
            # a contract may summarise a callee at ITS call sites by the part of the callee's verified contract it needs (recorded as an assumption)
            return summ[fi.qualname](self, self.contracts.get(key), fi, args, kwargs)
        if not force_inline and key in self.contracts and (key != self.verifying or key in self.active_calls) and not (self.contracts[key].callers_inline and key not in self.active_calls) and self._in_scope(self.contracts[key]):
            from . import modular
            c = self.contracts[key]
            if c.apply_fn is not None:
                return c.apply_fn(self, c, fi, args, kwargs)
            return modular.apply_contract(self, c, fi, args, kwargs)
        if self.call_depth > self.MAX_INLINE_DEPTH:
            raise OutOfSubset(f"inlining depth exceeded at {fi.qualname} (recursion without contract?)")
        if getattr(fi, "unmodelled_decos", None):
            raise OutOfSubset(f"{fi.qualname} is wrapped by decorator(s) {fi.unmodelled_decos} whose effect on the call is not modelled")
        if key != self.verifying:
            self.inlined.add(f"{fi.module.relpath}:{fi.qualname}")
        env = Env(fi.module, fi.closure or fi.module.ns)
        self.bind_args(fi, args, kwargs, env)
        if fi.cls is not None:
            env.set("__class__", VClass(info=fi.cls))
            env.set("__self__", args[0] if args else NONE)
        self.call_depth += 1
        self.active_calls.append(key)
        try:
            self.exec_block(fi.node.body, env)
            return NONE
        except _Return as r:
            return r.value
        finally:
            self.call_depth -= 1
            self.active_calls.pop()


def _as_load(t):
    import copy
    t2 = copy.copy(t)
    t2.ctx = ast.Load()
    return t2


def _targets_of(st):
    out = []
    if isinstance(st, (ast.FunctionDef, ast.ClassDef)):
        out.append(st.name)
    elif isinstance(st, ast.Assign):
        for t in st.targets:
            for n in ast.walk(t):
                if isinstance(n, ast.Name):
                    out.append(n.id)
    elif isinstance(st, (ast.Import, ast.ImportFrom)):
        for a in st.names:
            out.append(a.asname or a.name.split(".")[0])
    elif isinstance(st, ast.AnnAssign) and isinstance(st.target, ast.Name):
        out.append(st.target.id)
    return out


def mk_key(k):
    """Turn a concrete dict key back into a V."""
    if isinstance(k, V):
        return k
    from .values import SymKey
    if isinstance(k, SymKey):
        return k.v
    if isinstance(k, tuple):
        return VTuple([mk_key(i) for i in k])
    return mk(k)
