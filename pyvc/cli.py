"""./check <Cxx> --tier quick|thorough [--replay file] | baseline | list

Exit status: 0 nothing violated among everything explored (KNOWN-FINDING lines for listed findings);
             1 at least one VIOLATION not covered by known_findings.json;
             3 the checker itself failed (never a verdict on the code).
"""
from __future__ import annotations
import argparse
import glob
import importlib
import json
import multiprocessing as mp
import os
import sys
import time
import traceback

ROOT = os.path.dirname(os.path.dirname(os.path.abspath(__file__)))
if ROOT not in sys.path:
    sys.path.insert(0, ROOT)

from pyvc import front, contract as contract_mod  # noqa: E402

# scratch runs against seeded changes (tools/try_patch.sh) must not overwrite the evidence of the real tree
EVIDENCE_DIR = os.environ.get("VERIF_EVIDENCE_DIR") or os.path.join(ROOT, "evidence")
REPLAY_DIR = os.environ.get("VERIF_REPLAY_DIR") or os.path.join(ROOT, "replays")
LEDGER = os.path.join(ROOT, "baseline", "obligations.json")
KNOWN = os.path.join(ROOT, "known_findings.json")


def property_module(pid):
    cands = glob.glob(os.path.join(ROOT, "contracts", f"{pid}_*.py"))
    if not cands:
        raise SystemExit(f"no contracts module for {pid}")
    name = "contracts." + os.path.basename(cands[0])[:-3]
    return importlib.import_module(name)


def load_all_contracts():
    for p in sorted(glob.glob(os.path.join(ROOT, "contracts", "C[0-9][0-9]_*.py"))):
        importlib.import_module("contracts." + os.path.basename(p)[:-3])


def _verify_worker(job):
    key, vlabel, cfg = job
    from pyvc import verify
    c = contract_mod.REGISTRY[key]
    try:
        overrides = dict(c.variants).get(vlabel) if c.variants else None
        cfg2 = dict(cfg)
        cfg2["variant_label"] = vlabel
        if overrides:
            cfg2["variant"] = overrides
        r = verify.verify_contract(c, contract_mod.REGISTRY, cfg2)
        r["variant"] = vlabel
        return key, vlabel, r, None
    except Exception:
        return key, vlabel, None, traceback.format_exc()


def _lemma_worker(job):
    pid, idx, cfg = job
    lem = contract_mod.LEMMAS[pid][idx]
    t0 = time.time()
    try:
        out = lem.fn(cfg)
        return pid, idx, out, None, time.time() - t0
    except Exception:
        return pid, idx, None, traceback.format_exc(), time.time() - t0


def load_ledger():
    if os.path.exists(LEDGER):
        return json.load(open(LEDGER))
    return {}


def load_known():
    if os.path.exists(KNOWN):
        return json.load(open(KNOWN))
    return []


class Run:
    def __init__(self, pid, tier, seed):
        self.pid, self.tier, self.seed = pid, tier, seed
        self.obligations = {}  # id -> dict(status, backend, kind, detail)
        self.violations = []  # dict(obligation, replay, what, no_input)
        self.undecided = []
        self.functions = []
        self.assumptions = set()
        self.stubs = set()
        self.inlined = set()
        self.solver_s = 0.0
        self.bounded = None
        self.tables = []
        self.notes = []

    def add_obligation(self, oid, status, kind, backend="", detail=None, sha=None):
        self.obligations[oid] = {"status": status, "kind": kind, "backend": backend, "detail": detail, "sha": sha}


def write_replay(pid, oid, payload):
    d = os.path.join(REPLAY_DIR, pid)
    os.makedirs(d, exist_ok=True)
    fn = os.path.join(d, oid.replace("/", "__").replace(":", "_").replace(" ", "_")[:180] + ".json")
    with open(fn, "w") as fh:
        json.dump(payload, fh, indent=1, default=str)
    return fn


def check_property(pid, tier, seed, jobs=None):
    t_start = time.time()
    os.environ["VERIF_TIER"] = tier  # contract modules may size their variant lists by tier
    os.environ["VERIF_PID"] = pid  # contract modules that enumerate the class graph register only for their own property
    load_all_contracts()  # callee contracts of other properties are needed at call sites
    mod = property_module(pid)
    run = Run(pid, tier, seed)
    ledger = load_ledger()
    cfg = {"timeout_ms": 8000 if tier == "quick" else 60000, "tier": tier, "seed": seed, "budget_s": 420 if tier == "quick" else 1200}
    contracts = [c for c in contract_mod.BY_PROPERTY.get(pid, []) if not c.model_only]
    lemmas = contract_mod.LEMMAS.get(pid, [])
    vjobs = [(c.key, vl, cfg) for c in contracts for vl, _ in (c.variants or [(None, None)])]
    nproc = jobs or min(16, max(1, len(vjobs) + len(lemmas)))
    fn_results, lemma_results = [], []
    if vjobs or lemmas:
        with mp.get_context("fork").Pool(nproc) as pool:
            a1 = pool.map_async(_verify_worker, vjobs, chunksize=1)
            a2 = pool.map_async(_lemma_worker, [(pid, i, cfg) for i in range(len(lemmas))], chunksize=1)
            raw = a1.get()
            lemma_results = a2.get()
        grouped = {}
        for key, vl, r, err in raw:
            g = grouped.setdefault(key, [[], None])
            if err is not None:
                g[1] = err
            else:
                g[0].append(r)
        fn_results = [(key, g[0], g[1]) for key, g in grouped.items()]
    # ---------------- P: functions under contract ----------------
    from pyvc import replay as replay_mod, native
    for key, results, err in fn_results:
        c = contract_mod.REGISTRY[key]
        if err is not None:
            raise RuntimeError(f"verifier crashed on {c.name}:\n{err}")
        # a clause must be reached in at least one variant (zero-obligation guard); a variant whose every path raises
        # an allowed exception legitimately reaches no postcondition
        reached = set()
        for r in results:
            reached.update(r["obligations"].keys())
        for r in results:
            if not r["out_of_reach"] and not r["error"]:
                r["missing_obligations"] = [m for m in r["missing_obligations"] if m not in reached]
        for r in results:
            vtag = f"[{r['variant']}]" if r.get("variant") else ""
            fname = f"{c.func}{vtag}"
            status = "proved"
            if r["error"]:
                status = f"not-found: {r['error']}"
            elif r["vacuous"]:
                raise RuntimeError(f"contract of {c.name} has an unsatisfiable precondition (vacuous)")
            elif r["out_of_reach"]:
                status = "out-of-reach: " + "; ".join(r["out_of_reach"])[:300]
            run.functions.append({"function": fname, "file": c.file, "where": r["where"], "source_sha256": r["source_sha256"],
                                  "status": status, "paths": r["paths"], "outcomes": r["outcomes"], "solver_s": r["solver_s"],
                                  "inlined": r["inlined"]})
            run.assumptions.update(r["assumptions"])
            run.stubs.update(r["stubs"])
            run.inlined.update(r["inlined"])
            run.solver_s += r["solver_s"]
            labels = dict(r["obligations"])
            for missing in r["missing_obligations"]:
                labels.setdefault(missing, {"status": "unknown", "paths": 0, "backends": {}, "failing": {"reason": "clause never reached (no normal-exit path explored)"}})
            # vanished-obligation guard: an obligation the ledger records as discharged for this function that this run did NOT generate (the path that
            # carried it is not explored any more - e.g. a successful outcome turned into an exception) is never silently dropped: it is undecided
            prefix = f"{pid}/{fname}/"
            for oid0, led0 in ({} if os.environ.get("VERIF_REWRITING_LEDGER") or tier != "quick" else ledger).items():
                if oid0.startswith(prefix) and (led0.get("status") if isinstance(led0, dict) else led0) == "discharged" and oid0[len(prefix):] not in labels:
                    labels[oid0[len(prefix):]] = {"status": "unknown", "paths": 0, "backends": {}, "failing": {
                        "reason": "recorded as discharged on the baseline tree but not generated by this run (the path that carried it is not explored any more)"}}
            for label, a in labels.items():
                oid = f"{pid}/{fname}/{label}"
                st = a["status"]
                if st == "discharged" and (r["out_of_reach"] or r["error"]) and not label.startswith("frame:syntactic"):
                    st = "unknown"  # some path was not explored: nothing is claimed for this function
                    a = dict(a, failing={"reason": "function partly out of reach: " + "; ".join(r["out_of_reach"])[:200]})
                backend = "+".join(sorted(a["backends"]))
                sha = r.get("combined_sha256")
                led = ledger.get(oid)
                led_status = led.get("status") if isinstance(led, dict) else led
                led_sha = led.get("sha") if isinstance(led, dict) else None
                if st == "discharged":
                    run.add_obligation(oid, "discharged", "P", backend, sha=sha)
                elif st == "unknown":
                    f = a["failing"] or {}
                    if led_status == "discharged" and led_sha is not None and sha is not None and led_sha != sha and f.get("backend") and not r["out_of_reach"]:
                        # discharged on the unchanged tree, the code it depends on has changed, and it no longer goes through:
                        # reported with the solver's reason attached (no input available)
                        payload = {"property": pid, "obligation": oid, "function": c.func, "file": c.file, "kind": "no-failing-input-found",
                                   "solver": f, "note": "obligation was discharged on the baseline tree; the source of the function (or of an inlined callee) changed and the obligation is no longer discharged"}
                        path = write_replay(pid, oid, payload)
                        run.add_obligation(oid, "refuted-unreplayed", "P", backend, {"replay": path}, sha=sha)
                        run.violations.append({"obligation": oid, "replay": path, "what": f"{fname}: {label} no longer discharged after a source change ({str(f.get('reason'))[:120]})", "no_input": True})
                    else:
                        run.add_obligation(oid, "undecided", "P", backend, a["failing"], sha=sha)
                        run.undecided.append(oid)
                else:
                    f = a["failing"] or {}
                    c_rep = c
                    if r.get("variant") and c.variants:
                        import copy as _copy
                        ov = dict(c.variants).get(r["variant"]) or {}
                        c_rep = _copy.copy(c)
                        c_rep.params = [(n, ov.get(n, t)) for n, t in c.params]
                    rep = replay_mod.replay_counterexample(c_rep, f.get("counterexample"), module=mod) if not f.get("no_model") else {"status": "no-model", "failures": []}
                    payload = {"property": pid, "obligation": oid, "function": c.func, "file": c.file, "solver": {k: f.get(k) for k in ("backend", "goal", "path_outcome", "escaping_exception", "violations", "reason")},
                               "inputs": f.get("counterexample"), "native_replay": rep,
                               "how_to_run": f"./check {pid} --replay <this file>"}
                    if rep["status"] == "failed" and not _same_clause(label, rep["failures"]):
                        rep = dict(rep, status="passed-for-this-clause", note="the native run failed a different clause than the refuted obligation; not counted as a reproduction")
                        payload["native_replay"] = rep
                    if rep["status"] == "failed":
                        payload["kind"] = "failing-input"
                        path = write_replay(pid, oid, payload)
                        run.add_obligation(oid, "refuted", "P", backend, {"replay": path, "native": rep["failures"]})
                        run.violations.append({"obligation": oid, "replay": path, "what": f"{fname}: {label} fails natively: {rep['failures'][:2]}", "no_input": False})
                    elif led_status == "discharged" or f.get("no_model"):
                        payload["kind"] = "no-failing-input-found"
                        path = write_replay(pid, oid, payload)
                        run.add_obligation(oid, "refuted-unreplayed", "P", backend, {"replay": path, "native": rep})
                        run.violations.append({"obligation": oid, "replay": path, "what": f"{fname}: {label} no longer discharged ({f.get('escaping_exception') or f.get('violations') or 'counter-model'})", "no_input": True})
                    else:
                        run.add_obligation(oid, "undecided", "P", backend, {"reason": "counter-model did not replay natively and the obligation is not in the baseline ledger", "native": rep})
                        run.undecided.append(oid)
    # ---------------- P: lemmas ----------------
    for pid_, idx, out, err, dt in lemma_results:
        lem = lemmas[idx]
        if err is not None:
            raise RuntimeError(f"lemma {lem.name} crashed:\n{err}")
        run.solver_s += dt
        for label, status, detail in out:
            oid = f"{pid}/lemma:{lem.name}/{label}"
            if status == "discharged":
                run.add_obligation(oid, "discharged", "P", detail.get("backend", "z3"))
            elif status == "refuted":
                path = write_replay(pid, oid, {"property": pid, "obligation": oid, "kind": "no-failing-input-found", "solver": detail})
                run.add_obligation(oid, "refuted-unreplayed", "P", "z3", {"replay": path})
                run.violations.append({"obligation": oid, "replay": path, "what": f"lemma {lem.name}: {label} refuted: {str(detail)[:200]}", "no_input": True})
            else:
                run.add_obligation(oid, "undecided", "P", "z3", detail)
                run.undecided.append(oid)
    # ---------------- E: finite tables ----------------
    ctx = {"tier": tier, "seed": seed, "repo": front.REPO, "root": ROOT}
    if hasattr(mod, "tables"):
        for label, ok, detail in mod.tables(ctx):
            oid = f"{pid}/table/{label}"
            if ok:
                run.add_obligation(oid, "discharged", "E", "enumeration")
            else:
                path = write_replay(pid, oid, {"property": pid, "obligation": oid, "kind": "failing-input", "detail": detail})
                run.add_obligation(oid, "refuted", "E", "enumeration", {"replay": path})
                run.violations.append({"obligation": oid, "replay": path, "what": f"table {label}: {str(detail)[:200]}", "no_input": False})
    # ---------------- B: bounded stand-in ----------------
    if hasattr(mod, "bounded"):
        native.ensure_repo_on_path()
        b = mod.bounded(ctx)
        run.bounded = {k: v for k, v in b.items() if k != "failures"}
        seen_b = set()
        for f in b.get("failures", []):
            oid = f"{pid}/bounded/{f['label']}"
            if oid in seen_b:
                continue  # one violation (the first failing case) per bounded clause
            seen_b.add(oid)
            path = write_replay(pid, oid, {"property": pid, "obligation": oid, "kind": "failing-input", "case": f.get("case"), "observed": f.get("observed"), "how_to_run": f"./check {pid} --replay <this file>"})
            run.violations.append({"obligation": oid, "replay": path, "what": f"bounded: {f['label']}: {str(f.get('observed'))[:200]}", "no_input": False})
    if hasattr(mod, "ASSUMPTIONS"):
        run.assumptions.update(mod.ASSUMPTIONS)
    return finish(run, mod, time.time() - t_start)


def finish(run, mod, wall):
    pid = run.pid
    known = [k for k in load_known() if k.get("kind") == "known" and k.get("property") == pid]
    lines, real = [], []
    seen_known = set()
    for v in run.violations:
        hit = None
        for k in known:
            if k["obligation"] == v["obligation"] or (k["obligation"].endswith("*") and v["obligation"].startswith(k["obligation"][:-1])):
                m = k.get("match")
                if m is None or m in json.dumps(json.load(open(v["replay"])), default=str):
                    hit = k
                    break
        if hit is not None:
            if id(hit) not in seen_known:
                lines.append(f"KNOWN-FINDING: property={pid} {hit['what_fails']}")
                seen_known.add(id(hit))
        else:
            real.append(v)
    for v in real:
        tail = " no-failing-input-found" if v["no_input"] else ""
        lines.append(f"VIOLATION property={pid} replay={v['replay']}{tail}")
    n_ob = len(run.obligations)
    n_dis = sum(1 for o in run.obligations.values() if o["status"] == "discharged")
    by_backend = {}
    for o in run.obligations.values():
        if o["status"] == "discharged":
            by_backend[o["backend"]] = by_backend.get(o["backend"], 0) + 1
    level = getattr(mod, "LEVEL", "other")
    cov = {
        "obligations": n_ob, "discharged": n_dis,
        "checker_cmd": f"./check {pid} --tier {run.tier}",
        "trusted_base": sorted(getattr(mod, "TRUSTED_BASE", [])) + ["pyvc VC generator (own ast->SMT translation, DESIGN.md 2.3)", "z3 5.1 / cvc5 1.0.3", "assumed dependency contracts: " + ", ".join(sorted(run.stubs))],
        "by_backend": by_backend,
        "by_kind": {k: sum(1 for o in run.obligations.values() if o["kind"] == k) for k in ("P", "E")},
        "undecided": [{"obligation": o, "detail": _short(run.obligations[o].get("detail"))} for o in run.undecided],
        "functions_under_contract": run.functions,
        "inlined_callees": sorted(run.inlined),
        "solver_s": round(run.solver_s, 2),
        "samples": [{"obligation": k, **{kk: vv for kk, vv in v.items() if kk != "detail"}} for k, v in list(run.obligations.items())[:6]],
        "explanation": getattr(mod, "EXPLANATION", ""),
        "known_findings_printed": sorted(k["what_fails"] for k in known if id(k) in seen_known),
    }
    if run.bounded is not None:
        cov["bounded"] = run.bounded
        cov["evaluations"] = int(run.bounded.get("evaluations", 0))
        cov["distinct_nontrivial"] = int(run.bounded.get("distinct_nontrivial", 0))
        cov["rule"] = run.bounded.get("rule", "")
        if run.bounded.get("samples"):
            cov["samples"] = cov["samples"] + [{"bounded_case": s} for s in run.bounded["samples"][:4]]
    if n_ob and n_dis != n_ob:
        cov["explanation"] = (cov["explanation"] + f" NOTE: this run left {n_ob - n_dis} of {n_ob} P/E obligations undischarged (undecided or refuted); the proof-level claim is not met for this run for those obligations.").strip()
    ev = {"property_id": pid, "tier": run.tier, "seed": run.seed, "level": level, "coverage": cov,
          "assumptions": sorted(run.assumptions), "wall_s": round(wall, 2), "violations": len(real)}
    os.makedirs(EVIDENCE_DIR, exist_ok=True)
    with open(os.path.join(EVIDENCE_DIR, f"{pid}.json"), "w") as fh:
        json.dump(ev, fh, indent=1, default=str)
    for ln in lines:
        print(ln)
    print(f"[{pid}] tier={run.tier} obligations={n_ob} discharged={n_dis} undecided={len(run.undecided)} "
          f"violations={len(real)} known={len(seen_known)} bounded_evals={cov.get('evaluations', 0)} wall={wall:.1f}s")
    return 1 if real else 0, run


def _same_clause(label, failures):
    """Does a native failure correspond to the refuted obligation? (a replay only counts for its own clause)"""
    names = [f[0] for f in failures]
    if label.startswith("pre@call:") or label in ("termination",):
        return bool(names)
    if label.startswith("check:") or label.startswith("frame:"):
        return False
    return label in names or any(n.startswith(label) for n in names) or "termination" in names


def _short(d):
    s = json.dumps(d, default=str) if d is not None else ""
    return s[:400]


def do_replay(pid, path):
    """Re-run a stored replay file on the real code in this (fresh) interpreter."""
    os.environ["VERIF_PID"] = pid
    load_all_contracts()
    mod = property_module(pid)
    payload = json.load(open(path))
    from pyvc import replay as replay_mod, native
    if payload.get("case") is not None and hasattr(mod, "replay_case"):
        native.ensure_repo_on_path()
        ok, observed = mod.replay_case(payload["case"])
        print(json.dumps({"reproduced": not ok, "observed": observed}, default=str)[:2000])
        if not ok:
            print(f"VIOLATION property={pid} replay={path}")
        return 0 if ok else 1
    if payload.get("inputs") is not None:
        c = contract_mod.REGISTRY[(payload["file"], payload["function"])]
        rep = replay_mod.replay_counterexample(c, payload["inputs"], module=mod)
        print(json.dumps(rep, default=str)[:2000])
        if rep["status"] == "failed":
            print(f"VIOLATION property={pid} replay={path}")
            return 1
        return 0
    print("replay file carries no native input (no-failing-input-found); solver output:", json.dumps(payload.get("solver"), default=str)[:1500])
    return 0


def do_baseline(pids):
    """Every property in its OWN interpreter (contract modules that enumerate the class graph register only for their own property)."""
    import subprocess
    import tempfile
    ledger = load_ledger()
    for pid in pids:
        with tempfile.NamedTemporaryFile("r", suffix=".json") as fh:
            r = subprocess.run([sys.executable, "-m", "pyvc.cli", "ledger-part", pid, fh.name], cwd=ROOT)
            if r.returncode not in (0, 1):
                print(f"ledger: {pid} failed with status {r.returncode}; its entries are left unchanged")
                continue
            part = json.load(open(fh.name))
        for k in [k for k in ledger if k.startswith(pid + "/")]:
            del ledger[k]
        ledger.update(part)
    os.makedirs(os.path.dirname(LEDGER), exist_ok=True)
    with open(LEDGER, "w") as fh:
        json.dump(dict(sorted(ledger.items())), fh, indent=0)
    print(f"ledger written: {len(ledger)} obligations")


def do_ledger_part(pid, out):
    os.environ["VERIF_REWRITING_LEDGER"] = "1"  # the ledger is being rewritten: ids it still holds from an earlier contract text are not "vanished"
    code, run = check_property(pid, "quick", 0)
    with open(out, "w") as fh:
        json.dump({oid: {"status": o["status"], "sha": o.get("sha")} for oid, o in run.obligations.items()}, fh)
    return code


def main(argv=None):
    ap = argparse.ArgumentParser()
    ap.add_argument("what")
    ap.add_argument("rest", nargs="*")
    ap.add_argument("--tier", default=os.environ.get("VERIF_TIER", "quick"))
    ap.add_argument("--replay")
    ap.add_argument("--jobs", type=int)
    a = ap.parse_args(argv)
    seed = int(os.environ.get("VERIF_SEED", "0") or 0)
    try:
        if a.what == "ledger-part":
            return do_ledger_part(a.rest[0], a.rest[1])
        if a.what == "baseline":
            pids = a.rest or sorted({os.path.basename(p)[:3] for p in glob.glob(os.path.join(ROOT, "contracts", "C[0-9][0-9]_*.py"))} - {"C00"})
            do_baseline(pids)
            return 0
        if a.replay:
            return do_replay(a.what, a.replay)
        code, _ = check_property(a.what, a.tier, seed, a.jobs)
        return code
    except SystemExit:
        raise
    except Exception:
        traceback.print_exc()
        print("CHECKER-ERROR (exit 3): no verdict on the code", file=sys.stderr)
        return 3


if __name__ == "__main__":
    sys.exit(main())
