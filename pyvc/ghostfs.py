"""Ghost file system: initial state = uninterpreted functions of the path; writes are an ordered log.

Lookups resolve aliasing explicitly: in code mode by branching on `path == written path` (pruned by the distinctness
preconditions of the contract), in clause (pure) mode by an if-then-else chain.  No array theory reaches the solver.
"""
from __future__ import annotations
import z3
from .values import VBytes, VStr, VBool, BSort, SSort

S = z3.StringSort()
FS0_BIN = z3.Function("FS0_BIN", S, BSort)
FS0_TXT = z3.Function("FS0_TXT", S, S)
FS0_EXISTS = z3.Function("FS0_EXISTS", S, z3.BoolSort())


class GhostFS:
    def __init__(self, it):
        self.it = it
        self.log = []  # (path term, 'b' | 't', content term)
        self.view = None  # when set: number of log entries visible (old state)

    def mark(self):
        return len(self.log)

    def _entries(self):
        n = len(self.log) if self.view is None else self.view
        return self.log[:n]

    def _resolve(self, pt, on_hit, on_miss):
        it = self.it
        pt = z3.simplify(pt)
        entries = self._entries()
        if it.pure:
            r = on_miss()
            for w, kind, content in entries:
                hit = on_hit(kind, content)
                if z3.eq(w, pt):
                    r = hit
                elif it.must(w != pt):
                    continue  # provably a different file (distinctness preconditions)
                else:
                    r = z3.If(w == pt, hit, r)
            return r
        for w, kind, content in reversed(entries):
            if z3.eq(w, pt) or it.branch(w == pt):
                return on_hit(kind, content)
        return on_miss()

    def exists(self, pt):
        return self._resolve(pt, lambda k, c: z3.BoolVal(True), lambda: FS0_EXISTS(z3.simplify(pt)))

    def read_bin(self, pt):
        from . import stubs
        def hit(kind, content):
            return content if kind == "b" else stubs.UTF8(content)
        r = self._resolve(pt, hit, lambda: FS0_BIN(z3.simplify(pt)))
        return r

    def read_txt(self, pt):
        from . import stubs
        def hit(kind, content):
            return content if kind == "t" else stubs.UTF8DEC(content)
        return self._resolve(pt, hit, lambda: FS0_TXT(z3.simplify(pt)))

    def write(self, pt, kind, content_term):
        self.log.append((z3.simplify(pt), kind, content_term))


class OldView:
    def __init__(self, fs, mark):
        self.fs, self.mark = fs, mark

    def __enter__(self):
        self.saved = self.fs.view
        self.fs.view = self.mark if self.mark is not None else self.saved

    def __exit__(self, *a):
        self.fs.view = self.saved
