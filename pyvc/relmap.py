"""Predicate-abstracted collections of UNBOUNDED size and the foreach rule with pointwise effects.

  KeySet   a list of DISTINCT text keys, known only through its membership predicate  mem : String -> Bool
  RelMap   a mapping with a few concrete entries (`fixed`: the integer-keyed members of an envelope) and an unbounded text-keyed
           part known only through  has : String -> Bool  and  val : String -> Bytes  (text keys map to byte strings)

Both are immutable-by-replacement: an update installs a new closure, so a predicate captured earlier (by a comprehension, by the
origin table of `ENC`) keeps describing the state at the time it was captured.

What the executor does with them (everything else is out of reach - never guessed):
  * `m.keys()`, `k in m`, `m[k]`, `m[k] = v`, `m.pop(k)`, `dict(m)`, `isinstance(m, Mapping | dict)`, `cbor2.dumps / loads` (law A1 through
    the origin table; the encoding of an unbounded map is an uninterpreted byte string whose origin is a snapshot of the map)
  * `[k for k in <keys of m | key set> if <filter>]` with a filter built from isinstance, re.fullmatch/match/search (user pattern:
    uninterpreted predicates), membership in another key set, and/or/not: the result is the key set  { k | src(k) and filter(k) }
  * `for k in <key set>: body` - the FOREACH rule: the effect of the body on the tracked collections is inferred syntactically
    (`s.remove(k)`, `m.pop(k)`, `m[k] = e`), VALIDATED on one arbitrary iteration (the recorded operations must be exactly the
    inferred ones, on the element itself - otherwise the function is out of reach), and applied to every element on the exit path.
    The arbitrary iteration runs in the mid-loop state (the effect already applied to an arbitrary set of OTHER elements: an
    uninterpreted `VISITED` predicate that excludes the element).  Other loop-carried state uses the declared invariants of the
    ordinary loop rule; the element-wise body check of the contract states what the iteration must have done with its element.
"""
from __future__ import annotations
import ast
import z3
from .values import V, NONE, VNone, VInt, VBool, VBytes, VStr, VTag, VLib, VBuiltin, OutOfSubset, BSort, SSort, mk

S = SSort


# ------------------------------------------------------------------------------------------------ construction
def _track(it, o):
    it.__dict__.setdefault("rel_objects", []).append(o)
    return o


def new_relmap(it, fixed, has, val, frozen=False):
    return _track(it, VLib("RelMap", fixed=dict(fixed), has=has, val=val, frozen=frozen, ops=None))


def new_keyset(it, mem):
    return _track(it, VLib("KeySet", mem=mem, ops=None))


def is_relmap(v):
    return isinstance(v, VLib) and v.kind == "RelMap"


def is_keyset(v):
    return isinstance(v, VLib) and v.kind == "KeySet"


def is_keys_view(v):
    return isinstance(v, VLib) and v.kind == "RelMapKeys"


def copy_map(it, m, frozen):
    return new_relmap(it, m.f["fixed"], m.f["has"], m.f["val"], frozen=frozen)


def snapshot(it, v):
    """The value as it is NOW (what an encoding made now describes), detached from later updates."""
    if isinstance(v, VTag) and is_relmap(v.value):
        return VTag(v.tag, copy_map(it, v.value, v.value.f["frozen"]))
    if is_relmap(v):
        return copy_map(it, v, v.f["frozen"])
    return v


def contains_rel(v):
    return is_relmap(v) or (isinstance(v, VTag) and is_relmap(v.value))


def _rec(o, op, key, val=None):
    if o.f["ops"] is not None:
        o.f["ops"].append((op, key, val))


# ------------------------------------------------------------------------------------------------ operations
def contains(it, c, item):
    """`item in c` -> True | False | z3 Bool"""
    if is_keys_view(c):
        c = c.f["m"]
    if is_relmap(c):
        if isinstance(item, VStr):
            return c.f["has"](item.e)
        if isinstance(item, (VInt, VBool)) and item.conc is not None:
            return item.conc in c.f["fixed"]
        if isinstance(item, (VBytes, VNone)):
            return False
        raise OutOfSubset(f"membership of {item!r} in a mapping of unbounded size")
    if is_keyset(c):
        if isinstance(item, VStr):
            return c.f["mem"](item.e)
        if isinstance(item, (VInt, VBool, VBytes, VNone)):
            return False
        raise OutOfSubset(f"membership of {item!r} in a key list of unbounded size")
    raise OutOfSubset("contains")


def getitem(it, m, key):
    if is_relmap(m):
        if isinstance(key, VStr):
            if not it.branch(m.f["has"](key.e)):
                it.raise_(KeyError, "key")
            return VBytes(m.f["val"](key.e))
        if isinstance(key, (VInt, VBool)) and key.conc is not None:
            if key.conc not in m.f["fixed"]:
                it.raise_(KeyError, "key")
            return m.f["fixed"][key.conc]
        raise OutOfSubset(f"lookup of {key!r} in a mapping of unbounded size")
    raise OutOfSubset(f"subscript of a {m.kind}")


def setitem(it, m, key, val):
    if not is_relmap(m):
        raise OutOfSubset(f"item store on a {m.kind}")
    if m.f["frozen"]:
        it.raise_(TypeError, "'cbor2.frozendict' object does not support item assignment")
    if isinstance(key, VStr):
        if not isinstance(val, VBytes):
            raise OutOfSubset("a text key of an unbounded mapping is given a value that is not a byte string")
        has, old, ke, ve = m.f["has"], m.f["val"], key.e, val.e
        m.f["has"] = lambda k: z3.Or(has(k), k == ke)
        m.f["val"] = lambda k: z3.If(k == ke, ve, old(k))
        _rec(m, "set", key, val)
        return
    if isinstance(key, (VInt, VBool)) and key.conc is not None:
        m.f["fixed"] = dict(m.f["fixed"])
        m.f["fixed"][key.conc] = val
        _rec(m, "set-fixed", key, val)
        return
    raise OutOfSubset(f"store under {key!r} in a mapping of unbounded size")


def method(it, o, name):
    if is_relmap(o) and name in ("keys", "pop"):
        return VBuiltin(f"RelMap.{name}", self_obj=o)
    if is_keyset(o) and name in ("remove",):
        return VBuiltin(f"KeySet.{name}", self_obj=o)
    raise OutOfSubset(f"attribute {name} of a {o.kind} (collection of unbounded size)")


def relmap_keys(it, m, args, kw):
    return VLib("RelMapKeys", m=m)


def relmap_pop(it, m, args, kw):
    if m.f["frozen"]:
        it.raise_(AttributeError, "'cbor2.frozendict' object has no attribute 'pop'")
    key = args[0]
    if not isinstance(key, VStr):
        raise OutOfSubset(f"pop of {key!r} from a mapping of unbounded size")
    if not it.branch(m.f["has"](key.e)):
        if len(args) > 1:
            return args[1]
        it.raise_(KeyError, "key")
    r = VBytes(m.f["val"](key.e))
    has, ke = m.f["has"], key.e
    m.f["has"] = lambda k: z3.And(has(k), k != ke)
    _rec(m, "pop", key)
    return r


def keyset_remove(it, s, args, kw):
    x = args[0]
    if not isinstance(x, VStr):
        it.raise_(ValueError, "list.remove(x): x not in list")
    if not it.branch(s.f["mem"](x.e)):
        it.raise_(ValueError, "list.remove(x): x not in list")
    mem, xe = s.f["mem"], x.e
    s.f["mem"] = lambda k: z3.And(mem(k), k != xe)
    _rec(s, "remove", x)
    return NONE


def enc(it, m):
    """ENC of a mapping of unbounded size: an uninterpreted byte string (its origin - a snapshot - is registered by cbor.enc)."""
    return it.fresh_bytes("enc_unbounded_map")


# ------------------------------------------------------------------------------------------------ comprehension with a filter
_RE = {"re.fullmatch": "RE_FULLMATCH", "re.match": "RE_MATCH", "re.search": "RE_SEARCH"}


def _re_pred(name):
    from . import restubs
    return {"RE_FULLMATCH": restubs.FULLMATCH, "RE_MATCH": restubs.RE_MATCH, "RE_SEARCH": restubs.RE_SEARCH}[name]


def _mentions(node, var):
    return any(isinstance(n, ast.Name) and n.id == var for n in ast.walk(node))


def filter_formula(it, node, env, var):
    """The filter expression as a function  k -> z3 Bool  of the (text) element bound to `var`. Out of reach for anything else."""
    if not _mentions(node, var):
        b = it.test(it.eval(node, env))  # does not depend on the element: decided on this path (forks when symbolic)
        return lambda k: z3.BoolVal(b)
    if isinstance(node, ast.BoolOp):
        fs = [filter_formula(it, v, env, var) for v in node.values]
        op = z3.And if isinstance(node.op, ast.And) else z3.Or
        return lambda k: op(*[f(k) for f in fs])
    if isinstance(node, ast.UnaryOp) and isinstance(node.op, ast.Not):
        f = filter_formula(it, node.operand, env, var)
        return lambda k: z3.Not(f(k))
    if isinstance(node, ast.Call):
        fn = it.eval(node.func, env)
        if isinstance(fn, VBuiltin) and fn.name == "isinstance" and len(node.args) == 2 and isinstance(node.args[0], ast.Name) and node.args[0].id == var:
            T = it.eval(node.args[1], env)
            from . import stubs_lib
            r = stubs_lib.isinstance_(it, VStr("x"), T)  # the element is a text key: decided by its kind alone
            if isinstance(r, bool):
                return lambda k: z3.BoolVal(r)
            raise OutOfSubset("isinstance filter with a symbolic outcome")
        if isinstance(fn, VBuiltin) and fn.name in _RE and len(node.args) == 2 and isinstance(node.args[1], ast.Name) and node.args[1].id == var and not _mentions(node.args[0], var):
            pat = it.eval(node.args[0], env)
            if not isinstance(pat, VStr):
                raise OutOfSubset("re filter with a pattern that is not a str")
            it.assumptions_used.add("re.fullmatch / re.match / re.search with a user pattern are uninterpreted predicates; patterns are assumed valid")
            P = _re_pred(_RE[fn.name])
            return lambda k: P(pat.e, k)
        raise OutOfSubset(f"filter call {ast.unparse(node)}")
    if isinstance(node, ast.Compare) and len(node.ops) == 1:
        op, l, r = node.ops[0], node.left, node.comparators[0]
        if isinstance(op, (ast.Is, ast.IsNot)) and isinstance(r, ast.Constant) and r.value is None and isinstance(l, ast.Call):
            f = filter_formula(it, l, env, var)  # a match object is not None exactly when the pattern matches
            return (lambda k: z3.Not(f(k))) if isinstance(op, ast.Is) else f
        if isinstance(op, (ast.In, ast.NotIn)) and isinstance(l, ast.Name) and l.id == var and not _mentions(r, var):
            c = it.eval(r, env)
            if is_keys_view(c):
                c = c.f["m"]
            if is_keyset(c):
                p = c.f["mem"]
            elif is_relmap(c):
                p = c.f["has"]
            else:
                raise OutOfSubset("membership filter against a collection that is not predicate-abstracted")
            return (lambda k: p(k)) if isinstance(op, ast.In) else (lambda k: z3.Not(p(k)))
        if isinstance(op, (ast.Eq, ast.NotEq)) and isinstance(l, ast.Name) and l.id == var and not _mentions(r, var):
            c = it.eval(r, env)
            if not isinstance(c, VStr):
                raise OutOfSubset("equality filter against a non-str")
            return (lambda k: k == c.e) if isinstance(op, ast.Eq) else (lambda k: k != c.e)
    raise OutOfSubset(f"filter {ast.unparse(node)} over a collection of unbounded size")


def try_comprehension(it, n, env):
    """[k for k in <keys view | key set> if ...] -> key set; None when the source is not predicate-abstracted."""
    if not isinstance(n, ast.ListComp) or len(n.generators) != 1:
        return None
    g = n.generators[0]
    src_node = g.iter
    # only evaluate the source when it can be one of ours: a name, an attribute chain, or a .keys() call on one (no side effects)
    probe = src_node.func.value if (isinstance(src_node, ast.Call) and isinstance(src_node.func, ast.Attribute) and src_node.func.attr == "keys" and not src_node.args) else src_node
    base = probe
    while isinstance(base, ast.Attribute):
        base = base.value
    if not isinstance(base, ast.Name):
        return None
    try:
        pv = it.eval(probe, env)
    except OutOfSubset:
        return None
    if not (is_relmap(pv) or is_keyset(pv) or is_keys_view(pv)):
        return None
    src = it.eval(src_node, env) if probe is not src_node else pv
    if is_relmap(src):
        src = VLib("RelMapKeys", m=src)
    if not isinstance(g.target, ast.Name) or not (isinstance(n.elt, ast.Name) and n.elt.id == g.target.id) or g.is_async:
        raise OutOfSubset("comprehension over a collection of unbounded size that is not a plain filter [k for k in c if ...]")
    var = g.target.id
    filt = [filter_formula(it, c, env, var) for c in g.ifs]
    if is_keys_view(src):
        m = src.f["m"]
        # the concrete (integer-keyed) members: each must be rejected by the filter, decided by running the filter on it
        from .interp import Env
        for ck in m.f["fixed"]:
            e2 = Env(env.module, env)
            e2.set(var, mk(ck))
            if all(it.test(it.eval(c, e2)) for c in g.ifs):
                raise OutOfSubset("a non-text key passes the filter of a comprehension over a mapping of unbounded size")
        base_p = m.f["has"]
    else:
        base_p = src.f["mem"]
    return new_keyset(it, lambda k: z3.And(base_p(k), *[f(k) for f in filt]))


# ------------------------------------------------------------------------------------------------ foreach with pointwise effects
def _chain(node):
    b = node
    while isinstance(b, ast.Attribute):
        b = b.value
    return isinstance(b, ast.Name)


def infer_effects(it, st, env, var):
    """[(collection, op)] - the operations the loop body applies to tracked collections AT ITS ELEMENT, read off the syntax."""
    found = {}

    def note(expr, op):
        if not _chain(expr):
            return
        try:
            o = it.eval(expr, env)
        except Exception:  # noqa: BLE001  (unbound names etc.: not one of ours at loop entry)
            return
        if is_relmap(o) or is_keyset(o):
            if id(o) in found and found[id(o)][1] != op:
                raise OutOfSubset("a loop body applies two different operations to one collection of unbounded size")
            found[id(o)] = (o, op)
    for s_ in st.body:
        for n in ast.walk(s_):
            if isinstance(n, ast.Call) and isinstance(n.func, ast.Attribute) and n.func.attr in ("remove", "pop") and n.args and isinstance(n.args[0], ast.Name) and n.args[0].id == var:
                note(n.func.value, n.func.attr)
            elif isinstance(n, ast.Subscript) and isinstance(n.ctx, ast.Store) and isinstance(n.slice, ast.Name) and n.slice.id == var:
                note(n.value, "set")
    return list(found.values())


def _apply(it, o, op, sel):
    if op == "remove":
        mem = o.f["mem"]
        o.f["mem"] = lambda k: z3.And(mem(k), z3.Not(sel(k)))
    elif op == "pop":
        has = o.f["has"]
        o.f["has"] = lambda k: z3.And(has(k), z3.Not(sel(k)))
    elif op == "set":
        G = z3.Function(it.fresh_name("STORED"), S, BSort)
        has, val = o.f["has"], o.f["val"]
        o.f["has"] = lambda k: z3.Or(has(k), sel(k))
        o.f["val"] = lambda k: z3.If(sel(k), G(k), val(k))
    else:
        raise OutOfSubset(f"effect {op}")


def foreach(it, st, env, src):
    from .interp import _Break, _Continue
    if not isinstance(st.target, ast.Name):
        raise OutOfSubset("loop over a key list of unbounded size with a structured target")
    var = st.target.id
    effects = infer_effects(it, st, env, var)
    if any(o is src for o, _ in effects):
        raise OutOfSubset("a loop mutates the key list it iterates over")
    spec = it.loop_spec() or {}
    # loop-carried state other than the tracked collections: declared invariants (every declared name that occurs in the body is havoced)
    force = {n.id for s_ in st.body for n in ast.walk(s_) if isinstance(n, ast.Name) and n.id in spec}
    tracked_roots = set()
    for s_ in st.body:
        for n in ast.walk(s_):
            e = None
            if isinstance(n, ast.Call) and isinstance(n.func, ast.Attribute) and n.func.attr in ("remove", "pop"):
                e = n.func.value
            elif isinstance(n, ast.Subscript) and isinstance(n.ctx, ast.Store):
                e = n.value
            if e is not None and _chain(e):
                b = e
                while isinstance(b, ast.Attribute):
                    b = b.value
                try:
                    o = it.eval(e, env)
                except Exception:  # noqa: BLE001
                    continue
                if is_relmap(o) or is_keyset(o):
                    tracked_roots.add(b.id)
    declared = it._loop_enter(st, env, st.target, tracked=tracked_roots, force=force)
    mem0 = src.f["mem"]
    it._foreach_effects = [(o, op) for o, op in effects]
    if it.choose(2, "loop_iter_or_exit") == 0:
        k0 = it.fresh_str("elem")
        it.assume(mem0(k0.e))
        VIS = z3.Function(it.fresh_name("VISITED"), S, z3.BoolSort())
        it.assume(z3.Not(VIS(k0.e)))
        for o, op in effects:
            _apply(it, o, op, lambda k: z3.And(mem0(k), VIS(k)))
        live = list(it.__dict__.get("rel_objects", []))
        for o in live:
            o.f["ops"] = []
        it._loop_trace_mark = len(it.trace)
        it._loop_elem, it._loop_src = k0, src
        env.set(var, k0)
        try:
            it.exec_block(st.body, env)
        except _Break:
            raise OutOfSubset("break inside a loop over a key list of unbounded size")
        except _Continue:
            pass
        expected = {id(o): op for o, op in effects}
        for o in list(it.__dict__.get("rel_objects", [])):
            ops = o.f["ops"] or []
            o.f["ops"] = None
            want = expected.get(id(o))
            if want is None:
                if ops:
                    raise OutOfSubset("a loop body changes a collection of unbounded size in a way its syntax does not show")
                continue
            if len(ops) != 1 or ops[0][0] != want or not it.must(ops[0][1].e == k0.e):
                raise OutOfSubset(f"the loop body does not apply exactly one `{want}` at its own element on this path")
        it._loop_step_done(declared, env)  # raises PathEnd
    for o, op in effects:
        _apply(it, o, op, mem0)
    it.exec_block(st.orelse, env)
