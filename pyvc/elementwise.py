"""Element-wise rule for map-shaped comprehensions over symbolic-length sequences (DESIGN.md 2.3 loops (ii))."""
from __future__ import annotations
import ast
import z3
from .values import OutOfSubset, VStr, VBool


def try_comprehension(it, n, env):
    """Patterns summarised without unrolling:
         (c in <concrete str>  for c in <symbolic str>)   ->  membership of the string in the regular language chars*
       (consumed by all(...)).  Returns None when the comprehension is not of a known shape (it is then unrolled)."""
    if len(n.generators) != 1:
        return None
    g = n.generators[0]
    if g.ifs or not isinstance(g.target, ast.Name):
        return None
    elt = n.elt
    if not (isinstance(elt, ast.Compare) and len(elt.ops) == 1 and isinstance(elt.ops[0], ast.In)
            and isinstance(elt.left, ast.Name) and elt.left.id == g.target.id):
        return None
    src = it.eval(g.iter, env)
    if not (isinstance(src, VStr) and src.conc is None):
        return None
    chars = it.eval(elt.comparators[0], env)
    if not (isinstance(chars, VStr) and chars.conc is not None):
        return None
    alts = [z3.Re(ch) for ch in sorted(set(chars.conc))]
    lang = z3.Star(z3.Union(*alts) if len(alts) > 1 else alts[0]) if alts else z3.Re("")
    r = VBool(z3.InRe(src.e, lang))
    r.from_elementwise_all = True
    return r


def symbolic_range(it, args):
    """range(lo, hi, step) with symbolic bounds and a concrete positive step: a sequence of symbolic length whose arbitrary
    element i satisfies lo <= i < hi and (i - lo) % step == 0."""
    from .values import VInt
    from . import plain
    import z3
    lo, hi, step = (VInt(0), args[0], VInt(1)) if len(args) == 1 else (args[0], args[1], args[2] if len(args) > 2 else VInt(1))
    if step.conc is None or step.conc <= 0:
        raise OutOfSubset("range() with a symbolic or non-positive step")
    n = it.fresh_int("len_range", 0)
    it.assume(z3.If(hi.e > lo.e, z3.And(n.e >= 1, n.e <= hi.e - lo.e), n.e == 0))

    def elem(it_, hint):
        i = it_.fresh_int("range_i")
        it_.assume(z3.And(i.e >= lo.e, i.e < hi.e))
        if step.conc != 1:
            q = it_.fresh_int("range_q", 0)
            it_.assume(i.e == lo.e + q.e * step.conc)
        return i
    from . import types
    r = plain.VPList(it, it.fresh_name("range"), elem, is_tuple=True, n=n)
    from . import shapes
    r.shape = shapes.AbsListT(types.Int(), is_tuple=True)
    return r
