"""Element-wise rule for map-shaped comprehensions over symbolic-length sequences (DESIGN.md 2.3 loops (ii))."""
from __future__ import annotations
from .values import OutOfSubset


def try_comprehension(it, n, env):
    return None


def symbolic_range(it, args):
    raise OutOfSubset("range() with symbolic bounds")
