"""Replay of solver counterexamples on the real code under CPython (DESIGN.md 2.6)."""
from __future__ import annotations
import importlib
import json
import os
import signal
import tempfile

from . import native, front
from .types import ClsT, T, Int, Bool, Bytes, Str, NoneT, Const, Opt, OneOf, ListT, TupleT, SeqStr, DictT, Obj, EnumT, TagT, Enc, Lib, Any, PathStr


class CannotBuild(Exception):
    pass


def unjson(x):
    if isinstance(x, dict):
        if "__hex__" in x:
            return bytes.fromhex(x["__hex__"])
        return {k: unjson(v) for k, v in x.items()}
    if isinstance(x, list):
        return [unjson(i) for i in x]
    return x


_CTX = {"tmp": None, "cex": {}, "n": 0}


def _native_path(name):
    """Ghost file system -> a real temporary file (the model's path string itself is irrelevant)."""
    _CTX["n"] += 1
    path = os.path.join(_CTX["tmp"], f"f{_CTX['n']}_" + "".join(ch if ch.isalnum() else "_" for ch in name)[-40:])
    st = _CTX["cex"].get(f"__fs__{name}")
    if st and st[0]:
        content = st[1] if isinstance(st[1], bytes) else bytes(st[1].get("__bytes_len__", 0)) if isinstance(st[1], dict) else b""
        if isinstance(st[2], str) and st[2] and not content:
            content = st[2].encode()
        with open(path, "wb") as fh:
            fh.write(content)
    return path


def build_native(t, val, name=""):
    """Native Python value for a contract type from a projected model value (already un-JSON-ed)."""
    if isinstance(t, type) and issubclass(t, T):
        t = t()
    if isinstance(t, PathStr):
        return _native_path(name)
    if isinstance(t, (Int, Bool, Str, Bytes)):
        if isinstance(val, dict) and "__bytes_len__" in val:
            return bytes(val["__bytes_len__"])
        return val
    if isinstance(t, NoneT):
        return None
    if isinstance(t, Const):
        return t.value
    if isinstance(t, Opt):
        return None if val is None else build_native(t.t, val, name)
    if isinstance(t, OneOf):
        for a in t.alts:
            if not isinstance(a, T) and not isinstance(a, type) and a == val and type(a) is type(val):
                return a
        for a in t.alts:
            if isinstance(a, T) or isinstance(a, type):
                try:
                    return build_native(a, val, name)
                except Exception:
                    continue
        return val
    if isinstance(t, ListT):
        return [build_native(e, v, f"{name}[{i}]") for i, (e, v) in enumerate(zip(t.elems, val))]
    if isinstance(t, TupleT):
        return tuple(build_native(e, v, f"{name}[{i}]") for i, (e, v) in enumerate(zip(t.elems, val)))
    if isinstance(t, SeqStr):
        return list(val)
    if isinstance(t, DictT):
        out = {}
        for k, vt in list(t.required.items()) + list(t.optional.items()):
            ks = k if k in val else str(k)
            if ks in val:
                out[k] = build_native(vt, val[ks], f"{name}[{k!r}]")
        return out
    if isinstance(t, Obj):
        attrs = {k: build_native(at, val.get(k), f"{name}.{k}") for k, at in t.attrs.items()}
        return native.build_obj(t.relpath, t.cls, attrs)
    if isinstance(t, Lib) and t.kind == "Path":
        import pathlib
        return pathlib.Path(val.get("s", ""))
    if isinstance(t, ClsT):
        native.ensure_repo_on_path()
        return getattr(importlib.import_module(front.relpath_to_module(t.relpath)), t.cls)
    if isinstance(t, EnumT):
        native.ensure_repo_on_path()
        mod = importlib.import_module(front.relpath_to_module(t.relpath))
        cls = getattr(mod, t.cls)
        return cls[val["__enum__"].split(".")[-1]]
    raise CannotBuild(f"no native builder for {type(t).__name__}")


class _Timeout(Exception):
    pass


def _alarm(signum, frame):
    raise _Timeout()


def replay_counterexample(c, cex_json, module=None, timeout_s=60):
    """Run the real function on the counterexample. Returns dict(status, failures, note)."""
    if cex_json is None:
        return {"status": "no-model", "failures": []}
    cex = unjson(cex_json)
    adapter = getattr(module, "NATIVE", {}).get(c.func) if module is not None else None
    tmp = tempfile.mkdtemp(prefix="pyvc_replay_")
    old = signal.signal(signal.SIGALRM, _alarm)
    signal.alarm(timeout_s)
    try:
        if adapter is not None:
            prepared = adapter(c, cex, tmp)
            if prepared is None:
                return {"status": "cannot-build", "failures": [], "note": "adapter declined"}
            inputs, call, extra_ns = prepared
        else:
            _CTX.update(tmp=tmp, cex=cex, n=0)
            inputs = {}
            for name, t in list(c.params) + list(c.ghosts):
                inputs[name] = build_native(t, cex.get(name), name)
            call, extra_ns = None, None
        nr = native.run_case(c, inputs, call=call, extra_ns=extra_ns)
        if nr.skipped:
            return {"status": "precondition-false-natively", "failures": []}
        out = {"status": "failed" if nr.failures else "passed", "failures": [list(f) for f in nr.failures],
               "outcome": nr.outcome, "exception": repr(nr.exc)[:300] if nr.exc is not None else None}
        if adapter is not None:
            # the adapter searched the counterexample CLASS natively: record the concrete witness it found
            out["native_inputs"] = {k: ({"__hex__": v.hex()} if isinstance(v, bytes) else repr(v)[:300]) for k, v in inputs.items()}
        return out
    except CannotBuild as e:
        return {"status": "cannot-build", "failures": [], "note": str(e)}
    except _Timeout:
        return {"status": "failed", "failures": [["termination", f"no result within {timeout_s}s"]]}
    except Exception as e:  # noqa: BLE001
        return {"status": "replay-error", "failures": [], "note": f"{type(e).__name__}: {e}"}
    finally:
        signal.alarm(0)
        signal.signal(signal.SIGALRM, old)
        import shutil
        shutil.rmtree(tmp, ignore_errors=True)
