"""Front end: locate and parse the *current* source of /repo on every run (nothing is cached).

The verified text is the code that runs: every function body the executor interprets is the
`ast` of the file on disk.  What extraction drops is listed in DESIGN.md 2.2 (docstrings, type
annotations, logging calls, the @log_call decorator, functools.update_wrapper in cbstr).
"""
from __future__ import annotations
import ast
import hashlib
import os

REPO = os.environ.get("VERIF_REPO", "/repo")


def deco_name(d):
    if isinstance(d, ast.Name):
        return d.id
    if isinstance(d, ast.Attribute):
        return deco_name(d.value) + "." + d.attr
    if isinstance(d, ast.Call):
        return deco_name(d.func)
    return "?"


MODELLED_DECORATORS = {"staticmethod", "classmethod", "property", "abstractmethod", "abc.abstractmethod", "log_call", "logger.log_call",
                       "functools.wraps", "wraps"}


class FuncInfo:
    def __init__(self, node, module, cls=None):
        self.node = node
        self.module = module
        self.cls = cls
        self.name = node.name
        self.qualname = (cls.name + "." if cls is not None else "") + node.name
        decos = [deco_name(d) for d in node.decorator_list]
        self.decos = decos
        # decorators whose effect on the call is modelled (log_call only logs; abstractmethod/unique/wraps do not alter calls);
        # any other decorator can change what a call does (memoisation, swallowed exceptions ...): the function is then out of reach
        self.unmodelled_decos = [d for d in decos if d not in MODELLED_DECORATORS and not d.endswith(".setter")]
        if "staticmethod" in decos:
            self.kind = "static"
        elif "classmethod" in decos:
            self.kind = "class"
        elif "property" in decos:
            self.kind = "property"
        elif any(d.endswith(".setter") for d in decos):
            self.kind = "setter"
        else:
            self.kind = "function"
        self.closure = None  # env of the defining scope for nested defs

    @property
    def source_sha256(self):
        seg = ast.get_source_segment(self.module.source, self.node) or ""
        return hashlib.sha256(seg.encode()).hexdigest()

    @property
    def where(self):
        return f"{self.module.relpath}:{self.node.lineno}"

    def __repr__(self):
        return f"<FuncInfo {self.module.name}.{self.qualname}>"


class ClassInfo:
    def __init__(self, node, module, name=None):
        self.node = node
        self.module = module
        self.name = name or node.name
        self.bases = []  # list of VClass (resolved when the class statement is executed)
        self.attrs = {}  # class-level namespace: name -> V  (FuncInfo wrapped as VFunc-less entries)
        self.is_enum = False
        self.is_dataclass = False
        self.fields = []  # dataclass fields: (name, default V or None)
        self.wraps = None  # for cbstr(): the wrapped ClassInfo

    def mro(self):
        """C3 linearisation over repository classes (real Python base classes are kept as leaves)."""
        def merge(seqs):
            res = []
            seqs = [list(s) for s in seqs if s]
            while seqs:
                for s in seqs:
                    cand = s[0]
                    if not any(cand in t[1:] for t in seqs):
                        break
                else:
                    raise TypeError("inconsistent MRO")
                res.append(cand)
                seqs = [[x for x in s if x is not cand] for s in seqs]
                seqs = [s for s in seqs if s]
            return res

        parents = [b.info for b in self.bases if b.info is not None]
        return [self] + merge([p.mro() for p in parents] + [parents])

    def py_bases(self):
        out = []
        for c in self.mro():
            for b in c.bases:
                if b.py is not None:
                    out.append(b.py)
        return out

    def lookup(self, name):
        for c in self.mro():
            if name in c.attrs:
                return c.attrs[name], c
        return None, None

    def is_subclass_of(self, other) -> bool:
        return other in self.mro()

    def __repr__(self):
        return f"<ClassInfo {self.name}>"


class ModuleInfo:
    def __init__(self, name, path, relpath):
        self.name = name
        self.path = path
        self.relpath = relpath
        with open(path, "r", encoding="utf-8") as fh:
            self.source = fh.read()
        self.tree = ast.parse(self.source, filename=path)
        self.ns = None  # namespace after executing the module body (filled by Interp.load_module)
        self.sha256 = hashlib.sha256(self.source.encode()).hexdigest()


REPO_PACKAGES = ("suit_generator", "ncs", "build_configuration")


def module_path(name):
    """Return (path, relpath) of a repository module, or None if `name` is not a repository module."""
    if name.split(".")[0] not in REPO_PACKAGES:
        return None
    rel = name.replace(".", "/")
    for cand in (rel + ".py", rel + "/__init__.py"):
        p = os.path.join(REPO, cand)
        if os.path.isfile(p):
            return p, cand
    return None


def relpath_to_module(relpath):
    assert relpath.endswith(".py")
    return relpath[:-3].replace("/", ".")
