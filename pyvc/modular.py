"""Modular calls: at a call site only the callee's contract is known (never its body)."""
from __future__ import annotations
import z3

from .values import V, NONE, VObj, VBool, VExc, PyRaise, OutOfSubset, VList, VDict
from .types import make_value, snapshot
from . import clauses


def apply_contract(it, c, fi, args, kwargs) -> V:
    from .interp import Env, OldEnv
    env = Env(None, clauses.spec_env(it))
    it.bind_args(fi, args, kwargs, env)
    # entry-state lets
    clauses.eval_lets(it, c.lets, env)
    old_env = Env(None, clauses.spec_env(it))
    for k, v in env.vars.items():
        old_env.vars[k] = snapshot(v)
    env.set("__old_env__", OldEnv(old_env, it.fs.mark()))
    # 1. preconditions are obligations of the caller
    for cl in c.requires_:
        if getattr(cl, "input_assumption", False):
            it.assumptions_used.add(f"input assumption of {c.func}: {cl.text}")
            continue
        goal = clauses.eval_clause(it, cl, env)
        it.call_obligations.append((f"pre@call:{c.func}.{cl.label}", goal, list(it.facts), list(it.pc)))
        it.assume(goal)
    # 2. exceptional outcomes
    for rs in c.raises_:
        cls = clauses.resolve_exception(it, rs.exc)
        if rs.when is not None and rs.must:
            cond = clauses.eval_clause(it, rs.when, env)
            fire = it.branch(cond)
        elif rs.when is not None:
            cond = clauses.eval_clause(it, rs.when, env)
            fire = it.branch(z3.And(cond, z3.Bool(it.fresh_name(f"{c.func}_raises_{rs.label}"))))
        else:
            fire = it.branch(z3.Bool(it.fresh_name(f"{c.func}_raises_{rs.label}")))
        if fire:
            _havoc(it, c, env, rs.modifies)
            for e in rs.ensures:
                it.assume(clauses.eval_clause(it, e, env))
            raise PyRaise(VExc(cls, ()))
    # 3. normal outcome: havoc the frame, assume the postconditions
    _havoc(it, c, env, c.modifies_)
    res = make_value(it, c.result_type, f"{c.func}.result") if c.result_type is not None else NONE
    env.set("result", res)
    for gname, gtype, _, _ in c.ghost_outs:
        env.set(gname, make_value(it, gtype, f"{c.func}.{gname}"))
    clauses.eval_lets(it, c.post_lets, env)
    for cl in c.returns_:
        if cl.extra.get("caller_assumes", True) and not (cl.extra.get("heavy") and not getattr(it, "use_heavy_callee_posts", False)):
            g = clauses.eval_clause(it, cl, env)
            it.assume(g)
            res2 = _define_result(g, res)
            if res2 is not res:
                res = res2
                env.set("result", res)
    it.trace.append(("call", c.func, dict(env.vars), res))
    return res


def _havoc(it, c, env, paths):
    for p in paths:
        parts = p.split(".")
        obj = env.lookup(parts[0])
        for a in parts[1:-1]:
            obj = it.getattr_(obj, a)
        t = c.modifies_types.get(p)
        if t is None:
            t = _declared_attr_type(c, parts)
        if t is None:
            raise OutOfSubset(f"modifies {p} without a type")
        if not isinstance(obj, VObj):
            raise OutOfSubset(f"modifies {p}: not an object")
        obj.attrs[parts[-1]] = make_value(it, t, p)


def _declared_attr_type(c, parts):
    from .types import Obj
    for name, t in c.params:
        if name == parts[0]:
            cur = t
            for a in parts[1:]:
                if isinstance(cur, Obj) and a in cur.attrs:
                    cur = cur.attrs[a]
                else:
                    return None
            return cur
    return None


def _pinned_literal(goal, res):
    """If the assumed postcondition is `result == <literal>`, use the literal itself as the result value."""
    from .values import VInt, VStr, VBool
    if not isinstance(res, (VInt, VStr)) or res.conc is not None:
        return None
    g = z3.simplify(goal)
    if z3.is_eq(g):
        a, b = g.arg(0), g.arg(1)
        for x, y in ((a, b), (b, a)):
            if z3.eq(x, res.e):
                if z3.is_int_value(y):
                    return VInt(y.as_long())
                if z3.is_string_value(y):
                    return VStr(y.as_string())
    return None


def _define_result(goal, res):
    """Postconditions of the form `result == t` / `result[i] == t` (possibly inside a conjunction) DEFINE the result:
    the term t itself is used as the value, which keeps caller-side goals syntactically close to callee-side terms."""
    from .values import VInt, VStr, VBool, VBytes, VTuple, VList
    conj = []

    def flat(e):
        if z3.is_and(e):
            for ch in e.children():
                flat(ch)
        else:
            conj.append(e)
    flat(goal)

    def contains(t, x):
        if z3.eq(t, x):
            return True
        return any(contains(ch, x) for ch in t.children())

    def define(v):
        if not isinstance(v, (VInt, VStr, VBool, VBytes)) or v.conc is not None:
            return v
        for e in conj:
            if z3.is_eq(e):
                a, b = e.arg(0), e.arg(1)
                for x, y in ((a, b), (b, a)):
                    if z3.eq(x, v.e) and not contains(y, v.e):
                        return type(v)(y)
        return v
    if isinstance(res, (VTuple, VList)):
        items = [define(x) for x in res.items]
        if any(a is not b for a, b in zip(items, res.items)):
            return type(res)(items)
        return res
    return define(res)
