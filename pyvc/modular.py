"""Modular calls: at a call site only the callee's contract is known (never its body)."""
from __future__ import annotations
import z3

from .values import V, NONE, VObj, VBool, VExc, PyRaise, OutOfSubset, VList, VDict
from .types import make_value, snapshot
from . import clauses


def apply_contract(it, c, fi, args, kwargs) -> V:
    from .interp import Env, OldEnv
    env = Env(None, clauses.spec_env(it))
    it.bind_args(fi, args, kwargs, env)
    # entry-state lets
    clauses.eval_lets(it, c.lets, env)
    old_env = Env(None, clauses.spec_env(it))
    for k, v in env.vars.items():
        old_env.vars[k] = snapshot(v)
    env.set("__old_env__", OldEnv(old_env, it.fs.mark()))
    # 1. preconditions are obligations of the caller
    for cl in c.requires_:
        goal = clauses.eval_clause(it, cl, env)
        it.call_obligations.append((f"pre@call:{c.func}.{cl.label}", goal, list(it.facts), list(it.pc)))
        it.assume(goal)
    # 2. exceptional outcomes
    for rs in c.raises_:
        cls = clauses.resolve_exception(it, rs.exc)
        if rs.when is not None and rs.must:
            cond = clauses.eval_clause(it, rs.when, env)
            fire = it.branch(cond)
        elif rs.when is not None:
            cond = clauses.eval_clause(it, rs.when, env)
            fire = it.branch(z3.And(cond, z3.Bool(it.fresh_name(f"{c.func}_raises_{rs.label}"))))
        else:
            fire = it.branch(z3.Bool(it.fresh_name(f"{c.func}_raises_{rs.label}")))
        if fire:
            _havoc(it, c, env, rs.modifies)
            for e in rs.ensures:
                it.assume(clauses.eval_clause(it, e, env))
            raise PyRaise(VExc(cls, ()))
    # 3. normal outcome: havoc the frame, assume the postconditions
    _havoc(it, c, env, c.modifies_)
    res = make_value(it, c.result_type, f"{c.func}.result") if c.result_type is not None else NONE
    env.set("result", res)
    clauses.eval_lets(it, c.post_lets, env)
    for cl in c.returns_:
        if cl.extra.get("caller_assumes", True):
            g = clauses.eval_clause(it, cl, env)
            it.assume(g)
            lit = _pinned_literal(g, res)
            if lit is not None:
                res = lit
                env.set("result", res)
    it.trace.append(("call", c.func))
    return res


def _havoc(it, c, env, paths):
    for p in paths:
        parts = p.split(".")
        obj = env.lookup(parts[0])
        for a in parts[1:-1]:
            obj = it.getattr_(obj, a)
        t = c.modifies_types.get(p)
        if t is None:
            t = _declared_attr_type(c, parts)
        if t is None:
            raise OutOfSubset(f"modifies {p} without a type")
        if not isinstance(obj, VObj):
            raise OutOfSubset(f"modifies {p}: not an object")
        obj.attrs[parts[-1]] = make_value(it, t, p)


def _declared_attr_type(c, parts):
    from .types import Obj
    for name, t in c.params:
        if name == parts[0]:
            cur = t
            for a in parts[1:]:
                if isinstance(cur, Obj) and a in cur.attrs:
                    cur = cur.attrs[a]
                else:
                    return None
            return cur
    return None


def _pinned_literal(goal, res):
    """If the assumed postcondition is `result == <literal>`, use the literal itself as the result value."""
    from .values import VInt, VStr, VBool
    if not isinstance(res, (VInt, VStr)) or res.conc is not None:
        return None
    g = z3.simplify(goal)
    if z3.is_eq(g):
        a, b = g.arg(0), g.arg(1)
        for x, y in ((a, b), (b, a)):
            if z3.eq(x, res.e):
                if z3.is_int_value(y):
                    return VInt(y.as_long())
                if z3.is_string_value(y):
                    return VStr(y.as_string())
    return None
