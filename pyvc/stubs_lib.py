"""call_builtin dispatch and abstract models of library objects (ASSUMED contracts, DESIGN.md 2.4)."""
from __future__ import annotations
import ast
import z3

from .values import V, VNone, NONE, VInt, VBool, VBytes, VStr, VFloat, VList, VTuple, VSeq, VDict, DEntry, VObj, \
    VClass, VEnum, VFunc, VBuiltin, VTag, VOpaque, VExc, VLib, PyRaise, OutOfSubset, mk, conc_key, dict_key, SymKey, BSort, SSort

I, B_, S = z3.IntSort(), z3.BoolSort(), z3.StringSort()


def _s():
    from . import stubs
    return stubs


HANDLERS = {}
SUFFIX_HANDLERS = []


def handler(*names):
    def deco(f):
        for n in names:
            HANDLERS[n] = f
        return f
    return deco


import os as _os
_KWLOG = _os.environ.get("VERIF_KWLOG")
_KWGUARD = _os.environ.get("VERIF_KWGUARD", "1") != "0"
_READS_KW = {}
# keyword arguments that are only another spelling of a positional parameter the model reads positionally via argn(), or that cannot change the result
BENIGN_KW = {"Hash": {"backend"}, "default_backend": set(), "update_wrapper": {"updated", "assigned"}}


def _reads_kw(h):
    """Does the handler ever load its 4th parameter (the keyword arguments)?"""
    r = _READS_KW.get(h)
    if r is None:
        import dis
        names = h.__code__.co_varnames
        kwn = names[3] if h.__code__.co_argcount > 3 else None
        r = _READS_KW[h] = kwn is not None and any(i.opname.startswith("LOAD_FAST") and kwn in (i.argval if isinstance(i.argval, tuple) else (i.argval,)) for i in dis.get_instructions(h))
    return r


def call_builtin(it, fn: VBuiltin, args, kwargs):
    name = fn.name
    it._cur_builtin_name = name
    if kwargs and _KWLOG:
        with open(_KWLOG, "a") as fh:  # audit aid (VERIF_KWLOG=<file>): which modelled library calls receive keyword options
            fh.write(f"{name} {sorted(kwargs)}\n")
    h = HANDLERS.get(name)
    if h is None:
        # match on dotted suffix (e.g. cryptography.hazmat.primitives.hashes.SHA256 -> hashes.SHA256)
        parts = name.split(".")
        for i in range(1, len(parts)):
            h = HANDLERS.get(".".join(parts[i:]))
            if h is not None:
                break
    if h is not None and kwargs and _KWGUARD and not _reads_kw(h):
        # a model that never looks at its keyword arguments must not be handed any it was not written for: an option that changes the
        # behaviour of the real call (canonical=True, flags=..., errors=...) would otherwise be ignored silently (DESIGN.md I.7)
        extra = set(kwargs) - BENIGN_KW.get(name.split(".")[-1], set())
        if extra:
            raise OutOfSubset(f"{name}: keyword option(s) {sorted(extra)} are not modelled")
    if h is None:
        if name in ("logging.getLogger",):
            return VLib("Logger")
        if name.startswith("logging.") or name.split(".")[0] in ("log", "logger") or name.startswith("Logger."):
            return NONE  # logging calls are dropped (their arguments were evaluated already)
        raise OutOfSubset(f"call of unmodelled builtin/library function {name}")
    try:
        return h(it, fn.self_obj, args, kwargs)
    except (IndexError, KeyError, AttributeError, TypeError) as e:
        # an internal error of a MODEL (typically: arguments passed by keyword where the model reads them by position) is a limit of the
        # machinery, never a verdict on the code and never a crash of the check
        raise OutOfSubset(f"model of {name} cannot bind its arguments ({type(e).__name__}: {str(e)[:80]})")


def argn(args, kwargs, i, name, default=None):
    if i < len(args):
        return args[i]
    return kwargs.get(name, default)


# ---------------------------------------------------------------------------------------------
# isinstance / type predicates
# ---------------------------------------------------------------------------------------------
def isinstance_(it, v: V, T: V):
    if isinstance(T, VTuple):
        rs = [isinstance_(it, v, t) for t in T.items]
        if any(r is True for r in rs):
            return True
        rs = [r for r in rs if r is not False]
        return z3.Or(*rs) if rs else False
    if isinstance(v, VOpaque):
        from . import plain
        return plain.isinstance_(it, v, T)
    if isinstance(T, VBuiltin):
        n = T.name.split(".")[-1]
        full = T.name
        if n == "int":
            return isinstance(v, (VInt, VBool))
        if n == "bool":
            return isinstance(v, VBool)
        if n == "str":
            return isinstance(v, VStr)
        if n == "bytes":
            return isinstance(v, VBytes)
        if n == "float":
            return isinstance(v, VFloat)
        if n == "dict":
            if isinstance(v, VLib) and v.kind == "RelMap":
                return not v.f["frozen"]
            return isinstance(v, VDict) and not v.frozen or (isinstance(v, VObj) and "__dict_base__" in v.attrs)
        if n in ("Mapping",):
            return isinstance(v, VDict) or (isinstance(v, VLib) and v.kind == "RelMap")
        if n == "list":
            return isinstance(v, (VList, VSeq)) or (isinstance(v, VLib) and v.kind == "KeySet")
        if n == "tuple":
            return isinstance(v, VTuple)
        if n == "CBORTag":
            return isinstance(v, VTag)
        if n == "IntelHex":
            return isinstance(v, VLib) and v.kind == "IntelHex"
        if n == "Path":
            return isinstance(v, VLib) and v.kind == "Path"
        if n in ("EllipticCurvePrivateKey", "Ed25519PrivateKey", "Ed448PrivateKey"):
            if isinstance(v, VLib) and v.kind == "PrivateKey":
                kt = v.f["ktype"]  # 'ec' | 'ed25519' | 'ed448' or symbolic int code
                want = {"EllipticCurvePrivateKey": "ec", "Ed25519PrivateKey": "ed25519", "Ed448PrivateKey": "ed448"}[n]
                return kt == want
            return False
        if n == "object":
            return True
        raise OutOfSubset(f"isinstance against {full}")
    if isinstance(T, VClass):
        if T.info is not None:
            if isinstance(v, VObj):
                return v.cls.is_subclass_of(T.info)
            if isinstance(v, VEnum):
                return v.cls.is_subclass_of(T.info)
            return False
        if isinstance(v, VExc):
            return issubclass(v.cls, T.py)
        if T.py is dict:
            return isinstance(v, VDict)
        return False
    raise OutOfSubset(f"isinstance against {T!r}")


@handler("isinstance")
def _isinstance(it, self, args, kw):
    return VBool(isinstance_(it, args[0], args[1]))


@handler("issubclass")
def _issubclass(it, self, args, kw):
    a, b = args
    if isinstance(a, VClass) and isinstance(b, VClass) and a.info is not None and b.info is not None:
        return VBool(a.info.is_subclass_of(b.info))
    raise OutOfSubset("issubclass")


@handler("type")
def _type(it, self, args, kw):
    v = args[0]
    if isinstance(v, VObj):
        return VClass(info=v.cls)
    if isinstance(v, VEnum):
        return VClass(info=v.cls)
    table = {VInt: int, VBool: bool, VStr: str, VBytes: bytes, VList: list, VTuple: tuple, VDict: dict, VNone: type(None), VFloat: float}
    for t, py in table.items():
        if isinstance(v, t):
            return VClass(py=py)
    if isinstance(v, VExc):
        return VClass(py=v.cls)
    return VLib("type-of", v=v)


@handler("len")
def _len(it, self, args, kw):
    v = args[0]
    s = _s()
    if isinstance(v, VBytes):
        return s.bytes_len(v)
    if isinstance(v, VStr):
        return s.str_len(v)
    if isinstance(v, (VList, VTuple)):
        return VInt(len(v.items))
    if isinstance(v, VSeq):
        return VInt(z3.Length(v.e))
    if isinstance(v, VLib) and v.kind == "dict_keys":
        v = v.f["dict"]
    if isinstance(v, VDict):
        if v.open_:
            raise OutOfSubset("len of an open dict")
        n = 0
        terms = []
        for e in v.entries.values():
            if e.present is True:
                n += 1
            else:
                terms.append(z3.If(e.present, 1, 0))
        return VInt(n) if not terms else VInt(n + z3.Sum(terms))
    if isinstance(v, VObj):
        if "__dict_base__" in v.attrs:
            return _len(it, None, [v.attrs["__dict_base__"]], {})
        f, _ = v.cls.lookup("__len__")
        if f is not None:
            return it.call_function(f.info, [v], {})
    if isinstance(v, (VNone, VInt, VBool, VFloat)):
        it.raise_(TypeError, "object has no len()")
    if isinstance(v, VOpaque):
        from . import plain
        return plain.len_(it, v)
    raise OutOfSubset(f"len of {v!r}")


@handler("bytes")
def _bytes(it, self, args, kw):
    s = _s()
    if not args:
        return VBytes(b"")
    v = args[0]
    if isinstance(v, VBytes):
        return v
    if isinstance(v, (VList, VTuple)):
        ints = []
        for x in v.items:
            if isinstance(x, VBool):
                x = it.to_int(x)
            if not isinstance(x, VInt):
                it.raise_(TypeError, "'x' object cannot be interpreted as an integer")
            if x.conc is not None:
                if not 0 <= x.conc <= 255:
                    it.raise_(ValueError, "bytes must be in range(0, 256)")
            elif not it.branch(z3.And(x.e >= 0, x.e <= 255)):
                it.raise_(ValueError, "bytes must be in range(0, 256)")
            ints.append(x)
        return s.bytes_from_ints(ints)
    if isinstance(v, VInt):
        if v.conc is None:
            if it.branch(v.e < 0):
                it.raise_(ValueError, "negative count")
            return s.rep_bytes(it, 0, v)
        if v.conc < 0:
            it.raise_(ValueError, "negative count")
        return VBytes(bytes(v.conc))
    if isinstance(v, VStr):
        if len(args) < 2 and "encoding" not in kw:
            it.raise_(TypeError, "string argument without an encoding")
        return s.utf8_of(it, v)
    raise OutOfSubset(f"bytes({v!r})")


def parse_int_str(it, sv: VStr, base: int) -> VInt:
    """int(s) / int(s, base) for strings; decimal digit strings are StrToInt; otherwise ValueError.

    Modelled domain: optional surrounding whitespace, sign, underscores and non-ASCII digits are OUTSIDE the model
    (listed assumption 'int(str): ASCII digit strings'); for base 0 the prefixes 0x/0o/0b are handled for concrete input."""
    if sv.conc is not None:
        try:
            return VInt(int(sv.conc, base))
        except ValueError:
            it.raise_(ValueError, "invalid literal for int()")
    if base != 10:
        INT_BASE = z3.Function(f"INT_BASE{base}", S, I)
        OK = z3.Function(f"INT_BASE{base}_OK", S, B_)
        if not it.branch(OK(sv.e)):
            it.raise_(ValueError, "invalid literal for int()")
        return VInt(INT_BASE(sv.e))
    digits = z3.InRe(sv.e, z3.Plus(z3.Range("0", "9")))
    if it.pure:
        return VInt(z3.StrToInt(sv.e))  # clauses are total: unspecified outside digit strings (guard it in the clause)
    it.assumptions_used.add("int(str) modelled on ASCII decimal digit strings; other accepted spellings (sign, spaces, underscores, Unicode digits) are outside the model")
    if not it.branch(digits):
        # outside the modelled domain int() may still accept; treat as ValueError OR an unknown value
        if it.branch(z3.Bool(it.fresh_name("int_accepts_unmodelled"))):
            return it.fresh_int("intof")
        it.raise_(ValueError, "invalid literal for int()")
    r = z3.StrToInt(sv.e)
    it.assume(r >= 0)
    return VInt(r)


@handler("int")
def _int(it, self, args, kw):
    if not args:
        return VInt(0)
    v = args[0]
    base = argn(args, kw, 1, "base")
    if isinstance(v, VBool):
        return it.to_int(v)
    if isinstance(v, VInt):
        if base is not None:
            it.raise_(TypeError, "int() can't convert non-string with explicit base")
        return v
    if isinstance(v, VStr):
        b = 10 if base is None else base.conc
        return parse_int_str(it, v, b)
    if isinstance(v, VNone) or isinstance(v, (VList, VDict, VTuple)):
        it.raise_(TypeError, "int() argument must be a string, a bytes-like object or a real number")
    if isinstance(v, VOpaque):
        from . import plain
        return plain.to_int(it, v, base)
    raise OutOfSubset(f"int({v!r})")


@handler("str")
def _str(it, self, args, kw):
    if not args:
        return VStr("")
    return _s().to_str(it, args[0])


@handler("repr")
def _repr(it, self, args, kw):
    return _s().to_repr(it, args[0])


@handler("bool")
def _bool(it, self, args, kw):
    t = it.truth(args[0])
    return VBool(t)


def _lazy_seq_copy(it, v, is_tuple):
    """list(x) / tuple(x) of a value of symbolic size (or None if x is not one)."""
    from . import plain
    if isinstance(v, plain.VPlain):
        v = plain.resolve(it, v)
    if isinstance(v, plain.VPList):
        r = plain.VPList(it, v.name, v.elem_fn, is_tuple=is_tuple, shape=v.shape, n=v.n)
        r.cache = v.cache
        for a in ("child_kinds", "domain"):
            if hasattr(v, a):
                setattr(r, a, getattr(v, a))
        return r
    if isinstance(v, (plain.VPMap, plain.VPIter)):
        m = v.m if isinstance(v, plain.VPIter) else v
        what = v.what if isinstance(v, plain.VPIter) else "keys"
        def elem(it_, hint, m=m, what=what):
            k = m.key_fn(it_, hint + "@key")
            if what == "keys":
                return k
            val = m.value_at(it_, k)
            return val if what == "values" else VTuple([k, val])
        return plain.VPList(it, m.name + f"@{what}", elem, is_tuple=is_tuple, n=m.n)
    return v


@handler("list")
def _list(it, self, args, kw):
    if not args:
        return VList([])
    if isinstance(args[0], VSeq):
        return args[0]
    v = _lazy_seq_copy(it, args[0], False)
    if isinstance(v, VOpaque) and v.kind == "plist":
        return v
    return VList(it.iterate(v))


@handler("tuple")
def _tuple(it, self, args, kw):
    if not args:
        return VTuple([])
    if isinstance(args[0], VNone):
        it.raise_(TypeError, "'NoneType' object is not iterable")
    v = _lazy_seq_copy(it, args[0], True)
    if isinstance(v, VOpaque) and v.kind == "plist":
        return v
    return VTuple(it.iterate(v))


@handler("pmap.items", "pmap.keys", "pmap.values")
def _pmap_view(it, self, args, kw):
    from . import plain
    raise OutOfSubset("pmap view")  # replaced below (needs the method name)


def _pmap_view_named(what):
    def h(it, self, args, kw):
        from . import plain
        return plain.VPIter(self, what)
    return h


for _w in ("items", "keys", "values"):
    HANDLERS[f"pmap.{_w}"] = _pmap_view_named(_w)


@handler("pmap.get")
def _pmap_get(it, self, args, kw):
    from . import plain
    key = plain._hashable(it, args[0])
    if it.branch(it.fresh_bool(f"absent_{self.name}").e):
        return args[1] if len(args) > 1 else NONE
    return self.value_at(it, key)


@handler("pmap.pop")
def _pmap_pop(it, self, args, kw):
    from . import plain
    key = plain._hashable(it, args[0])
    if it.branch(it.fresh_bool(f"absent_{self.name}").e):
        if len(args) > 1:
            return args[1]
        it.raise_(KeyError, "key")
    return self.value_at(it, key)


@handler("pmap.update")
def _pmap_update(it, self, args, kw):
    """m.update(other) for mappings of symbolic size of the SAME shape: m is afterwards SOME mapping of that shape (what was known about
    individual keys is forgotten - an over-approximation of `old entries overridden by the entries of other`); in place."""
    from . import plain
    if kw or len(args) != 1:
        raise OutOfSubset("dict.update with keyword arguments on a mapping of symbolic size")
    if self.frozen:
        it.raise_(AttributeError, "'cbor2.frozendict' object has no attribute 'update'")
    src = args[0]
    if isinstance(src, plain.VPlain):
        src = plain.resolve(it, src)
    if not isinstance(src, plain.VPMap):
        raise OutOfSubset("update of a mapping of symbolic size with something that is not one")
    if not (self.shape is src.shape or (self.shape is not None and src.shape is not None and self.shape.label == src.shape.label)):
        raise OutOfSubset("update of a mapping of symbolic size with a mapping of a different shape")
    self.cache, self.presence = {}, {}
    self.n = it.fresh_int(f"size_{self.name}@updated", 0, plain.MAXLEN)
    return NONE


@handler("pmap.copy")
def _pmap_copy(it, self, args, kw):
    from . import plain
    return plain.VPMap(it, self.name + "@copy", self.key_fn, self.val_fn, frozen=self.frozen, shape=self.shape)


@handler("plist.append")
def _plist_append(it, self, args, kw):
    if self.shape is not None:
        from . import shapes
        ok = shapes.conforms(it, args[0], self.shape.elem if hasattr(self.shape, "elem") else self.shape)
        shapes.note_obligation(it, f"invariant:{self.name.split('!')[0]}-append", ok, f"appended {args[0]!r} is not of the declared element shape")
    return NONE


@handler("plist.pop")
def _plist_pop(it, self, args, kw):
    if self.is_tuple:
        it.raise_(AttributeError, "'tuple' object has no attribute 'pop'")
    if not it.branch(self.n.e > 0):
        it.raise_(IndexError, "pop from empty list")
    r = self.elem_fn(it, f"{self.name}.pop()")
    # the list is one shorter afterwards (its remaining elements stay arbitrary)
    m = it.fresh_int(f"len_{self.name}", 0)
    it.assume(m.e == self.n.e - 1)
    self.n = m
    self.cache = {}
    return r


@handler("plist.extend")
def _plist_extend(it, self, args, kw):
    raise OutOfSubset("extend of a list of symbolic length")


@handler("plist.copy")
def _plist_copy(it, self, args, kw):
    return _lazy_seq_copy(it, self, self.is_tuple)


@handler("plist.index", "plist.count")
def _plist_index(it, self, args, kw):
    raise OutOfSubset("index/count on a list of symbolic length")


@handler("dict")
def _dict(it, self, args, kw):
    d = VDict()
    if args:
        src = args[0]
        if isinstance(src, VDict):
            for k in it.dict_keys(src):
                d.entries[k] = DEntry(k, src.entries[k].value)
        elif isinstance(src, VLib) and src.kind == "RelMap" and not kw:
            from . import relmap
            return relmap.copy_map(it, src, frozen=False)
        elif isinstance(src, VOpaque):
            from . import plain
            return plain.to_dict(it, src)
        elif isinstance(src, (VList, VTuple)):
            for pair in src.items:
                kv = it.iterate(pair)
                if len(kv) != 2:
                    it.raise_(ValueError, "dictionary update sequence element has wrong length")
                ck = conc_key(kv[0])
                d.entries[ck] = DEntry(ck, kv[1])
        elif isinstance(src, (VInt, VNone, VBool)):
            it.raise_(TypeError, "object is not iterable")
        else:
            raise OutOfSubset(f"dict({src!r})")
    for k, v in kw.items():
        d.entries[k] = DEntry(k, v)
    return d


@handler("range")
def _range(it, self, args, kw):
    vals = []
    from . import plain
    args = [plain.resolve(it, a) if isinstance(a, plain.VPlain) else a for a in args]
    for a in args:
        if isinstance(a, VBool):
            a = it.to_int(a)
        if not isinstance(a, VInt):
            it.raise_(TypeError, "object cannot be interpreted as an integer")
        if a.conc is None:
            from . import elementwise
            return elementwise.symbolic_range(it, args)
        vals.append(a.conc)
    r = range(*vals)
    if len(r) > 4096:
        raise OutOfSubset("range too long to unroll")
    return VList([VInt(i) for i in r])


@handler("enumerate")
def _enumerate(it, self, args, kw):
    items = it.iterate(args[0])
    start = argn(args, kw, 1, "start", VInt(0)).conc
    return VList([VTuple([VInt(i + start), x]) for i, x in enumerate(items)])


@handler("zip")
def _zip(it, self, args, kw):
    cols = [it.iterate(a) for a in args]
    return VList([VTuple(list(t)) for t in zip(*cols)])


@handler("sorted")
def _sorted(it, self, args, kw):
    """sorted() of a list whose elements are concrete (names, integers): the Python order; symbolic elements are outside the subset."""
    items = it.iterate(args[0])
    if kw.get("key") is not None:
        raise OutOfSubset("sorted(key=...)")
    keys = []
    for x in items:
        k = conc_key(x)
        if k is None or isinstance(k, V):
            raise OutOfSubset("sorted() of symbolic elements")
        keys.append(k)
    try:
        order = sorted(range(len(items)), key=lambda i: keys[i])
    except TypeError:
        it.raise_(TypeError, "'<' not supported between instances")
    rev = kw.get("reverse")
    if rev is not None and rev.conc:
        order.reverse()
    return VList([items[i] for i in order])


@handler("reversed")
def _reversed(it, self, args, kw):
    return VList(list(reversed(it.iterate(args[0]))))


@handler("all", "any")
def _all_any(it, self, args, kw):
    raise OutOfSubset("all/any handled by caller")  # replaced below


def _pure_fold(it, v, is_all):
    parts = []
    for x in it.iterate(v):
        t = it.truth(x)
        if isinstance(t, bool):
            if t != is_all:
                return VBool(t)
            continue
        parts.append(t)
    if not parts:
        return VBool(is_all)
    return VBool(z3.And(*parts) if is_all else z3.Or(*parts))


def _all(it, self, args, kw):
    v = args[0]
    if isinstance(v, VBool):  # produced by a symbolic comprehension (elementwise rule)
        return v
    if it.pure:
        return _pure_fold(it, v, True)
    for x in it.iterate(v):
        if not it.test(x):
            return VBool(False)
    return VBool(True)


def _any(it, self, args, kw):
    v = args[0]
    if isinstance(v, VBool):
        return v
    if it.pure:
        return _pure_fold(it, v, False)
    for x in it.iterate(v):
        if it.test(x):
            return VBool(True)
    return VBool(False)


HANDLERS["all"] = _all
HANDLERS["any"] = _any


@handler("min", "max")
def _minmax(it, self, args, kw):
    raise OutOfSubset("min/max")


@handler("sum")
def _sum(it, self, args, kw):
    acc = VInt(0)
    for x in it.iterate(args[0]):
        acc = it.binop(ast.Add(), acc, x)
    return acc


@handler("print")
def _print(it, self, args, kw):
    it.trace.append(("print",))
    return NONE


@handler("open")
def _open(it, self, args, kw):
    return _s().open_file(it, args, kw)


@handler("hasattr")
def _hasattr(it, self, args, kw):
    obj, name = args
    if name.conc is None:
        raise OutOfSubset("hasattr with symbolic name")
    if isinstance(obj, VOpaque):
        from . import plain
        return VBool(plain.hasattr_(it, obj, name.conc))
    if isinstance(obj, VBuiltin):
        return VBool(z3.Bool(it.fresh_name(f"hasattr_{name.conc}")))
    try:
        it.getattr_(obj, name.conc)
        return VBool(True)
    except PyRaise as e:
        if issubclass(e.exc.cls, AttributeError):
            return VBool(False)
        raise


@handler("getattr")
def _getattr(it, self, args, kw):
    obj, name = args[0], args[1]
    if name.conc is None:
        if isinstance(obj, VClass) and obj.info is not None and obj.info.is_enum:
            # getattr(EnumClass, <symbolic str>): table lookup over members; every other attribute name of an Enum class
            # is assumed to end in AttributeError or a non-member (listed assumption, B-checked)
            for m in it.iterate(obj):
                if it.branch(name.e == z3.StringVal(m.name)):
                    return m
            it.assumptions_used.add("getattr(Enum class, name): names other than member names raise AttributeError or give objects whose `.value` raises AttributeError")
            it.raise_(AttributeError, "enum attribute")
        raise OutOfSubset("getattr with symbolic name")
    try:
        return it.getattr_(obj, name.conc)
    except PyRaise as e:
        if len(args) > 2 and issubclass(e.exc.cls, AttributeError):
            return args[2]
        raise


@handler("setattr")
def _setattr(it, self, args, kw):
    obj, name, val = args
    if name.conc is None:
        raise OutOfSubset("setattr with symbolic name")
    it.setattr_(obj, name.conc, val)
    return NONE


@handler("super")
def _super(it, self, args, kw):
    raise OutOfSubset("super() handled in interp")


@handler("callable")
def _callable(it, self, args, kw):
    return VBool(isinstance(args[0], (VFunc, VBuiltin, VClass)))


@handler("typing.cast", "cast")
def _cast(it, self, args, kw):
    return args[1]


@handler("functools.update_wrapper", "update_wrapper")
def _update_wrapper(it, self, args, kw):
    # the one consequence that matters here: the wrapper class takes over __name__ of the wrapped class
    a, b = args[0], args[1]
    if isinstance(a, VClass) and isinstance(b, VClass) and a.info is not None and b.info is not None:
        a.info.name = b.info.name
    return args[0]


@handler("id", "hash")
def _id(it, self, args, kw):
    it.frame_violations.append("use of id()/hash() (nondeterministic across processes)")
    return it.fresh_int("id")


# ---------------------------------------------------------------------------------------------
# bytes / str / int methods
# ---------------------------------------------------------------------------------------------
@handler("bytes.hex")
def _bytes_hex(it, self, args, kw):
    return _s().hex_of(it, self)


@handler("bytes.ljust", "bytes.rjust")
def _bytes_just(it, self, args, kw, _left=None):
    """b.ljust(width, fill) / b.rjust(width, fill): padded with the (concrete, one-byte) fill up to `width`; unchanged when already that long."""
    width = args[0]
    fill = args[1] if len(args) > 1 else VBytes(b" ")
    if not isinstance(width, VInt) or not isinstance(fill, VBytes) or fill.conc is None or len(fill.conc) != 1:
        raise OutOfSubset("bytes.ljust/rjust with a symbolic fill or a non-int width")
    s = _s()
    pad = s.rep_bytes(it, fill.conc[0], VInt(width.e - z3.Length(self.e)) if (width.conc is None or self.conc is None) else VInt(width.conc - len(self.conc)))
    name = getattr(it, "_cur_builtin_name", "")
    return s.concat_bytes(self, pad) if not name.endswith("rjust") else s.concat_bytes(pad, self)


@handler("bytes.strip", "bytes.lstrip", "bytes.rstrip")
def _bytes_strip(it, self, args, kw):
    """b.strip(): concrete when b is; otherwise an uninterpreted function with the laws `no longer than b` and
    `identity on a string that neither starts nor ends with ASCII whitespace` (default argument only)."""
    if self.conc is not None and not args:
        return VBytes(self.conc.strip())
    if args:
        raise OutOfSubset("bytes.strip(chars)")
    F = z3.Function("BYTES_STRIP", BSort, BSort)
    t = F(self.e)
    n = z3.Length(self.e)
    ws = lambda x: z3.Or(x == 32, z3.And(x >= 9, x <= 13))
    it.assume(z3.Length(t) <= n)
    it.assume(z3.Implies(z3.Or(n == 0, z3.And(z3.Not(ws(self.e[0])), z3.Not(ws(self.e[n - 1])))), t == self.e))
    it.assume(z3.Implies(z3.And(n > 0, z3.Or(ws(self.e[0]), ws(self.e[n - 1]))), z3.Length(t) < n))
    return VBytes(t)


@handler("str.lstrip", "str.rstrip")
def _str_lrstrip(it, self, args, kw):
    if self.conc is not None and all(a.conc is not None for a in args):
        return VStr(self.conc.strip(*[a.conc for a in args]))  # over-approximated by the two-sided strip below when symbolic
    F = z3.Function("STR_LRSTRIP", S, S)
    t = F(self.e)
    it.assume(z3.Length(t) <= z3.Length(self.e))
    return VStr(t)


@handler("bytes.fromhex")
def _bytes_fromhex(it, self, args, kw):
    v = args[0]
    if not isinstance(v, VStr):
        it.raise_(TypeError, "fromhex() argument must be str")
    return _s().unhex_of(it, v, exc="fromhex")


@handler("binascii.a2b_hex", "binascii.unhexlify", "a2b_hex")
def _a2b_hex(it, self, args, kw):
    v = args[0]
    if isinstance(v, VStr):
        return _s().unhex_of(it, v)
    if isinstance(v, VBytes):
        raise OutOfSubset("a2b_hex on bytes")
    it.raise_(TypeError, "argument should be bytes, buffer or ASCII string")


@handler("bytes.ljust")
def _bytes_ljust(it, self, args, kw):
    s = _s()
    width = args[0]
    fill = args[1] if len(args) > 1 else VBytes(b" ")
    if not isinstance(width, VInt):
        it.raise_(TypeError, "ljust width")
    if not isinstance(fill, VBytes) or fill.conc is None or len(fill.conc) != 1:
        raise OutOfSubset("ljust fill")
    n = s.bytes_len(self)
    if self.conc is not None and width.conc is not None:
        return VBytes(self.conc.ljust(width.conc, fill.conc))
    count = VInt(width.e - n.e)
    return s.concat_bytes(self, s.rep_bytes(it, fill.conc[0], count))


@handler("bytes.decode")
def _bytes_decode(it, self, args, kw):
    s = _s()
    if self.conc is not None:
        try:
            return VStr(self.conc.decode(*[a.conc for a in args]))
        except UnicodeDecodeError:
            it.raise_(UnicodeDecodeError_(), "invalid utf-8")
    VALID = z3.Function("UTF8_VALID", BSort, B_)
    if not it.branch(VALID(self.e)):
        it.raise_(UnicodeDecodeError_(), "invalid utf-8")
    t = s.UTF8DEC(self.e)
    it.assume(z3.Length(t) <= z3.Length(self.e))
    it.assume(z3.Implies(z3.Length(self.e) > 0, z3.Length(t) > 0))
    it.assume(s.UTF8(t) == self.e)
    return VStr(t)


def UnicodeDecodeError_():
    # VExc construction needs only the class; args are not modelled
    return UnicodeDecodeError


@handler("bytes.find")
def _bytes_find(it, self, args, kw):
    sub = args[0]
    if not isinstance(sub, VBytes):
        it.raise_(TypeError, "argument should be integer or bytes-like object")
    if self.conc is not None and sub.conc is not None:
        return VInt(self.conc.find(sub.conc))
    # r is SOME occurrence (or -1): a superset of what find returns (the first one), which is sound for universal postconditions
    # and keeps str.indexof (first-occurrence minimality) away from the solver.
    n, m = z3.Length(self.e), z3.Length(sub.e)
    it.assumptions_used.add("bytes.find: the result is SOME occurrence of the pattern or -1 (a superset of the first occurrence; -1 only excluded by a proved occurrence); a bytes object is shorter than 2**63")
    r = z3.Int(it.fresh_name("find"))
    it.assume(z3.Or(r == -1, z3.And(r >= 0, r + m <= n, z3.Extract(self.e, r, m) == sub.e)))
    it.assume(z3.And(r >= -1, r <= n, n < 2 ** 63))  # a CPython bytes object is shorter than sys.maxsize
    # consequences of the occurrence, spelled out per part of the pattern (Extract(x, r, m) == p1 ++ .. ++ pk with m the total length
    # gives Extract(x, r + o_i, |p_i|) == p_i)
    parts = []
    for pt in _s()._flatten_concat(z3.simplify(sub.e)):  # consecutive single bytes form one constant part
        unit = z3.is_app(pt) and pt.decl().kind() == z3.Z3_OP_SEQ_UNIT
        if unit and parts and parts[-1][0]:
            parts[-1][1].append(pt)
        else:
            parts.append((unit, [pt]))
    parts = [_s()._cat_terms(g) for _, g in parts]
    local, offs = [], []
    if 1 < len(parts) <= 12:
        off = z3.IntVal(0)
        for pt in parts:
            f = z3.Implies(r >= 0, z3.And(r + off + z3.Length(pt) <= n, z3.Extract(self.e, r + off, z3.Length(pt)) == pt))
            it.assume(f)
            local.append(f)
            offs.append((off, pt))
            kl = it.known_lens.get(pt.sexpr())
            off = z3.simplify(off + (z3.IntVal(kl) if kl is not None else z3.Length(pt)))
    # an occurrence that can be PROVED at a syntactic position p excludes -1 (find returns the first occurrence, which is <= p)
    p = _syntactic_occurrence(it, self.e, sub.e)
    if p is not None:
        it.assume(z3.And(r >= 0, r <= p))
        it.find_facts = getattr(it, "find_facts", [])
        it.find_facts.append((self.e, r, offs, local + [r >= 0]))
    return VInt(r)


def _syntactic_occurrence(it, hay, needle):
    """A position p with PROVED Extract(hay, p, |needle|) == needle, found by lining up the parts of both concatenations."""
    from . import smt
    hp, npz = _s()._flatten_concat(z3.simplify(hay)), _s()._flatten_concat(z3.simplify(needle))
    if not npz or len(hp) < len(npz):
        return None

    def const(e):
        return e.as_string() if z3.is_string_value(e) else None
    cands = []
    for j in range(len(hp)):
        # the needle's non-constant parts must coincide with consecutive parts of the haystack starting at j (first part may be a constant suffix)
        first = const(npz[0])
        rest = npz[1:] if first is not None else npz
        start = j + 1 if first is not None else j
        if first is not None and const(hp[j]) is None:
            continue
        ok = True
        for k, pt in enumerate(rest):
            if start + k >= len(hp):
                ok = False
                break
            a, b = hp[start + k], pt
            if z3.eq(a, b):
                continue
            if k == len(rest) - 1 and const(a) is not None and const(b) is not None:
                continue  # last part: a constant prefix (checked by the proof below)
            ok = False
            break
        if ok and rest:
            before = z3.Sum([z3.Length(x) for x in hp[:j]]) if j else z3.IntVal(0)
            if first is not None:
                cands.append(z3.simplify(before + z3.Length(hp[j]) - z3.Length(npz[0])))
            else:
                cands.append(z3.simplify(before))
    for p in cands[:4]:
        goal = z3.And(p >= 0, z3.Extract(hay, p, z3.Length(needle)) == needle)
        res = smt.prove(list(it.facts) + list(it.pc), goal, timeout_ms=8000)
        if res["status"] == "unsat":
            return p
    return None


@handler("bytes.startswith")
def _bytes_startswith(it, self, args, kw):
    p = args[0]
    if self.conc is not None and p.conc is not None:
        return VBool(self.conc.startswith(p.conc))
    return VBool(z3.PrefixOf(p.e, self.e))


@handler("int.to_bytes")
def _int_to_bytes(it, self, args, kw):
    length = argn(args, kw, 0, "length", VInt(1))
    order = argn(args, kw, 1, "byteorder", VStr("big"))
    signed = argn(args, kw, 2, "signed", VBool(False))
    if order.conc not in ("big", "little"):
        it.raise_(ValueError, "byteorder must be either 'little' or 'big'")
    v = it.to_int(self)
    return _s().int_to_bytes(it, v, length, order.conc, signed=bool(signed.conc))


@handler("int.bit_length")
def _int_bit_length(it, self, args, kw):
    if self.conc is not None:
        return VInt(self.conc.bit_length())
    BL = z3.Function("BIT_LENGTH", I, I)
    t = BL(self.e)
    key = ("bit_length", self.e.sexpr())
    if key not in it.euclid:
        it.euclid[key] = True
        it.assume(t >= 0)
        it.assume(z3.Implies(self.e == 0, t == 0))
        # exact definition on the range the value provably lies in (2**(t-1) <= |x| < 2**t is nonlinear in general):
        # a chain of linear facts, one per bit position, up to 640 bits (covers every key size and every 64-bit quantity)
        if it.must(z3.And(self.e >= 0, self.e < 2 ** 640)):
            for k in range(1, 641):
                it.assume(z3.Implies(z3.And(self.e >= 2 ** (k - 1), self.e < 2 ** k), t == k))
        else:
            it.assumptions_used.add("int.bit_length on a value not proved to be in [0, 2**640): only `>= 0` and `0 for 0` are known")
    return VInt(t)


@handler("str.encode")
def _str_encode(it, self, args, kw):
    return _s().utf8_of(it, self)


@handler("str.upper")
def _str_upper(it, self, args, kw):
    return _s().upper_of(it, self)


@handler("str.lower")
def _str_lower(it, self, args, kw):
    if self.conc is not None:
        return VStr(self.conc.lower())
    LOWER = z3.Function("LOWER", S, S)
    t = LOWER(self.e)
    it.assume(z3.Length(t) == z3.Length(self.e))
    return VStr(t)


@handler("str.startswith")
def _str_startswith(it, self, args, kw):
    p = args[0]
    if isinstance(p, VTuple):
        raise OutOfSubset("startswith(tuple)")
    if not isinstance(p, VStr):
        it.raise_(TypeError, "startswith first arg must be str")
    if self.conc is not None and p.conc is not None:
        return VBool(self.conc.startswith(p.conc))
    return VBool(z3.PrefixOf(p.e, self.e))


@handler("str.endswith")
def _str_endswith(it, self, args, kw):
    p = args[0]
    if not isinstance(p, VStr):
        it.raise_(TypeError, "endswith first arg must be str")
    if self.conc is not None and p.conc is not None:
        return VBool(self.conc.endswith(p.conc))
    return VBool(z3.SuffixOf(p.e, self.e))


@handler("str.replace")
def _str_replace(it, self, args, kw):
    a, b = args[0], args[1]
    if self.conc is not None and a.conc is not None and b.conc is not None:
        return VStr(self.conc.replace(a.conc, b.conc))
    if a.conc is not None and b.conc is not None and len(a.conc) == 1 and len(b.conc) == 1:
        R = z3.Function(f"REPLACE_{ord(a.conc)}_{ord(b.conc)}", S, S)
        t = R(self.e)
        it.assume(z3.Length(t) == z3.Length(self.e))
        return VStr(t)
    if all(isinstance(x, VStr) for x in (self, a, b)):
        # general case: an uninterpreted function of the three strings (nothing but "it is a str" is known about the result)
        R3 = z3.Function("STR_REPLACE", S, S, S, S)
        return VStr(R3(self.e, a.e, b.e))
    it.raise_(TypeError, "replace() argument must be str")


@handler("str.split")
def _str_split(it, self, args, kw):
    sep = argn(args, kw, 0, "sep")
    if self.conc is not None and (sep is None or sep.conc is not None):
        return VList([VStr(x) for x in self.conc.split(*( [sep.conc] if sep is not None else []))])
    if sep is None or sep.conc is None:
        raise OutOfSubset("str.split without a concrete separator")
    SPLIT = z3.Function(f"SPLIT_{'_'.join(str(ord(c)) for c in sep.conc)}", S, z3.SeqSort(S))
    t = SPLIT(self.e)
    it.assume(z3.Length(t) >= 1)
    return VSeq("str", t)


@handler("str.join")
def _str_join(it, self, args, kw):
    s = _s()
    items = it.iterate(args[0])
    out = VStr("")
    for i, x in enumerate(items):
        if not isinstance(x, VStr):
            it.raise_(TypeError, "sequence item: expected str instance")
        if i:
            out = s.concat_str(out, self)
        out = s.concat_str(out, x)
    return out


@handler("str.strip")
def _str_strip(it, self, args, kw):
    if self.conc is not None:
        return VStr(self.conc.strip(*[a.conc for a in args]))
    STRIP = z3.Function("STRIP", S, S)
    return VStr(STRIP(self.e))


def _str_pred(name, regex_builder, nonempty=True):
    def h(it, self, args, kw):
        if self.conc is not None:
            return VBool(getattr(self.conc, name)())
        it.assumptions_used.add(f"str.{name}: modelled on ASCII (Unicode categories outside the model)")
        return VBool(z3.InRe(self.e, regex_builder()))
    HANDLERS["str." + name] = h


_str_pred("isnumeric", lambda: z3.Plus(z3.Range("0", "9")))
_str_pred("isdecimal", lambda: z3.Plus(z3.Range("0", "9")))
_str_pred("isdigit", lambda: z3.Plus(z3.Range("0", "9")))
_str_pred("isalpha", lambda: z3.Plus(z3.Union(z3.Range("a", "z"), z3.Range("A", "Z"))))


@handler("str.format")
def _str_format(it, self, args, kw):
    return it.fresh_str("format")


# ---------------------------------------------------------------------------------------------
# list / dict / seq methods
# ---------------------------------------------------------------------------------------------
@handler("list.append")
def _list_append(it, self, args, kw):
    _s().mark_global_write(it, self, "list")
    self.items.append(args[0])
    return NONE


@handler("list.extend")
def _list_extend(it, self, args, kw):
    _s().mark_global_write(it, self, "list")
    self.items.extend(it.iterate(args[0]))
    return NONE


@handler("list.insert")
def _list_insert(it, self, args, kw):
    _s().mark_global_write(it, self, "list")
    self.items.insert(args[0].conc, args[1])
    return NONE


@handler("list.reverse")
def _list_reverse(it, self, args, kw):
    self.items.reverse()
    return NONE


@handler("list.count", "tuple.count")
def _list_count(it, self, args, kw):
    acc = VInt(0)
    for y in self.items:
        c = it.compare(ast.Eq(), y, args[0])
        acc = it.binop(ast.Add(), acc, it.to_int(c))
    return acc


@handler("list.copy")
def _list_copy(it, self, args, kw):
    return VList(self.items)


@handler("list.pop")
def _list_pop(it, self, args, kw):
    _s().mark_global_write(it, self, "list")
    if not self.items:
        it.raise_(IndexError, "pop from empty list")
    i = args[0].conc if args else -1
    return self.items.pop(i)


@handler("list.remove")
def _list_remove(it, self, args, kw):
    _s().mark_global_write(it, self, "list")
    x = args[0]
    for i, y in enumerate(self.items):
        if it.test(it.compare(ast.Eq(), y, x)):
            del self.items[i]
            return NONE
    it.raise_(ValueError, "list.remove(x): x not in list")


@handler("list.index", "tuple.index")
def _list_index(it, self, args, kw):
    x = args[0]
    for i, y in enumerate(self.items):
        if it.test(it.compare(ast.Eq(), y, x)):
            return VInt(i)
    it.raise_(ValueError, "x not in list")


@handler("seq.append")
def _seq_append(it, self, args, kw):
    x = args[0]
    if self.kind == "str" and not isinstance(x, VStr) or self.kind == "int" and not isinstance(x, VInt):
        raise OutOfSubset("append of a differently typed element to a homogeneous symbolic list")
    self.e = z3.Concat(self.e, z3.Unit(x.e))
    return NONE


@handler("dict.keys")
def _dict_keys(it, self, args, kw):
    from .interp import mk_key
    if any(e.present is not True for e in self.entries.values()) and not self.open_:
        # a VIEW: membership is decided for the one key asked for; the keys are materialised (one path per subset) only on iteration
        return VLib("dict_keys", dict=self)
    return VList([mk_key(k) for k in it.dict_keys(self)])


@handler("dict.values")
def _dict_values(it, self, args, kw):
    return VList([self.entries[k].value for k in it.dict_keys(self)])


@handler("dict.items")
def _dict_items(it, self, args, kw):
    from .interp import mk_key
    return VList([VTuple([mk_key(k), self.entries[k].value]) for k in it.dict_keys(self)])


@handler("dict.get")
def _dict_get(it, self, args, kw):
    s = _s()
    default = args[1] if len(args) > 1 else NONE
    e = s.dict_find(it, self, args[0])
    if e is not None and e != "opaque":
        return e.value
    return default


@handler("dict.pop")
def _dict_pop(it, self, args, kw):
    s = _s()
    if self.frozen:
        it.raise_(AttributeError, "'cbor2.frozendict' object has no attribute 'pop'")
    s.mark_global_write(it, self, "dict")
    e = s.dict_find(it, self, args[0])
    if e is not None and e != "opaque":
        for k, ee in list(self.entries.items()):
            if ee is e:
                del self.entries[k]
        return e.value
    if len(args) > 1:
        return args[1]
    it.raise_(KeyError, "pop")


@handler("dict.update")
def _dict_update(it, self, args, kw):
    s = _s()
    if self.frozen:
        it.raise_(AttributeError, "'cbor2.frozendict' object has no attribute 'update'")
    s.mark_global_write(it, self, "dict")
    src = args[0]
    if isinstance(src, VOpaque):
        from . import plain
        return plain.dict_update(it, self, src)
    if not isinstance(src, VDict):
        if isinstance(src, (VInt, VNone, VBool)):
            it.raise_(TypeError, "object is not iterable")
        raise OutOfSubset("dict.update from non-dict")
    for k in it.dict_keys(src):
        from .interp import mk_key
        s.setitem(it, self, mk_key(k), src.entries[k].value)
    return NONE


@handler("dict.copy")
def _dict_copy(it, self, args, kw):
    d = VDict()
    for k in it.dict_keys(self):
        d.entries[k] = DEntry(k, self.entries[k].value)
    return d


@handler("dict.__setitem__")
def _dict_setitem(it, self, args, kw):
    _s().setitem(it, self, args[0], args[1])
    return NONE


# ---------------------------------------------------------------------------------------------
# math
# ---------------------------------------------------------------------------------------------
@handler("math.ceil")
def _ceil(it, self, args, kw):
    v = args[0]
    if isinstance(v, VInt):
        return v
    if isinstance(v, VLib) and v.kind == "truediv":
        a, b = v.f["a"], v.f["b"]
        s = _s()
        if a.conc is not None and b.conc is not None:
            import math
            if b.conc == 0:
                it.raise_(ZeroDivisionError, "division by zero")
            return VInt(math.ceil(a.conc / b.conc))
        if it.branch(b.e == 0):
            it.raise_(ZeroDivisionError, "division by zero")
        if not it.branch(b.e > 0):
            raise OutOfSubset("math.ceil(a / b) with possibly negative b")
        # exactness of float division: requires 0 <= a < 2**53 (lemma L-float); otherwise out of the model
        if True:
            it.assumptions_used.add("L-float: math.ceil(a / b) equals exact ceiling division (a, b below 2**53; validated natively on boundary values)")
        q, r = s.euclid(it, a, b)
        return VInt(q.e + z3.If(r.e > 0, 1, 0))
    raise OutOfSubset(f"math.ceil({v!r})")


# ---------------------------------------------------------------------------------------------
# cbor2
# ---------------------------------------------------------------------------------------------
def _cbor_enc_options(it, kw):
    """Keyword options of cbor2.dump(s): `canonical` is modelled (map keys sorted by encoded length, then bytewise); any other option is out of reach."""
    extra = set(kw) - {"canonical"}
    if extra:
        raise OutOfSubset(f"cbor2.dump(s) with option(s) {sorted(extra)}")
    c = kw.get("canonical")
    if c is None:
        return False
    return it.test(c)


@handler("cbor2.dumps")
def _cbor_dumps(it, self, args, kw):
    from . import cbor
    _s().note(it, "cbor2.dumps")
    return cbor.enc(it, args[0], canonical=_cbor_enc_options(it, kw))


@handler("cbor2.CBORTag")
def _cbor_tag(it, self, args, kw):
    return VTag(args[0], args[1])


@handler("cbor2.loads")
def _cbor_loads(it, self, args, kw):
    from . import cbor
    _s().note(it, "cbor2.loads")
    return cbor.loads(it, args[0])


@handler("cbor2.load")
def _cbor_load(it, self, args, kw):
    from . import cbor
    fh = args[0]
    data = _s().file_method(it, fh, "read", [], {})
    _s().note(it, "cbor2.load")
    return cbor.loads(it, data)


@handler("cbor2.dump")
def _cbor_dump(it, self, args, kw):
    from . import cbor
    _s().note(it, "cbor2.dump")
    data = cbor.enc(it, args[0], canonical=_cbor_enc_options(it, kw))
    _s().file_method(it, args[1], "write", [data], {})
    return NONE


# ---------------------------------------------------------------------------------------------
# struct
# ---------------------------------------------------------------------------------------------
_STRUCT_CODES = {"B": 1, "H": 2, "I": 4, "L": 4, "Q": 8}


def _parse_fmt(it, fmt: VStr):
    if fmt.conc is None:
        raise OutOfSubset("struct with symbolic format")
    f = fmt.conc
    order = "big" if f[:1] in (">", "!") else "little" if f[:1] == "<" else None
    if order is None:
        raise OutOfSubset("struct native byte order")
    codes = []
    for c in f[1:]:
        if c not in _STRUCT_CODES:
            raise OutOfSubset(f"struct code {c}")
        codes.append(_STRUCT_CODES[c])
    return order, codes


@handler("struct.Struct")
def _struct_Struct(it, self, args, kw):
    _s().note(it, "struct.Struct")
    return VLib("Struct", fmt=args[0])


def struct_pack(it, fmt, values):
    import struct
    s = _s()
    order, codes = _parse_fmt(it, fmt)
    if len(values) != len(codes):
        it.raise_(struct.error, f"pack expected {len(codes)} items for packing (got {len(values)})")
    out = VBytes(b"")
    for v, n in zip(values, codes):
        if isinstance(v, VBool):
            v = it.to_int(v)
        if not isinstance(v, VInt):
            it.raise_(struct.error, "required argument is not an integer")
        if v.conc is not None:
            if not 0 <= v.conc < 256 ** n:
                it.raise_(struct.error, "argument out of range")
        elif not it.branch(z3.And(v.e >= 0, v.e < 256 ** n)):
            it.raise_(struct.error, "argument out of range")
        bs = s.byte_decomp(it, v, n, order)
        if order == "little":
            bs = list(reversed(bs))
        out = s.concat_bytes(out, s.bytes_from_ints(bs))
    return out


def struct_unpack(it, fmt, data: VBytes):
    import struct
    s = _s()
    order, codes = _parse_fmt(it, fmt)
    total = sum(codes)
    if not isinstance(data, VBytes):
        it.raise_(TypeError, "a bytes-like object is required")
    n = s.bytes_len(data)
    if n.conc is not None:
        if n.conc != total:
            it.raise_(struct.error, f"unpack requires a buffer of {total} bytes")
    elif not it.branch(n.e == total):
        it.raise_(struct.error, f"unpack requires a buffer of {total} bytes")
    out, off = [], 0
    for c in codes:
        bs = [it.index_bytes(data, VInt(off + i)) for i in range(c)]
        if order == "little":
            bs = list(reversed(bs))
        val = VInt(0)
        for b in bs:
            val = it.binop(ast.Add(), it.binop(ast.Mult(), val, VInt(256)), b)
        out.append(val)
        off += c
    return VTuple(out)


@handler("struct.pack")
def _struct_pack(it, self, args, kw):
    return struct_pack(it, args[0], args[1:])


@handler("struct.unpack")
def _struct_unpack(it, self, args, kw):
    return struct_unpack(it, args[0], args[1])


# ---------------------------------------------------------------------------------------------
# hashing / uuid / os
# ---------------------------------------------------------------------------------------------
_HASH_ALGS = {"SHA256": ("sha256", 32), "SHA384": ("sha384", 48), "SHA512": ("sha512", 64), "SHA224": ("sha224", 28),
              "SHA1": ("sha1", 20)}


def _hash_alg_handler(cls_name):
    def h(it, self, args, kw):
        if cls_name in _HASH_ALGS:
            n, size = _HASH_ALGS[cls_name]
            return VLib("HashAlg", name=n, digest_size=size)
        # SHAKE128(n) / SHAKE256(n)
        size = args[0]
        if size.conc is None:
            raise OutOfSubset("SHAKE with symbolic digest size")
        return VLib("HashAlg", name=cls_name.lower(), digest_size=size.conc)
    return h


for _n in list(_HASH_ALGS) + ["SHAKE128", "SHAKE256"]:
    HANDLERS["hashes." + _n] = _hash_alg_handler(_n)


@handler("hashes.Hash")
def _hash_ctx(it, self, args, kw):
    alg = args[0]
    if not (isinstance(alg, VLib) and alg.kind == "HashAlg"):
        it.raise_(TypeError, "Expected instance of hashes.HashAlgorithm.")
    return VLib("HashCtx", alg=alg, data=VBytes(b""), finalized=False)


@handler("default_backend")
def _default_backend(it, self, args, kw):
    return VLib("backend")


@handler("uuid.uuid5")
def _uuid5(it, self, args, kw):
    s = _s()
    ns, name = args
    if not (isinstance(ns, VLib) and ns.kind == "UUID"):
        it.raise_(AttributeError, "namespace has no attribute 'bytes'")
    s.note(it, "uuid.uuid5")
    if isinstance(name, (VStr, VBytes)) and name.conc is not None and ns.f["bytes"].conc is not None:
        from contracts.specs_native import UUID5 as _u5
        return VLib("UUID", bytes=VBytes(_u5(ns.f["bytes"].conc, name.conc)))
    if isinstance(name, VStr):
        t = s.UUID5(ns.f["bytes"].e, name.e)
    elif isinstance(name, VBytes):
        t = s.UUID5B(ns.f["bytes"].e, name.e)
    else:
        it.raise_(TypeError, "uuid5 name must be str or bytes")
    it.assume(z3.Length(t) == 16)
    return VLib("UUID", bytes=VBytes(t))


@handler("uuid.uuid4")
def _uuid4(it, self, args, kw):
    b = it.fresh_bytes("uuid4", 16)
    it.trace.append(("nondet", "uuid4", b))
    return VLib("UUID", bytes=b, random=True)


@handler("os.urandom")
def _urandom(it, self, args, kw):
    n = args[0]
    b = it.fresh_bytes("urandom", n)
    it.urandom_draws.append(b)
    it.trace.append(("nondet", "urandom", b))
    _s().note(it, "os.urandom")
    return b


@handler("secrets.token_bytes")
def _token_bytes(it, self, args, kw):
    """secrets.token_bytes(n) IS os.urandom(n) (CPython: SystemRandom): a fresh draw."""
    return _urandom(it, self, [args[0] if args else VInt(32)], kw)


@handler("random.randbytes", "random.Random.randbytes")
def _randbytes(it, self, args, kw):
    """random.randbytes(n): the next output of the process-global Mersenne Twister - a DETERMINISTIC function of ambient state that any
    code in the process can reseed or replay.  It is NOT a fresh draw: the bytes are arbitrary but are not recorded as os.urandom draws,
    so a clause that demands a fresh nonce cannot be discharged from it."""
    b = it.fresh_bytes("prng_bytes", args[0])
    it.trace.append(("nondet", "prng", b))
    _s().note(it, "random (process-global PRNG, not a fresh source)")
    return b


@handler("random.getrandbits", "random.randrange", "random.randint", "secrets.randbits")
def _rand_int(it, self, args, kw):
    name = getattr(it, "_cur_builtin_name", "")
    x = it.fresh_int("prng_int")
    if name.endswith("randbits"):
        k = args[0]
        if k.conc is None:
            raise OutOfSubset("randbits with a symbolic width")
        it.assume(z3.And(x.e >= 0, x.e < 2 ** k.conc))
    elif name.endswith("randint"):
        it.assume(z3.And(x.e >= args[0].e, x.e <= args[1].e))
    else:
        lo, hi = (VInt(0), args[0]) if len(args) == 1 else (args[0], args[1])
        it.assume(z3.And(x.e >= lo.e, x.e < hi.e))
    it.trace.append(("nondet", "prng-int" if name.startswith("random") else "urandom-int", x))
    _s().note(it, name)
    return x


@handler("os.path.getsize", "getsize")
def _getsize(it, self, args, kw):
    s = _s()
    pt = s.path_term(it, args[0])
    if not it.branch(it.fs.exists(pt)):
        it.raise_(FileNotFoundError, "No such file or directory")
    s.note(it, "os.path.getsize")
    return VInt(z3.Length(it.fs.read_bin(pt)))


@handler("os.path.join")
def _os_path_join(it, self, args, kw):
    s = _s()
    out = args[0]
    if isinstance(out, VLib) and out.kind == "Path":
        out = out.f["s"]
    s.note(it, "os.path.join modelled as a + '/' + b (relative second component)")
    for a in args[1:]:
        if isinstance(a, VLib) and a.kind == "Path":
            a = a.f["s"]
        if not isinstance(out, VStr) or not isinstance(a, VStr):
            it.raise_(TypeError, "expected str, bytes or os.PathLike object")
        out = s.concat_str(s.concat_str(out, VStr("/")), a)
    return out


@handler("pathlib.Path", "Path")
def _Path(it, self, args, kw):
    v = args[0]
    if isinstance(v, VLib) and v.kind == "Path":
        return v
    if isinstance(v, VOpaque):
        from . import plain
        v = plain.resolve(it, v)  # a decoded (JSON / CBOR) value: one kind per path
    if not isinstance(v, VStr):
        it.raise_(TypeError, "expected str, bytes or os.PathLike object")
    return VLib("Path", s=v)


@handler("pathlib.Path.is_file", "Path.is_file")
def _Path_is_file_unbound(it, self, args, kw):
    return VBool(_s().fs_exists(it, args[0]))


# ---------------------------------------------------------------------------------------------
# library object attribute / method models
# ---------------------------------------------------------------------------------------------
def lib_getattr(it, obj: VLib, name: str):
    s = _s()
    k = obj.kind
    if k in ("RelMap", "KeySet"):
        from . import relmap
        return relmap.method(it, obj, name)
    if k == "ModuleSpec" and name == "loader":
        return VLib("Loader", spec=obj)
    if k == "Loader" and name == "exec_module":
        return VBuiltin("Loader.exec_module", self_obj=obj)
    if k == "Module":
        if not obj.f["executed"]:
            it.raise_(AttributeError, "module has not been executed")
        pt = _s().path_term(it, obj.f["spec"].f["path"])
        if not it.branch(MODULE_DEFINES(pt, z3.StringVal(name))):
            it.raise_(AttributeError, f"module has no attribute {name}")
        return VBuiltin("Module.factory", self_obj=VLib("ModuleFn", module=obj, name=name))
    if k == "UUID":
        if name == "bytes":
            return obj.f["bytes"]
        if name == "hex":
            return s.hex_of(it, obj.f["bytes"])
    if k == "HashAlg":
        if name == "digest_size":
            return VInt(obj.f["digest_size"])
        if name == "name":
            return VStr(obj.f["name"])
    if k == "Path":
        if name in ("is_file", "exists", "is_dir", "with_suffix", "absolute", "resolve"):
            return VBuiltin("Path." + name, self_obj=obj)
        if name in ("name", "suffix", "parent", "parents"):
            F = z3.Function("PATH_" + name.upper(), S, S)
            r = VStr(F(obj.f["s"].e))
            return r if name in ("name", "suffix") else VLib("Path", s=r)
    if k == "Match":
        return VBuiltin("Match." + name, self_obj=obj)
    if k == "PrivateKey" and name == "key_size":
        if obj.f["ktype"] != "ec":
            it.raise_(AttributeError, "'Ed25519PrivateKey' object has no attribute 'key_size'")
        return obj.f["key_size"]
    if k == "Logger":
        return VBuiltin(f"Logger.{name}", self_obj=obj)
    if k in ("File", "Struct", "HashCtx", "IntelHex", "AESGCM", "PrivateKey", "PublicKey", "environ", "Pattern", "ConfigParser", "EddsaSigner"):
        return VBuiltin(f"{k}.{name}", self_obj=obj)
    if k == "PublicNumbers":
        if name in ("x", "y"):
            return obj.f[name]
        if name == "curve":
            return VLib("Curve", key_size=obj.f["key_size"])
    if k == "Curve" and name == "key_size":
        return obj.f["key_size"]
    raise OutOfSubset(f"attribute {name} of library object {k}")


def lib_getitem(it, obj, key):
    if obj.kind == "sys.modules":
        # whatever an earlier request registered under that name: an EXECUTED module loaded from SOME path (not necessarily this request's script)
        it.trace.append(("sys.modules-reuse", key))
        sp = VLib("ModuleSpec", name=key, path=it.fresh_str("path_of_module_loaded_earlier"))
        return VLib("Module", spec=sp, executed=True)
    if obj.kind == "RelMap":
        from . import relmap
        return relmap.getitem(it, obj, key)
    raise OutOfSubset(f"subscript of library object {obj.kind}")


def lib_setitem(it, obj, key, val):
    if obj.kind == "sys.modules":
        it.trace.append(("sys.modules-store", key, val))
        return
    if obj.kind == "RelMap":
        from . import relmap
        return relmap.setitem(it, obj, key, val)
    raise OutOfSubset(f"item store on library object {obj.kind}")


# ---------------------------------------------------------------------------------------------
# importlib plug-in loading (ASSUMED semantics of importlib; what the loaded file contains stays the caller's assumption)
#   spec_from_file_location(name, path) -> spec of THAT file; module_from_spec(spec) -> a fresh, not yet executed module object;
#   sys.modules[name] = module registers it (recorded; process-wide registry of plug-in modules, whitelisted by C18); spec.loader.exec_module(module)
#   executes the file once.  What the executed file defines is unknown: hasattr(module, n) is an uninterpreted function of (file path, n); calling a
#   factory it defines yields an opaque object that is an instance of the shipped class iff the file is the shipped script (per-contract assumption).
# ---------------------------------------------------------------------------------------------
MODULE_DEFINES = z3.Function("MODULE_DEFINES", S, S, B_)


@handler("importlib.util.spec_from_file_location")
def _spec_from_file(it, self, args, kw):
    name, path = argn(args, kw, 0, "name"), argn(args, kw, 1, "location")
    sp = VLib("ModuleSpec", name=name, path=path)
    it.trace.append(("import-spec", name, path, sp))
    _s().note(it, "importlib.util.spec_from_file_location")
    return sp


@handler("importlib.util.module_from_spec")
def _module_from_spec(it, self, args, kw):
    sp = args[0]
    if not (isinstance(sp, VLib) and sp.kind == "ModuleSpec"):
        raise OutOfSubset("module_from_spec of something that is not a spec made here")
    return VLib("Module", spec=sp, executed=False)


@handler("Loader.exec_module")
def _exec_module(it, self, args, kw):
    m = args[0]
    if not (isinstance(m, VLib) and m.kind == "Module") or m.f["spec"] is not self.f["spec"]:
        raise OutOfSubset("exec_module of a module that does not belong to this spec")
    pt = _s().path_term(it, m.f["spec"].f["path"])
    if not it.branch(it.fs.exists(pt)):
        it.raise_(FileNotFoundError, "plug-in script not found")
    m.f["executed"] = True
    it.trace.append(("import-exec", m.f["spec"].f["path"], m))
    return NONE


@handler("Module.factory")
def _module_factory(it, self, args, kw):
    m, fname = self.f["module"], self.f["name"]
    it.trace.append(("plugin-factory", fname, m))
    hook = getattr(it, "plugin_factory_result", None)
    if hook is None:
        raise OutOfSubset("call of a function defined by a dynamically loaded module")
    return hook(it, m, fname)


@handler("RelMap.keys")
def _relmap_keys(it, self, args, kw):
    from . import relmap
    return relmap.relmap_keys(it, self, args, kw)


@handler("RelMap.pop")
def _relmap_pop(it, self, args, kw):
    from . import relmap
    return relmap.relmap_pop(it, self, args, kw)


@handler("KeySet.remove")
def _keyset_remove(it, self, args, kw):
    from . import relmap
    return relmap.keyset_remove(it, self, args, kw)


@handler("File.read")
def _file_read(it, self, args, kw):
    return _s().file_method(it, self, "read", args, kw)


@handler("File.write")
def _file_write(it, self, args, kw):
    return _s().file_method(it, self, "write", args, kw)


@handler("File.readlines")
def _file_readlines(it, self, args, kw):
    return _s().file_method(it, self, "readlines", args, kw)


@handler("File.close")
def _file_close(it, self, args, kw):
    return NONE


@handler("Struct.pack")
def _Struct_pack(it, self, args, kw):
    return struct_pack(it, self.f["fmt"], args)


@handler("HashCtx.update")
def _hash_update(it, self, args, kw):
    if not isinstance(args[0], VBytes):
        it.raise_(TypeError, "data must be bytes-like")
    self.f["data"] = _s().concat_bytes(self.f["data"], args[0])
    return NONE


@handler("HashCtx.finalize")
def _hash_finalize(it, self, args, kw):
    alg = self.f["alg"]
    return _s().hash_term(it, alg.f["name"], alg.f["digest_size"], self.f["data"])


@handler("Path.is_file", "Path.exists")
def _Path_is_file(it, self, args, kw):
    return VBool(_s().fs_exists(it, self))


@handler("Path.is_dir")
def _Path_is_dir(it, self, args, kw):
    ISDIR = z3.Function("IS_DIR", S, B_)
    return VBool(ISDIR(self.f["s"].e))


@handler("Path.with_suffix")
def _Path_with_suffix(it, self, args, kw):
    """p.with_suffix(s): the LAST suffix of the final component is replaced - p == stem ++ old with old == "" or old == "." ++ rest (rest non-empty, without
    "." or "/", the "." not the first character of the component); result == stem ++ s.  Over-approximation: `old == ""` is always allowed (sound for universal
    postconditions); for a path whose final component contains no "." it is forced, so the result is exactly p ++ s."""
    p = self.f["s"]
    if p.conc is not None and isinstance(args[0], VStr) and args[0].conc is not None:
        import pathlib
        return VLib("Path", s=VStr(str(pathlib.PurePosixPath(p.conc).with_suffix(args[0].conc))))
    _s().note(it, "Path.with_suffix (replaces the last suffix of the final component)")
    stem, old = it.fresh_str("stem"), it.fresh_str("old_suffix")
    rest = z3.SubString(old.e, 1, z3.Length(old.e) - 1)
    it.assume(p.e == z3.Concat(stem.e, old.e))
    it.assume(z3.Or(old.e == z3.StringVal(""),
                    z3.And(z3.PrefixOf(z3.StringVal("."), old.e), z3.Length(old.e) >= 2, z3.Not(z3.Contains(rest, z3.StringVal("."))), z3.Not(z3.Contains(rest, z3.StringVal("/"))),
                           z3.Length(stem.e) >= 1, z3.Not(z3.SuffixOf(z3.StringVal("/"), stem.e)))))
    return VLib("Path", s=_s().concat_str(stem, args[0]))


# ---------------------------------------------------------------------------------------------
# AES-GCM
# ---------------------------------------------------------------------------------------------
@handler("AESGCM")
def _AESGCM(it, self, args, kw):
    key = args[0]
    if not isinstance(key, VBytes):
        it.raise_(TypeError, "key must be bytes-like")
    KEYOK = z3.Function("AES_KEY_LEN_OK", I, B_)
    ln = _s().bytes_len(key)
    if ln.conc is not None:
        if ln.conc not in (16, 24, 32):
            it.raise_(ValueError, "AESGCM key must be 128, 192, or 256 bits.")
    elif not it.branch(z3.Or(ln.e == 16, ln.e == 24, ln.e == 32)):
        it.raise_(ValueError, "AESGCM key must be 128, 192, or 256 bits.")
    return VLib("AESGCM", key=key)


@handler("AESGCM.encrypt")
def _AESGCM_encrypt(it, self, args, kw):
    s = _s()
    nonce, pt, aad = args
    for x in (nonce, pt):
        if not isinstance(x, VBytes):
            it.raise_(TypeError, "must be bytes-like")
    if isinstance(aad, VNone):
        aad = VBytes(b"")
    nl = s.bytes_len(nonce)
    if not it.branch(z3.And(nl.e >= 8, nl.e <= 128)):
        it.raise_(ValueError, "Nonce must be between 8 and 128 bytes")
    t = s.AESGCM_ENC(self.f["key"].e, nonce.e, pt.e, aad.e)
    it.assume(z3.Length(t) == z3.Length(pt.e) + 16)
    it.trace.append(("aesgcm-encrypt", self.f["key"], nonce, pt, aad))
    s.note(it, "AESGCM.encrypt")
    return VBytes(t)


# ---------------------------------------------------------------------------------------------
# IntelHex (abstract partial map addr -> byte, state is a term of sort Val)
# ---------------------------------------------------------------------------------------------
def _hexfns():
    from .stubs import ValSort
    return dict(
        EMPTY=z3.Const("HEX_EMPTY", ValSort),
        PUT=z3.Function("HEX_PUT", ValSort, I, BSort, ValSort),  # frombytes(bytes, offset): later writes win
        MERGE=z3.Function("HEX_MERGE", ValSort, ValSort, ValSort),  # union of disjoint maps
        OVERLAP=z3.Function("HEX_OVERLAP", ValSort, ValSort, B_),
        FILE=z3.Function("HEX_FILE", BSort, ValSort),  # partial map stored in a .hex file with that content
        ISHEXFILE=z3.Function("HEX_FILE_OK", BSort, B_),
        MIN=z3.Function("HEX_MINADDR", ValSort, I),
        MAX=z3.Function("HEX_MAXADDR", ValSort, I),
        ISEMPTY=z3.Function("HEX_ISEMPTY", ValSort, B_),
        TOBIN=z3.Function("HEX_TOBIN", ValSort, I, I, I, BSort),  # state, start, end(inclusive), padding
        TEXT=z3.Function("HEX_TEXT", ValSort, BSort),  # file content written by write_hex_file
    )


@handler("intelhex.IntelHex", "IntelHex")
def _IntelHex(it, self, args, kw):
    from .stubs import ValSort
    s = _s()
    H = _hexfns()
    s.note(it, "intelhex.IntelHex")
    if not args:
        return VLib("IntelHex", state=VOpaque(H["EMPTY"], "hexmap"), padding=VInt(0xFF))
    src = args[0]
    content = s.fs_read(it, src, binary=True)
    if not it.branch(H["ISHEXFILE"](content.e)):
        it.raise_(_intelhex_error(), "not a valid hex file")
    return VLib("IntelHex", state=VOpaque(H["FILE"](content.e), "hexmap"), padding=VInt(0xFF))


def _intelhex_error():
    import intelhex
    return intelhex.HexRecordError


@handler("IntelHex.frombytes")
def _ih_frombytes(it, self, args, kw):
    H = _hexfns()
    data = args[0]
    off = argn(args, kw, 1, "offset", VInt(0))
    if not isinstance(data, VBytes):
        raise OutOfSubset("IntelHex.frombytes of non-bytes")
    if not isinstance(off, VInt):
        it.raise_(TypeError, "offset must be int")
    self.f["state"] = VOpaque(H["PUT"](self.f["state"].e, off.e, data.e), "hexmap")
    return NONE


@handler("IntelHex.merge")
def _ih_merge(it, self, args, kw):
    import intelhex
    H = _hexfns()
    other = args[0]
    if not (isinstance(other, VLib) and other.kind == "IntelHex"):
        it.raise_(TypeError, "other should be IntelHex object")
    if other is self:
        it.raise_(ValueError, "Can't merge itself")
    a, b = self.f["state"].e, other.f["state"].e
    # merging into / from an empty map never overlaps (law IH-empty, validated)
    if not (z3.eq(a, H["EMPTY"]) or z3.eq(b, H["EMPTY"])):
        f = _overlap_formula(H, a, b)
        if not z3.eq(f, H["OVERLAP"](a, b)):
            # instance of the structural laws, so that clauses written with the plain predicate see the same fact
            it.assume(H["OVERLAP"](a, b) == f)
        if it.branch(f):
            it.raise_(intelhex.AddressOverlapError, "Data overlapped")
    if z3.eq(a, H["EMPTY"]):
        self.f["state"] = VOpaque(b, "hexmap")
    elif z3.eq(b, H["EMPTY"]):
        pass
    else:
        self.f["state"] = VOpaque(H["MERGE"](a, b), "hexmap")
    return NONE


def _overlap_formula(H, a, b, depth=0):
    """Structural laws of the partial-map model (validated differentially):
         overlap(put(empty, x, d), put(empty, y, e))  <=>  x < y + |e| and y < x + |d| and |d|, |e| > 0
         overlap(merge(s, t), u) <=> overlap(s, u) or overlap(t, u)      (and symmetrically)
       anything else stays the uninterpreted predicate."""
    def single_put(t):
        return z3.is_app(t) and t.decl().name() == "HEX_PUT" and z3.eq(t.arg(0), H["EMPTY"])
    def merged(t):
        return z3.is_app(t) and t.decl().name() == "HEX_MERGE"
    if depth < 24:
        if merged(a):
            return z3.Or(_overlap_formula(H, a.arg(0), b, depth + 1), _overlap_formula(H, a.arg(1), b, depth + 1))
        if merged(b):
            return z3.Or(_overlap_formula(H, a, b.arg(0), depth + 1), _overlap_formula(H, a, b.arg(1), depth + 1))
        if single_put(a) and single_put(b):
            x, d, y, e = a.arg(1), a.arg(2), b.arg(1), b.arg(2)
            return z3.And(x < y + z3.Length(e), y < x + z3.Length(d), z3.Length(d) > 0, z3.Length(e) > 0)
    return H["OVERLAP"](a, b)


@handler("IntelHex.minaddr")
def _ih_min(it, self, args, kw):
    H = _hexfns()
    st = self.f["state"].e
    if it.branch(H["ISEMPTY"](st)):
        return NONE
    return VInt(H["MIN"](st))


@handler("IntelHex.maxaddr")
def _ih_max(it, self, args, kw):
    H = _hexfns()
    st = self.f["state"].e
    if it.branch(H["ISEMPTY"](st)):
        return NONE
    t = H["MAX"](st)
    it.assume(t >= H["MIN"](st))
    return VInt(t)


@handler("IntelHex.tobinstr")
def _ih_tobinstr(it, self, args, kw):
    H = _hexfns()
    start = argn(args, kw, 0, "start")
    end = argn(args, kw, 1, "end")
    if start is None or end is None or "size" in kw or "pad" in kw:
        raise OutOfSubset("tobinstr without explicit start/end")
    pad = self.f["padding"]
    if not it.branch(start.e <= end.e):
        raise OutOfSubset("tobinstr with start > end (intelhex swaps them)")
    t = H["TOBIN"](self.f["state"].e, start.e, end.e, pad.e)
    it.assume(z3.Length(t) == end.e - start.e + 1)
    return VBytes(t)


@handler("IntelHex.write_hex_file")
def _ih_write(it, self, args, kw):
    s = _s()
    H = _hexfns()
    p = args[0]
    pt = s.path_term(it, p)
    dir_ok = z3.Bool(it.fresh_name("dir_exists"))
    if not it.branch(dir_ok):
        it.raise_(FileNotFoundError, "No such file or directory (parent)")
    content = H["TEXT"](self.f["state"].e)
    it.assume(H["ISHEXFILE"](content))
    it.assume(H["FILE"](content) == self.f["state"].e)
    s.fs_write(it, p, VBytes(content), binary=True)
    it.trace.append(("write_hex", pt, self.f["state"]))
    return NONE


@handler("intelhex.bin2hex", "bin2hex")
def _bin2hex(it, self, args, kw):
    s = _s()
    H = _hexfns()
    fin, fout = argn(args, kw, 0, "fin"), argn(args, kw, 1, "fout")
    off = argn(args, kw, 2, "offset", VInt(0))
    s.note(it, "intelhex.bin2hex")
    pin = s.path_term(it, fin)
    if not it.branch(it.fs.exists(pin)):
        it.trace.append(("print",))
        return VInt(1)
    data = s.fs_read(it, fin, binary=True)
    dir_ok = z3.Bool(it.fresh_name("dir_exists"))
    if not it.branch(dir_ok):
        return VInt(1)
    st = H["PUT"](H["EMPTY"], off.e, data.e)
    content = H["TEXT"](st)
    it.assume(H["ISHEXFILE"](content))
    it.assume(H["FILE"](content) == st)
    s.fs_write(it, fout, VBytes(content), binary=True)
    it.trace.append(("write_hex", s.path_term(it, fout), VOpaque(st, "hexmap")))
    return VInt(0)


# ---------------------------------------------------------------------------------------------
# os.environ
# ---------------------------------------------------------------------------------------------
@handler("environ.get")
def _environ_get(it, self, args, kw):
    name = args[0]
    ENV = z3.Function("ENVIRON", S, S)
    HAS = z3.Function("ENVIRON_HAS", S, B_)
    it.trace.append(("read-env", name))
    if it.branch(HAS(name.e)):
        return VStr(ENV(name.e))
    return args[1] if len(args) > 1 else NONE


# ---------------------------------------------------------------------------------------------
# spec builtins usable in contract clauses (native bindings: contracts/specs_native.py)
# ---------------------------------------------------------------------------------------------
@handler("spec.HASH")
def _spec_hash(it, self, args, kw):
    name, size, data = args
    return _s().hash_term(it, name.conc.lower().replace("-", ""), size.conc, data)


@handler("spec.UUID5")
def _spec_uuid5(it, self, args, kw):
    s = _s()
    ns, name = args
    if ns.conc is not None and name.conc is not None:
        from contracts.specs_native import UUID5 as _u5
        return VBytes(_u5(ns.conc, name.conc))
    t = s.UUID5(ns.e, name.e) if isinstance(name, VStr) else s.UUID5B(ns.e, name.e)
    it.assume(z3.Length(t) == 16)
    return VBytes(t)


@handler("spec.HEX")
def _spec_hex(it, self, args, kw):
    return _s().hex_of(it, args[0])


@handler("spec.ENC")
def _spec_enc(it, self, args, kw):
    from . import cbor
    return cbor.enc(it, args[0])


@handler("spec.utf8")
def _spec_utf8(it, self, args, kw):
    return _s().utf8_of(it, args[0])


@handler("spec.TAG")
def _spec_tag(it, self, args, kw):
    return VTag(args[0], args[1])


@handler("spec.FILE")
def _spec_file(it, self, args, kw):
    """Current content of a file in the ghost file system (bytes)."""
    return VBytes(it.fs.read_bin(_s().path_term(it, args[0])))


@handler("spec.TEXTFILE")
def _spec_textfile(it, self, args, kw):
    return VStr(it.fs.read_txt(_s().path_term(it, args[0])))


@handler("spec.EXISTS")
def _spec_exists(it, self, args, kw):
    return VBool(it.fs.exists(_s().path_term(it, args[0])))


# hex-map spec builtins (abstract partial maps address -> byte; native: dicts built with bounded/hexread.py)
@handler("spec.HEXMAP")
def _spec_hexmap(it, self, args, kw):
    return VOpaque(_hexfns()["FILE"](args[0].e), "hexmap")


@handler("spec.HEX_FILE_OK")
def _spec_hexfileok(it, self, args, kw):
    return VBool(_hexfns()["ISHEXFILE"](args[0].e))


@handler("spec.HEX_EMPTY")
def _spec_hexempty(it, self, args, kw):
    return VOpaque(_hexfns()["EMPTY"], "hexmap")


@handler("spec.HEX_PUT")
def _spec_hexput(it, self, args, kw):
    return VOpaque(_hexfns()["PUT"](args[0].e, args[1].e, args[2].e), "hexmap")


@handler("spec.HEX_MERGE")
def _spec_hexmerge(it, self, args, kw):
    H = _hexfns()
    a, b = args[0].e, args[1].e
    if z3.eq(a, H["EMPTY"]):
        return VOpaque(b, "hexmap")
    if z3.eq(b, H["EMPTY"]):
        return VOpaque(a, "hexmap")
    return VOpaque(H["MERGE"](a, b), "hexmap")


@handler("spec.HEX_TOBIN")
def _spec_hextobin(it, self, args, kw):
    t = _hexfns()["TOBIN"](args[0].e, args[1].e, args[2].e, args[3].e)
    it.assume(z3.Length(t) == z3.If(args[2].e - args[1].e + 1 > 0, args[2].e - args[1].e + 1, 0))
    return VBytes(t)


@handler("spec.HEX_MIN")
def _spec_hexmin(it, self, args, kw):
    return VInt(_hexfns()["MIN"](args[0].e))


@handler("spec.HEX_MAX")
def _spec_hexmax(it, self, args, kw):
    return VInt(_hexfns()["MAX"](args[0].e))


@handler("spec.HEX_OVERLAP")
def _spec_hexoverlap(it, self, args, kw):
    H = _hexfns()
    a, b = args[0].e, args[1].e
    if z3.eq(a, H["EMPTY"]) or z3.eq(b, H["EMPTY"]):
        return VBool(False)
    return VBool(H["OVERLAP"](a, b))


@handler("spec.HEX_ISEMPTY")
def _spec_hexisempty(it, self, args, kw):
    H = _hexfns()
    if z3.eq(args[0].e, H["EMPTY"]):
        return VBool(True)
    return VBool(H["ISEMPTY"](args[0].e))


def version_grammar_re():
    """N(.N)*[-(alpha|beta|rc)[.N]]"""
    d = z3.Plus(z3.Range("0", "9"))
    label = z3.Union(z3.Re("alpha"), z3.Re("beta"), z3.Re("rc"))
    return z3.Concat(d, z3.Star(z3.Concat(z3.Re("."), d)), z3.Option(z3.Concat(z3.Re("-"), label, z3.Option(z3.Concat(z3.Re("."), d)))))


@handler("spec.in_version_grammar")
def _spec_in_version_grammar(it, self, args, kw):
    s = args[0]
    if s.conc is not None:
        import re
        return VBool(re.fullmatch(r"[0-9]+(\.[0-9]+)*(-(alpha|beta|rc)(\.[0-9]+)?)?", s.conc) is not None)
    return VBool(z3.InRe(s.e, version_grammar_re()))


@handler("spec.AESGCM_ENC")
def _spec_aesgcm(it, self, args, kw):
    s = _s()
    key, nonce, pt, aad = args
    t = s.AESGCM_ENC(key.e, nonce.e, pt.e, aad.e)
    it.assume(z3.Length(t) == z3.Length(pt.e) + 16)
    return VBytes(t)


@handler("spec.KEYS_DIR")
def _spec_keys_dir(it, self, args, kw):
    """Directory in which the file-based KMS looks for keys, as a function of the context string (parse_context is assumed)."""
    ctxv = args[0]
    F = z3.Function("KEYS_DIR", S, S)
    if isinstance(ctxv, VNone):
        return VStr(z3.Const("KEYS_DIR_DEFAULT", S))
    return VStr(F(ctxv.e))


@handler("spec.pathstr")
def _spec_pathstr(it, self, args, kw):
    p = args[0]
    return p.f["s"] if isinstance(p, VLib) and p.kind == "Path" else p


@handler("spec.UNHEX")
def _spec_unhex(it, self, args, kw):
    s = _s()
    x = args[0]
    if x.conc is not None:
        return VBytes(bytes.fromhex(x.conc))
    t = s.UNHEX(x.e)
    it.assume(z3.Implies(s.ISHEX(x.e), 2 * z3.Length(t) == z3.Length(x.e)))
    return VBytes(t)


# ---------------------------------------------------------------------------------------------
# asymmetric keys / signatures (ASSUMED: cryptography + pycryptodome) — C04, C09, C15
# ---------------------------------------------------------------------------------------------
KEY_OK = z3.Function("PRIVATE_KEY_DATA_OK", BSort, B_)
ECDSA_R = z3.Function("ECDSA_R", BSort, I, BSort, I)  # key data, key size, message -> r
ECDSA_S = z3.Function("ECDSA_S", BSort, I, BSort, I)
EDDSA_SIG = z3.Function("EDDSA_SIG", BSort, S, BSort, BSort)  # key data, variant, message -> signature
KEY_KINDS = [("ec", 256), ("ec", 384), ("ec", 521), ("ed25519", 256), ("ed448", 456)]


def _load_private_key(it, data, fmt):
    """load_pem/der_private_key: ValueError on malformed data; otherwise one of the five supported key kinds (case split)."""
    if not isinstance(data, VBytes):
        it.raise_(TypeError, "data must be bytes-like")
    _s().note(it, f"cryptography load_{fmt}_private_key")
    if not it.branch(KEY_OK(data.e)):
        it.raise_(ValueError, "Could not deserialize key data")
    kind, size = KEY_KINDS[it.choose(len(KEY_KINDS), "keykind")]
    it.loaded_key_kinds = getattr(it, "loaded_key_kinds", []) + [(kind, size)]
    return VLib("PrivateKey", ktype=kind, key_size=VInt(size), data=data)


@handler("load_pem_private_key", "serialization.load_pem_private_key")
def _load_pem(it, self, args, kw):
    return _load_private_key(it, argn(args, kw, 0, "data"), "pem")


@handler("load_der_private_key", "serialization.load_der_private_key")
def _load_der(it, self, args, kw):
    return _load_private_key(it, argn(args, kw, 0, "data"), "der")


@handler("ec.ECDSA")
def _ecdsa(it, self, args, kw):
    return VLib("ECDSA", alg=args[0])


@handler("PrivateKey.sign")
def _pk_sign(it, self, args, kw):
    data = args[0]
    if not isinstance(data, VBytes):
        it.raise_(TypeError, "data must be bytes-like")
    it.trace.append(("crypto-sign", self.f["ktype"], self.f["key_size"].conc, data, self.f.get("data")))
    if self.f["ktype"] == "ec":
        if len(args) < 2:
            it.raise_(TypeError, "sign() missing signature_algorithm")
        return VLib("DSSSignature", key=self, data=data)
    variant = self.f["ktype"]
    t = EDDSA_SIG(self.f["data"].e, z3.StringVal(variant), data.e)
    n = 64 if variant == "ed25519" else 114
    it.assume(z3.Length(t) == n)
    it.known_lens[t.sexpr()] = n
    return VBytes(t)


@handler("decode_dss_signature")
def _decode_dss(it, self, args, kw):
    sig = args[0]
    if not (isinstance(sig, VLib) and sig.kind == "DSSSignature"):
        raise OutOfSubset("decode_dss_signature of unknown data")
    key = sig.f["key"]
    ks = key.f["key_size"].conc
    r = ECDSA_R(key.f["data"].e, z3.IntVal(ks), sig.f["data"].e)
    s_ = ECDSA_S(key.f["data"].e, z3.IntVal(ks), sig.f["data"].e)
    # 0 < r, s < n_curve < 2**key_size  (assumed contract of ECDSA)
    for x in (r, s_):
        it.assume(z3.And(x > 0, x < 2 ** ks))
    _s().note(it, "ECDSA sign / decode_dss_signature: 0 < r, s < 2**key_size")
    return VTuple([VInt(r), VInt(s_)])


@handler("SHA512.new")
def _sha512_new(it, self, args, kw):
    return VLib("PrehashedMessage", data=args[0] if args else VBytes(b""))


@handler("ECC.import_key")
def _ecc_import(it, self, args, kw):
    return VLib("EccKey", text=args[0])


@handler("eddsa.new")
def _eddsa_new(it, self, args, kw):
    return VLib("EddsaSigner", key=args[0], mode=args[1] if len(args) > 1 else kw.get("mode"))


@handler("EddsaSigner.sign")
def _eddsa_sign(it, self, args, kw):
    msg = args[0]
    if not (isinstance(msg, VLib) and msg.kind == "PrehashedMessage"):
        raise OutOfSubset("pycryptodome eddsa over a non-prehashed message")
    it.trace.append(("crypto-sign", "ed25519ph", 256, msg.f["data"]))
    key_text = self.f["key"].f["text"]
    kt = _s().utf8_of(it, key_text) if isinstance(key_text, VStr) else key_text
    t = EDDSA_SIG(kt.e, z3.StringVal("ed25519ph"), msg.f["data"].e)
    it.assume(z3.Length(t) == 64)
    it.known_lens[t.sexpr()] = 64
    return VBytes(t)


@handler("spec.ECDSA_R")
def _spec_ecdsa_r(it, self, args, kw):
    return VInt(ECDSA_R(args[0].e, args[1].e, args[2].e))


@handler("spec.ECDSA_S")
def _spec_ecdsa_s(it, self, args, kw):
    return VInt(ECDSA_S(args[0].e, args[1].e, args[2].e))


@handler("spec.EDDSA_SIG")
def _spec_eddsa(it, self, args, kw):
    k = args[0]
    if isinstance(k, VStr):
        k = _s().utf8_of(it, k)
    t = EDDSA_SIG(k.e, args[1].e, args[2].e)
    return VBytes(t)


@handler("spec.SIGN")
def _spec_sign(it, self, args, kw):
    """SIGN(key file content, algorithm name, message): the signature the file-based KMS returns (uninterpreted)."""
    F = z3.Function("KMS_SIGN", BSort, S, BSort, BSort)
    return VBytes(F(args[0].e, args[1].e, args[2].e))


@handler("spec.KEY_IS_EC")
def _spec_key_is_ec(it, self, args, kw):
    return VBool(args[0].f["ktype"] == "ec")


@handler("spec.KEY_SIZE")
def _spec_key_size(it, self, args, kw):
    return args[0].f["key_size"]


@handler("spec.KEY_KIND")
def _spec_key_kind(it, self, args, kw):
    return VStr(args[0].f["ktype"])


@handler("spec.KEY_DATA")
def _spec_key_data(it, self, args, kw):
    return args[0].f["data"]


@handler("json.dumps")
def _json_dumps(it, self, args, kw):
    """json.dumps: TypeError unless the value is JSON-shaped (str keys; no bytes, tags or library objects)."""
    v = args[0]
    from . import plain, shapes
    if _is_concrete(v):
        import json
        try:
            return VStr(json.dumps(_to_native(v)))
        except TypeError:
            it.raise_(TypeError, "Object is not JSON serializable")
        except Exception:
            pass
    if not shapes.conforms(it, v, shapes.JSON):
        # some value of this shape is not serialisable
        if it.branch(it.fresh_bool("json_dumps_type_error").e):
            it.raise_(TypeError, "Object is not JSON serializable")
    return it.fresh_str("dumped")


@handler("yaml.dump")
def _yaml_dump(it, self, args, kw):
    """Only used for messages; an unconstrained string unless the argument is concrete."""
    v = args[0]
    try:
        from .verify import concretize
        if _is_concrete(v):
            import json
            if self is None:
                pass
            return VStr(json.dumps(_to_native(v))) if True else None
    except Exception:
        pass
    return it.fresh_str("dumped")


def _is_concrete(v):
    if isinstance(v, (VInt, VStr, VBool, VBytes)):
        return v.conc is not None
    if isinstance(v, VNone):
        return True
    if isinstance(v, (VList, VTuple)):
        return all(_is_concrete(x) for x in v.items)
    if isinstance(v, VDict):
        return all(e.present is True and not isinstance(k, SymKey) and _is_concrete(e.value) for k, e in v.entries.items())
    return False


def _to_native(v):
    if isinstance(v, (VInt, VStr, VBool, VBytes)):
        return v.conc
    if isinstance(v, VNone):
        return None
    if isinstance(v, VList):
        return [_to_native(x) for x in v.items]
    if isinstance(v, VTuple):
        return tuple(_to_native(x) for x in v.items)
    if isinstance(v, VDict):
        return {k: _to_native(e.value) for k, e in v.entries.items()}
    raise OutOfSubset("native conversion")


@handler("json.load")
def _json_load(it, self, args, kw):
    """json.load(fh): JSONDecodeError, or SOME JSON-shaped value that is a function of the text of the file (the same text gives the same
    value within a path); the file it was read from is recorded in the trace."""
    from . import plain
    fh = args[0]
    txt = _s().file_method(it, fh, "read", [], {})
    _s().note(it, "json.load")
    if it.branch(it.fresh_bool("json_decode_error").e):
        it.raise_(_json_error(), "json")
    cache = it.__dict__.setdefault("json_load_cache", {})
    k = z3.simplify(txt.e).sexpr()
    if k not in cache:
        cache[k] = plain.fresh_json(it, it.fresh_name("json_load"))
    it.trace.append(("json.load", fh.f["path"], txt, cache[k]))
    return cache[k]


@handler("json.loads")
def _json_loads(it, self, args, kw):
    import json
    v = args[0]
    if isinstance(v, VStr) and v.conc is not None:
        try:
            return mk(json.loads(v.conc))
        except json.JSONDecodeError:
            it.raise_(json.JSONDecodeError_ if False else _json_error(), "json")
    if not isinstance(v, VStr):
        it.raise_(TypeError, "the JSON object must be str, bytes or bytearray")
    if isinstance(v, VStr):
        # a symbolic text: JSONDecodeError, or SOME JSON-shaped value that is a function of the text (the same text gives the same value on a path)
        from . import plain
        if it.branch(it.fresh_bool("json_decode_error").e):
            it.raise_(_json_error(), "json")
        cache = it.__dict__.setdefault("json_load_cache", {})
        k = z3.simplify(v.e).sexpr()
        if k not in cache:
            cache[k] = plain.fresh_json(it, it.fresh_name("json_loads"))
        it.trace.append(("json.loads", v, cache[k]))
        return cache[k]
    raise OutOfSubset("json.loads of a symbolic non-str")


def _json_error():
    import json
    return json.JSONDecodeError


# ---------------------------------------------------------------------------------------------
# key generation / serialisation (ASSUMED: cryptography) — C15
# ---------------------------------------------------------------------------------------------
PUB_X = z3.Function("PUBKEY_X", BSort, I)
PUB_Y = z3.Function("PUBKEY_Y", BSort, I)
PUB_RAW = z3.Function("PUBKEY_RAW", BSort, BSort)
PRIV_BYTES = z3.Function("PRIVATE_BYTES", BSort, S, BSort)  # key data, "<encoding>/<format>/<encryption>"
PUB_BYTES = z3.Function("PUBLIC_BYTES", BSort, S, BSort)
SERIAL_OK = z3.Function("SERIALIZATION_SUPPORTED", S, S, B_)  # key kind, "<encoding>/<format>..."
_CURVES = {"SECP256R1": 256, "SECP384R1": 384, "SECP521R1": 521}


def _curve_handler(name):
    def h(it, self, args, kw):
        return VLib("Curve", name=name, key_size=VInt(_CURVES[name]))
    return h


for _c in _CURVES:
    HANDLERS["ec." + _c] = _curve_handler(_c)


@handler("ec.generate_private_key")
def _ec_generate(it, self, args, kw):
    curve = args[0]
    _s().note(it, "ec.generate_private_key (requires an EllipticCurve INSTANCE)")
    if not (isinstance(curve, VLib) and curve.kind == "Curve"):
        it.raise_(TypeError, "curve must be an EllipticCurve instance")
    data = it.fresh_bytes("generated_key")
    it.trace.append(("nondet", "keygen", data))
    return VLib("PrivateKey", ktype="ec", key_size=curve.f["key_size"], data=data)


@handler("Ed25519PrivateKey.generate")
def _ed25519_generate(it, self, args, kw):
    data = it.fresh_bytes("generated_key")
    it.trace.append(("nondet", "keygen", data))
    return VLib("PrivateKey", ktype="ed25519", key_size=VInt(256), data=data)


@handler("Ed448PrivateKey.generate")
def _ed448_generate(it, self, args, kw):
    data = it.fresh_bytes("generated_key")
    it.trace.append(("nondet", "keygen", data))
    return VLib("PrivateKey", ktype="ed448", key_size=VInt(456), data=data)


@handler("PrivateKey.public_key")
def _pk_public(it, self, args, kw):
    return VLib("PublicKey", ktype=self.f["ktype"], key_size=self.f["key_size"], data=self.f["data"])


def _fmt_tag(args, kw):
    parts = []
    for a in list(args) + [kw[k] for k in sorted(kw)]:
        if isinstance(a, VBuiltin):
            parts.append(a.name.split(".")[-1])
        elif isinstance(a, VLib):
            parts.append(a.kind)
        else:
            parts.append(type(a).__name__)
    return "/".join(parts)


@handler("PrivateKey.private_bytes")
def _pk_private_bytes(it, self, args, kw):
    tag = _fmt_tag(args, kw)
    if not it.branch(SERIAL_OK(z3.StringVal(self.f["ktype"]), z3.StringVal("private/" + tag))):
        it.raise_(ValueError, "unsupported format combination")
    return VBytes(PRIV_BYTES(self.f["data"].e, z3.StringVal(tag)))


@handler("PublicKey.public_bytes")
def _pub_public_bytes(it, self, args, kw):
    tag = _fmt_tag(args, kw)
    if tag == "Raw/Raw":
        if self.f["ktype"] == "ec":
            it.raise_(ValueError, "Raw encoding is not supported for EC keys")
        t = PUB_RAW(self.f["data"].e)
        n = 32 if self.f["ktype"] == "ed25519" else 57
        it.assume(z3.Length(t) == n)
        it.known_lens[t.sexpr()] = n
        return VBytes(t)
    if not it.branch(SERIAL_OK(z3.StringVal(self.f["ktype"]), z3.StringVal("public/" + tag))):
        it.raise_(ValueError, "unsupported format combination")
    return VBytes(PUB_BYTES(self.f["data"].e, z3.StringVal(tag)))


@handler("PublicKey.public_numbers")
def _pub_numbers(it, self, args, kw):
    if self.f["ktype"] != "ec":
        it.raise_(AttributeError, "'Ed25519PublicKey' object has no attribute 'public_numbers'")
    ks = self.f["key_size"].conc
    x, y = PUB_X(self.f["data"].e), PUB_Y(self.f["data"].e)
    for v in (x, y):
        it.assume(z3.And(v >= 0, v < 2 ** ks))
    _s().note(it, "EllipticCurvePublicNumbers: 0 <= x, y < 2**key_size")
    return VLib("PublicNumbers", x=VInt(x), y=VInt(y), key_size=self.f["key_size"])


@handler("NoEncryption")
def _noenc(it, self, args, kw):
    return VLib("NoEncryption")


@handler("spec.PUB_X")
def _spec_pubx(it, self, args, kw):
    return VInt(PUB_X(args[0].e))


@handler("spec.PUB_Y")
def _spec_puby(it, self, args, kw):
    return VInt(PUB_Y(args[0].e))


@handler("spec.PUB_RAW")
def _spec_pubraw(it, self, args, kw):
    return VBytes(PUB_RAW(args[0].e))


@handler("spec.PRIV_BYTES")
def _spec_privbytes(it, self, args, kw):
    return VBytes(PRIV_BYTES(args[0].e, args[1].e))


@handler("spec.PUB_BYTES")
def _spec_pubbytes(it, self, args, kw):
    return VBytes(PUB_BYTES(args[0].e, args[1].e))


@handler("os.path.exists")
def _os_path_exists(it, self, args, kw):
    return VBool(_s().fs_exists(it, args[0]))
