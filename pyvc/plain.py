"""Opaque decoded-CBOR values (the `Plain` sum). Filled in for C17/C03; minimal until then."""
from __future__ import annotations
from .values import OutOfSubset


def _oos(what):
    raise OutOfSubset(f"opaque value: {what}")


def binop(it, op, a, b): _oos("binop")
def eq(it, a, b): _oos("eq")
def is_none(it, a): _oos("is None")
def order(it, op, a, b): _oos("order")
def in_dict(it, d, item): _oos("in dict")
def contains(it, c, item): _oos("contains")
def getitem(it, obj, key): _oos("getitem")
def getslice(it, obj, lo, hi): _oos("slice")
def setitem(it, obj, key, val): _oos("setitem")
def getattr_(it, obj, name): _oos(f"attribute {name}")
def iterate(it, v, unpack): _oos("iterate")
def isinstance_(it, v, T): _oos("isinstance")
def len_(it, v): _oos("len")
def to_int(it, v, base): _oos("int()")
def to_dict(it, v): _oos("dict()")
def hasattr_(it, v, name): _oos("hasattr")
def dict_update(it, d, src): _oos("dict.update")
def enc(it, v): _oos("enc")
def loads(it, data): _oos("cbor2.loads of bytes with no known origin")
def fresh(it, name): _oos("fresh")
def concretize(model, v): return "<opaque>"
