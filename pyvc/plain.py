"""Lazily refined values: the `Plain` sum of decoded CBOR (DESIGN.md 2.3), JSON-shaped values, symbolic-length
containers and abstract model instances.

A `VPlain` stands for an ARBITRARY value of a set of kinds; the set is narrowed only when the executed code inspects
the value (`isinstance`, `is None`, `hasattr`, `==` against a typed operand split it two ways; any other operation forces
one kind per path).  Containers of symbolic size (`VPList`, `VPMap`) hand out their elements lazily; iterating them is
only possible through the loop rule of the executor (invariant-based, interp.symbolic_for) — never by unrolling.
Everything here over-approximates: a value may be anything its kind set allows, so an exception that can escape for some
decoded input escapes on some explored path.
"""
from __future__ import annotations
import ast
import z3

from .values import V, VNone, NONE, VInt, VBool, VBytes, VStr, VFloat, VList, VTuple, VSeq, VDict, DEntry, VObj, \
    VClass, VEnum, VFunc, VBuiltin, VTag, VOpaque, VExc, VLib, PyRaise, OutOfSubset, mk, conc_key

KINDS = ("int", "bool", "bytes", "str", "none", "float", "list", "tuple", "dict", "frozendict", "tag", "other")
TOP_KINDS = tuple(k for k in KINDS if k not in ("tuple", "frozendict"))  # top level and inside mutable containers
TAG_KINDS = tuple(k for k in KINDS if k not in ("list", "dict"))  # cbor2 6: containers under a tag / as map keys are immutable
JSON_KINDS = ("int", "bool", "str", "none", "float", "list", "dict")
MAXLEN = 2 ** 63


def _oos(what):
    raise OutOfSubset(f"opaque value: {what}")


class Lazy(VOpaque):
    """Marker base of the values defined here."""


class VPlain(Lazy):
    def __init__(self, name, kinds=TOP_KINDS, domain="cbor"):
        self.e = None
        self.kind = "plain"
        self.name = name
        self.kinds = tuple(kinds)
        self.kinds0 = tuple(kinds)
        self.domain = domain  # 'cbor' | 'json'
        self.val = None

    def __repr__(self):
        return f"Plain<{self.name}:{'|'.join(self.kinds)}>" if self.val is None else f"Plain={self.val!r}"


class VAbs(Lazy):
    """A scalar-like value with no modelled content: 'float' or 'other' (datetime, Fraction, set, UUID, simple value ...)."""

    def __init__(self, kind, name):
        self.e = None
        self.kind = kind
        self.name = name

    def __repr__(self):
        return f"Abs<{self.kind}:{self.name}>"


class VPList(Lazy):
    """list / tuple of symbolic length; elements are produced on demand by elem_fn(it, hint) and cached per index term."""

    def __init__(self, it, name, elem_fn, is_tuple=False, shape=None, n=None):
        self.e = None
        self.kind = "plist"
        self.name = name
        self.elem_fn = elem_fn
        self.is_tuple = is_tuple
        self.shape = shape  # element shape (types.T) when the list is an abstraction of a model list
        self.n = n if n is not None else it.fresh_int(f"len_{name}", 0, MAXLEN)
        self.cache = {}

    def elem(self, it, idx: VInt):
        k = idx.conc if idx.conc is not None else idx.e.sexpr()
        if k not in self.cache:
            self.cache[k] = self.elem_fn(it, f"{self.name}[{k if isinstance(k, int) else '?'}]")
        return self.cache[k]

    def __repr__(self):
        return f"PList<{self.name}{' tuple' if self.is_tuple else ''}>"


class VPMap(Lazy):
    """dict / frozendict of symbolic size: key_fn(it, hint) gives an arbitrary key, val_fn(it, key, hint) the value under it."""

    def __init__(self, it, name, key_fn, val_fn, frozen=False, shape=None):
        self.e = None
        self.kind = "pmap"
        self.name = name
        self.key_fn, self.val_fn = key_fn, val_fn
        self.frozen = frozen
        self.shape = shape  # (key-shape, value-shape-fn) tag when the map abstracts a model dict
        self.n = it.fresh_int(f"size_{name}", 0, MAXLEN)
        self.cache = {}

    def present(self, it, key):
        """z3 Bool: is `key` in the mapping?  The same answer for the same key on one path."""
        k = _key_id(key)
        if k is None:
            return it.fresh_bool(f"in_{self.name}").e
        self.presence = getattr(self, "presence", {})
        if k not in self.presence:
            self.presence[k] = it.fresh_bool(f"in_{self.name}").e
        return self.presence[k]

    def value_at(self, it, key):
        k = _key_id(key)
        if k is None or k not in self.cache:
            v = self.val_fn(it, key, f"{self.name}[..]")
            if k is None:
                return v
            self.cache[k] = v
        return self.cache[k]

    def __repr__(self):
        return f"PMap<{self.name}{' frozen' if self.frozen else ''}>"


class VPIter(Lazy):
    """dict view of a VPMap: .items() / .keys() / .values()."""

    def __init__(self, m, what):
        self.e = None
        self.kind = "piter"
        self.m = m
        self.what = what


def _key_id(key):
    if isinstance(key, (VInt, VStr, VBytes, VBool)):
        return ("s", type(key).__name__, key.conc if key.conc is not None else key.e.sexpr())
    if isinstance(key, (VClass, VEnum, VObj)):
        return ("o", id(key) if not isinstance(key, VClass) else (id(key.info), id(key.py)))
    if isinstance(key, VNone):
        return ("n",)
    return None


# ------------------------------------------------------------------------------------------------ construction
def fresh(it, name, kinds=TOP_KINDS, domain="cbor"):
    return VPlain(name, kinds, domain)


def fresh_json(it, name):
    return VPlain(name, JSON_KINDS, "json")


def _child_kinds(parent_kind, domain):
    if domain == "json":
        return JSON_KINDS
    return TOP_KINDS if parent_kind in ("list", "dict") else TAG_KINDS


def make_kind(it, v: VPlain, k: str) -> V:
    n, dom = v.name, v.domain
    if k == "int":
        return it.fresh_int(n)
    if k == "bool":
        return it.fresh_bool(n)
    if k == "bytes":
        b = it.fresh_bytes(n)
        it.assume(z3.Length(b.e) < MAXLEN)
        return b
    if k == "str":
        s = it.fresh_str(n)
        it.assume(z3.Length(s.e) < MAXLEN)
        return s
    if k == "none":
        return NONE
    if k in ("float", "other"):
        a = VAbs(k, n)
        if k == "float":
            # enough of a float to compare it consistently with integers: f == k  <=>  f is integral and its integer value is k
            a.integral = it.fresh_bool(f"{n}_integral").e
            a.ival = it.fresh_int(f"{n}_ival").e
        return a
    if k in ("list", "tuple"):
        ck = _child_kinds(k, dom)
        r = VPList(it, n, lambda it_, hint: VPlain(hint, ck, dom), is_tuple=(k == "tuple"))
        r.child_kinds, r.domain = ck, dom
        return r
    if k in ("dict", "frozendict"):
        ck = _child_kinds(k, dom)
        kk = ("str",) if dom == "json" else tuple(x for x in TAG_KINDS)
        return VPMap(it, n, lambda it_, hint: VPlain(hint, kk, dom), lambda it_, key, hint: VPlain(hint, ck, dom), frozen=(k == "frozendict"))
    if k == "tag":
        t = it.fresh_int(f"{n}.tag", 0, 2 ** 64 - 1)
        return VTag(t, VPlain(f"{n}.value", TAG_KINDS, dom))
    raise OutOfSubset(f"plain kind {k}")


# RFC 8949: which decoded kinds a first byte of major type m can give (major 6 = tags: bignums are ints, many tags decode to library
# objects; major 7 = simple values and floats).  Used to tie the kind of a decoded value to the bytes it came from.
MAJORS = {"int": (0, 1, 6), "bool": (7,), "none": (7,), "float": (7,), "bytes": (2,), "str": (3,), "list": (4,), "tuple": (4,), "dict": (5,),
          "frozendict": (5,), "tag": (6,), "other": (6, 7)}


def _tie_to_source(it, v):
    src = getattr(v, "src", None)
    if src is None:
        return
    ms = sorted({m for k in v.kinds for m in MAJORS[k]})
    if len(ms) == 8:
        return
    first = src[0]
    it.assume(z3.Implies(z3.Length(src) >= 1, z3.Or(*[z3.And(first >= 32 * m, first < 32 * (m + 1)) for m in ms])))
    if set(v.kinds) <= {"bool", "none"}:
        it.assume(z3.Implies(z3.Length(src) >= 1, z3.Or(*([first == 0xF4, first == 0xF5] if "bool" in v.kinds else []) + ([first == 0xF6] if "none" in v.kinds else []))))


def split(it, v: VPlain, subset) -> bool:
    """Is v's kind in `subset`?  Narrows v; forks only if both answers are possible."""
    if v.val is not None:
        return v.kinds[0] in subset
    inn = tuple(k for k in v.kinds if k in subset)
    out = tuple(k for k in v.kinds if k not in subset)
    if not out:
        return True
    if not inn:
        return False
    b = z3.Bool(it.fresh_name(f"{v.name}_in_{'_'.join(inn)[:24]}"))
    if it.branch(b):
        v.kinds = inn
        _tie_to_source(it, v)
        if it.check_sat() == "unsat":
            from .interp import Infeasible
            raise Infeasible()
        return True
    v.kinds = out
    _tie_to_source(it, v)
    if it.check_sat() == "unsat":
        from .interp import Infeasible
        raise Infeasible()
    return False


def force(it, v: VPlain) -> V:
    if v.val is None:
        k = v.kinds[it.choose(len(v.kinds), f"{v.name}_kind")] if len(v.kinds) > 1 else v.kinds[0]
        v.kinds = (k,)
        _tie_to_source(it, v)
        v.val = make_kind(it, v, k)
    return v.val


def resolve(it, v):
    """A definite-kind value for v (forces a VPlain; everything else is returned unchanged)."""
    while isinstance(v, VPlain):
        v = force(it, v)
    return v


def resolve_key(it, k):
    return k


def singleton_map(it, key, val):
    """{key: val} with a lazy key."""
    key = _hashable(it, key)
    m = VPMap(it, it.fresh_name("singleton"), lambda it_, hint: key, lambda it_, k, hint: val)
    it.assume(m.n.e == 1)
    return m


def _is_lazy(v):
    return isinstance(v, Lazy)


_ISINSTANCE_KINDS = {"int": ("int", "bool"), "bool": ("bool",), "str": ("str",), "bytes": ("bytes",), "float": ("float",),
                     "dict": ("dict",), "list": ("list",), "tuple": ("tuple",), "CBORTag": ("tag",), "Mapping": ("dict", "frozendict"),
                     "bytearray": (), "NoneType": ("none",)}


# ------------------------------------------------------------------------------------------------ hooks
def isinstance_(it, v, T):
    from . import stubs_lib
    if isinstance(v, VPlain):
        if v.val is not None:
            return stubs_lib.isinstance_(it, v.val, T)
        if isinstance(T, VBuiltin):
            n = T.name.split(".")[-1]
            if n == "object":
                return True
            if n not in _ISINSTANCE_KINDS:
                raise OutOfSubset(f"isinstance of a decoded value against {T.name}")
            return split(it, v, _ISINSTANCE_KINDS[n])
        if isinstance(T, VClass):
            if T.py is dict:
                return split(it, v, ("dict",))
            return False  # a decoded CBOR value is never an instance of a repository class / exception class
        raise OutOfSubset(f"isinstance against {T!r}")
    n = T.name.split(".")[-1] if isinstance(T, VBuiltin) else (T.py.__name__ if isinstance(T, VClass) and T.py is not None else None)
    if n == "object":
        return True
    if isinstance(v, VPList):
        return n == ("tuple" if v.is_tuple else "list")
    if isinstance(v, VPMap):
        return (n == "dict" and not v.frozen) or n == "Mapping"
    if isinstance(v, VAbs):
        return n == "float" and v.kind == "float"
    if isinstance(v, VPIter):
        return False
    _oos("isinstance")


def is_none(it, a):
    if isinstance(a, VPlain):
        if a.val is not None:
            return isinstance(a.val, VNone)
        return split(it, a, ("none",))
    if isinstance(a, Lazy):
        return False
    _oos("is None")


def hasattr_(it, v, name):
    if isinstance(v, VPlain) and v.val is None and name in ("tag",):
        return split(it, v, ("tag",))
    v = resolve(it, v)
    if isinstance(v, Lazy):
        if isinstance(v, VPMap):
            return name in ("items", "keys", "values", "get")
        return False
    try:
        it.getattr_(v, name)
        return True
    except PyRaise as e:
        if issubclass(e.exc.cls, AttributeError):
            return False
        raise


_EQ_COMPAT = [(VBool, ("int", "bool", "float")), (VInt, ("int", "bool", "float")), (VStr, ("str",)), (VBytes, ("bytes",)), (VNone, ("none",)),
              (VTuple, ("tuple",)), (VList, ("list",)), (VDict, ("dict", "frozendict"))]


def _eq_v(it, a, b):
    """a == b as a VBool (never raises)."""
    from . import stubs
    for x, y in ((a, b), (b, a)):
        if isinstance(x, VPlain) and x.val is None and not isinstance(y, Lazy):
            compat = None
            for t, ks in _EQ_COMPAT:
                if isinstance(y, t):
                    compat = ks
                    break
            if compat is None:
                return VBool(False)  # classes, objects, enum members ... never equal a decoded value
            if not split(it, x, compat):
                return VBool(False)
    a2, b2 = resolve(it, a), resolve(it, b)
    if isinstance(a2, Lazy) or isinstance(b2, Lazy):
        if a2 is b2:
            return VBool(True)
        for x, y in ((a2, b2), (b2, a2)):
            if isinstance(x, VAbs) and x.kind == "float" and isinstance(y, (VInt, VBool)) and hasattr(x, "ival"):
                return VBool(z3.And(x.integral, x.ival == it.to_int(y).e))
            if isinstance(x, VAbs) and x.kind == "float" and isinstance(y, (VInt, VBool, VAbs)):
                return it.fresh_bool("float_eq")
            if isinstance(x, VAbs) and x.kind == "other" and isinstance(y, Lazy):
                return it.fresh_bool("other_eq")
            if isinstance(x, VPList) and isinstance(y, (VPList, VList, VTuple)):
                return it.fresh_bool("seq_eq")
            if isinstance(x, VPMap) and isinstance(y, (VPMap, VDict)):
                return it.fresh_bool("map_eq")
        return VBool(False)
    return stubs.compare(it, ast.Eq(), a2, b2)


def _raw(x):
    """VBool / bool / z3 Bool -> bool or z3 Bool (what the comparison code of stubs.py expects from these hooks)."""
    if isinstance(x, VBool):
        return x.conc if x.conc is not None else x.e
    return x


def eq(it, a, b):
    return _raw(_eq_v(it, a, b))


def in_dict(it, d, item):
    return _raw(_in_dict_v(it, d, item))


def contains(it, c, item):
    return _raw(_contains_v(it, c, item))


def order(it, op, a, b):
    from . import stubs
    a2, b2 = resolve(it, a), resolve(it, b)
    if not (isinstance(a2, Lazy) or isinstance(b2, Lazy)):
        return stubs.compare(it, op, a2, b2)
    for x, y in ((a2, b2), (b2, a2)):
        if isinstance(x, VAbs) and x.kind == "float" and isinstance(y, (VInt, VBool, VAbs)) and not (isinstance(y, VAbs) and y.kind != "float"):
            return it.fresh_bool("float_cmp")
    it.raise_(TypeError, "'<' not supported between instances")


def binop(it, op, a, b):
    from . import stubs
    a2, b2 = resolve(it, a), resolve(it, b)
    if not (isinstance(a2, Lazy) or isinstance(b2, Lazy)):
        r = stubs.binop(it, op, a2, b2)
        if r is None:
            # operand kinds python rejects (e.g. str & int, None + 1): TypeError
            kinds = (VInt, VBool, VBytes, VStr, VNone, VTag, VList, VTuple, VDict)
            if isinstance(a2, kinds) and isinstance(b2, kinds):
                it.raise_(TypeError, f"unsupported operand type(s) for {type(op).__name__}")
        return r
    bitwise = isinstance(op, (ast.BitAnd, ast.BitOr, ast.BitXor, ast.LShift, ast.RShift))
    for x, y in ((a2, b2), (b2, a2)):
        if isinstance(x, VAbs) and x.kind == "float":
            if bitwise or not isinstance(y, (VInt, VBool, VAbs)):
                it.raise_(TypeError, "unsupported operand type(s)")
            if isinstance(op, (ast.Div, ast.FloorDiv, ast.Mod)):
                if it.branch(it.fresh_bool("float_zero_div").e):
                    it.raise_(ZeroDivisionError, "float division by zero")
            return VAbs("float", "float_arith")
    if bitwise and all(isinstance(x, (VInt, VBool, VStr, VBytes, VNone, VTag, VPList, VPMap, VAbs)) for x in (a2, b2)):
        # python: bitwise operators are defined on int/bool pairs only (set-like 'other' values: set & int is a TypeError too)
        it.raise_(TypeError, "unsupported operand type(s) for bitwise operator")
    raise OutOfSubset(f"binary {type(op).__name__} on {a2!r}, {b2!r}")


def truth(it, v):
    v = resolve(it, v)
    if isinstance(v, (VPList, VPMap)):
        return v.n.e > 0
    if isinstance(v, VAbs):
        return it.fresh_bool(f"truth_{v.name}").e
    if isinstance(v, VPIter):
        return v.m.n.e > 0
    if isinstance(v, Lazy):
        _oos("truth")
    return it.truth(v)


def _hashable(it, key):
    if isinstance(key, VPlain) and key.val is None:
        if split(it, key, ("list", "dict")):
            it.raise_(TypeError, "unhashable type")
        return key
    key = resolve(it, key)
    if isinstance(key, (VPList,)) and not key.is_tuple:
        it.raise_(TypeError, "unhashable type: 'list'")
    if isinstance(key, VPMap) and not key.frozen:
        it.raise_(TypeError, "unhashable type: 'dict'")
    if isinstance(key, (VList, VDict)) and not getattr(key, "frozen", False):
        it.raise_(TypeError, "unhashable type")
    return key


def _in_dict_v(it, d, item):
    """item in <concrete VDict> for a lazy item."""
    from . import stubs
    item = _hashable(it, item)
    if isinstance(item, Lazy):
        if isinstance(item, VAbs) and item.kind == "float":
            return it.fresh_bool("float_in_dict")
        return VBool(False) if not isinstance(item, VAbs) else it.fresh_bool("in_dict")
    return stubs.contains(it, d, item)


def _contains_v(it, c, item):
    from . import stubs
    c = resolve(it, c)
    if isinstance(c, VPMap):
        item = _hashable(it, item)
        return VBool(c.present(it, item))
    if isinstance(c, VPList):
        return it.fresh_bool(f"in_{c.name}")
    if isinstance(c, VPIter):
        return it.fresh_bool(f"in_{c.m.name}")
    if isinstance(c, VAbs):
        if c.kind == "float":
            it.raise_(TypeError, "argument of type 'float' is not iterable")
        if it.branch(it.fresh_bool("other_not_container").e):
            it.raise_(TypeError, "argument is not iterable")
        return it.fresh_bool("in_other")
    if isinstance(c, Lazy):
        _oos("contains")
    item2 = resolve(it, item)
    if isinstance(item2, Lazy):
        if isinstance(c, (VStr, VBytes)):
            it.raise_(TypeError, "'in <string>' requires string as left operand")
        if isinstance(c, VDict):
            return _in_dict_v(it, c, item2)
        if isinstance(c, (VList, VTuple)):
            if not c.items:
                return VBool(False)
            return it.fresh_bool("in_list")
        _oos("contains")
    return stubs.contains(it, c, item2)


def dict_getitem(it, d, key):
    """<concrete VDict>[lazy key]."""
    from . import stubs
    key = _hashable(it, key)
    if isinstance(key, Lazy):
        it.raise_(KeyError, "key")
    return stubs.getitem(it, d, key)


def _index(it, seq: VPList, key):
    key = resolve(it, key)
    if isinstance(key, VBool):
        key = it.to_int(key)
    if not isinstance(key, VInt):
        it.raise_(TypeError, "list indices must be integers or slices")
    i = key
    if i.conc is None or i.conc < 0:
        neg = (i.e < 0) if i.conc is None else True
        if it.branch(neg):
            i = VInt(i.e + seq.n.e)
    if not it.branch(z3.And(i.e >= 0, i.e < seq.n.e)):
        it.raise_(IndexError, "list index out of range")
    return seq.elem(it, i)


def getitem(it, obj, key):
    from . import stubs
    obj = resolve(it, obj)
    if isinstance(obj, VPList):
        return _index(it, obj, key)
    if isinstance(obj, VPMap):
        key = _hashable(it, key)
        if not it.branch(obj.present(it, key)):
            it.raise_(KeyError, "key")
        return obj.value_at(it, key)
    if isinstance(obj, (VAbs, VPIter)):
        it.raise_(TypeError, "object is not subscriptable")
    if isinstance(obj, Lazy):
        _oos("getitem")
    key2 = resolve(it, key)
    if isinstance(key2, Lazy):
        if isinstance(obj, VDict):
            return dict_getitem(it, obj, key2)
        it.raise_(TypeError, "indices must be integers or slices")
    if isinstance(obj, (VNone, VInt, VBool)):
        it.raise_(TypeError, "object is not subscriptable")
    if isinstance(obj, VTag):
        it.raise_(TypeError, "'CBORTag' object is not subscriptable")
    return stubs.getitem(it, obj, key2)


def getslice(it, obj, lo, hi):
    from . import stubs
    obj = resolve(it, obj)
    lo = resolve(it, lo) if lo is not None else None
    hi = resolve(it, hi) if hi is not None else None
    for b in (lo, hi):
        if b is not None and not isinstance(b, (VInt, VBool, VNone)):
            it.raise_(TypeError, "slice indices must be integers or None")
    if isinstance(obj, VPList):
        m = it.fresh_int(f"len_slice_{obj.name}", 0, MAXLEN)
        it.assume(m.e <= obj.n.e)
        if isinstance(lo, VInt) and isinstance(hi, VInt):
            it.assume(z3.Implies(z3.And(lo.e >= 0, hi.e >= lo.e), m.e <= hi.e - lo.e))
            # a slice that starts inside the list and has positive width is non-empty
            it.assume(z3.Implies(z3.And(lo.e >= 0, lo.e < obj.n.e, hi.e > lo.e), m.e >= 1))
        r = VPList(it, obj.name + "[:]", obj.elem_fn, is_tuple=obj.is_tuple, shape=obj.shape, n=m)
        for a in ("child_kinds", "domain"):
            if hasattr(obj, a):
                setattr(r, a, getattr(obj, a))
        return r
    if isinstance(obj, (VAbs, VPMap, VPIter)):
        it.raise_(TypeError, "object is not subscriptable")
    if isinstance(obj, Lazy):
        _oos("slice")
    if isinstance(obj, (VNone, VInt, VBool, VTag)):
        it.raise_(TypeError, "object is not subscriptable")
    return stubs.getslice(it, obj, lo, hi, None)


def setitem(it, obj, key, val):
    from . import stubs
    obj = resolve(it, obj)
    if isinstance(obj, VPMap):
        if obj.frozen:
            it.raise_(TypeError, "'frozendict' object does not support item assignment")
        key = _hashable(it, key)
        if obj.shape is not None:
            from . import shapes
            shapes.check_store(it, obj, key, val)
        k = _key_id(key)
        if k is not None:
            obj.cache[k] = val
            obj.presence = getattr(obj, "presence", {})
            obj.presence[k] = z3.BoolVal(True)
        return
    if isinstance(obj, VPList):
        if obj.is_tuple:
            it.raise_(TypeError, "'tuple' object does not support item assignment")
        _index(it, obj, key)
        return
    if isinstance(obj, Lazy):
        it.raise_(TypeError, "object does not support item assignment")
    return stubs.setitem(it, obj, _hashable(it, key) if isinstance(obj, VDict) else resolve(it, key), val)


def getattr_(it, obj, name):
    if isinstance(obj, VPlain) and obj.val is None and name in ("tag",):
        if not split(it, obj, ("tag",)):
            it.raise_(AttributeError, f"object has no attribute '{name}'")
    obj = resolve(it, obj)
    if isinstance(obj, VPMap):
        if name in ("items", "keys", "values", "get", "copy"):
            return VBuiltin(f"pmap.{name}", self_obj=obj)
        if name in ("pop", "update", "setdefault", "clear", "popitem") and not obj.frozen:
            return VBuiltin(f"pmap.{name}", self_obj=obj)
        it.raise_(AttributeError, f"mapping has no attribute '{name}'")
    if isinstance(obj, VPList):
        if name in ("append", "extend", "insert", "pop", "remove", "sort", "reverse", "clear") and obj.is_tuple:
            it.raise_(AttributeError, f"'tuple' object has no attribute '{name}'")
        if name in ("append", "extend", "index", "count", "pop", "copy"):
            return VBuiltin(f"plist.{name}", self_obj=obj)
        it.raise_(AttributeError, f"sequence has no attribute '{name}'")
    if isinstance(obj, VAbs):
        if obj.kind == "float" and name in ("hex", "is_integer", "real", "imag", "conjugate", "as_integer_ratio"):
            raise OutOfSubset(f"float.{name}")
        if obj.kind == "other":
            # decoded library objects (datetime, Fraction, UUID, set ...) have attributes of their own; none of those the parser
            # reads (tag, value of a CBORTag are excluded: CBORSimpleValue has .value but no .tag)
            if name in ("tag",):
                it.raise_(AttributeError, name)
            if it.branch(it.fresh_bool(f"other_has_{name}").e):
                return VAbs("other", f"{obj.name}.{name}")
            it.raise_(AttributeError, name)
        it.raise_(AttributeError, f"'{obj.kind}' object has no attribute '{name}'")
    if isinstance(obj, Lazy):
        _oos(f"attribute {name}")
    return it.getattr_(obj, name)


def iterate(it, v, unpack):
    v = resolve(it, v)
    if isinstance(v, VPList):
        if unpack is not None:
            if not it.branch(v.n.e == unpack):
                it.raise_(ValueError, "too many / not enough values to unpack")
            return [v.elem(it, VInt(i)) for i in range(unpack)]
        raise OutOfSubset("iteration over a sequence of symbolic length outside a loop the executor can summarise")
    if isinstance(v, (VPMap, VPIter)):
        raise OutOfSubset("iteration over a mapping of symbolic size outside a loop the executor can summarise")
    if isinstance(v, VAbs):
        if v.kind == "float":
            it.raise_(TypeError, "'float' object is not iterable")
        if it.branch(it.fresh_bool("other_not_iterable").e):
            it.raise_(TypeError, "object is not iterable")
        seq = VPList(it, v.name + "@iter", lambda it_, hint: VPlain(hint, TAG_KINDS), is_tuple=True)
        return iterate(it, seq, unpack)
    if isinstance(v, Lazy):
        _oos("iterate")
    if isinstance(v, VTag):
        it.raise_(TypeError, "'CBORTag' object is not iterable")
    return it.iterate(v, unpack=unpack)


def len_(it, v):
    from . import stubs_lib
    v = resolve(it, v)
    if isinstance(v, (VPList, VPMap)):
        return v.n
    if isinstance(v, VPIter):
        return v.m.n
    if isinstance(v, VAbs):
        if v.kind == "float" or it.branch(it.fresh_bool("other_no_len").e):
            it.raise_(TypeError, "object has no len()")
        return it.fresh_int("len_other", 0, MAXLEN)
    if isinstance(v, Lazy):
        _oos("len")
    if isinstance(v, VTag):
        it.raise_(TypeError, "object of type 'CBORTag' has no len()")
    return stubs_lib.HANDLERS["len"](it, None, [v], {})


def to_int(it, v, base):
    from . import stubs_lib
    v = resolve(it, v)
    if isinstance(v, VAbs):
        if v.kind == "float":
            k = it.choose(3, "int_of_float")
            if k == 1:
                it.raise_(ValueError, "cannot convert float NaN to integer")
            if k == 2:
                it.raise_(OverflowError, "cannot convert float infinity to integer")
            return it.fresh_int("int_of_float")
        it.raise_(TypeError, "int() argument must be a string, a bytes-like object or a real number")
    if isinstance(v, Lazy):
        it.raise_(TypeError, "int() argument must be a string, a bytes-like object or a real number")
    if isinstance(v, VTag):
        it.raise_(TypeError, "int() argument must be a string, a bytes-like object or a real number")
    if isinstance(v, VBytes):
        raise OutOfSubset("int(bytes)")
    return stubs_lib.HANDLERS["int"](it, None, [v] + ([base] if base is not None else []), {})


def to_dict(it, v):
    v = resolve(it, v)
    if isinstance(v, VPMap):
        return VPMap(it, v.name + "@copy", v.key_fn, v.val_fn, frozen=False, shape=v.shape)
    if isinstance(v, VPList):
        if it.branch(it.fresh_bool("dict_of_seq_bad").e):
            it.raise_(ValueError, "dictionary update sequence element has wrong length")
        raise OutOfSubset("dict(sequence of symbolic length)")
    it.raise_(TypeError, "object is not iterable")


def dict_update(it, d, src):
    _oos("dict.update with a decoded value")


def enc(it, v):
    """cbor2.dumps of a decoded value: some bytes (law A2 keeps nothing we need here); values that may contain library
    objects cbor2 cannot encode (naive datetime ...) may raise CBOREncodeError."""
    import cbor2
    may_fail = True
    if isinstance(v, VPlain):
        ks = v.kinds
        may_fail = any(k in ("other", "list", "tuple", "dict", "frozendict", "tag") for k in ks)
    if may_fail and it.branch(it.fresh_bool("dumps_fails").e):
        it.raise_(cbor2.CBOREncodeError, "cannot serialize")
    b = it.fresh_bytes("reencoded")
    it.assume(z3.And(z3.Length(b.e) >= 1, z3.Length(b.e) < MAXLEN))
    return b


class AnyDecodeFailure(Exception):
    """Stands for whatever cbor2.loads raises on malformed input (CBORDecodeError, but also OverflowError, MemoryError,
    TypeError, SystemError, re.error ... - see the comment in SuitObject.deserialize_cbor): only `except Exception`
    (or broader) catches it, so a call site that catches less is reported as an escape."""


def loads(it, data):
    # cbor2.loads is a function of its argument: decoding the same byte term twice gives the same outcome
    it.loads_cache = getattr(it, "loads_cache", {})
    key = z3.simplify(data.e).sexpr()
    if key in it.loads_cache:
        r = it.loads_cache[key]
        if r is None:
            it.raise_(AnyDecodeFailure, "cbor2.loads failed")
        return r
    if it.branch(it.fresh_bool("loads_fails").e):
        it.loads_cache[key] = None
        it.raise_(AnyDecodeFailure, "cbor2.loads failed")
    it.assumptions_used.add("cbor2.loads on arbitrary bytes: raises some Exception or returns a value of the Plain sum "
                            "(int|bool|bytes|str|None|float|list|dict|CBORTag|other library object; tuple/frozendict under tags and as map keys)")
    r = VPlain(it.fresh_name("decoded"), TOP_KINDS)
    r.src = data.e  # the bytes this value was decoded from: its kind is tied to the major type of their first byte
    it.loads_cache[key] = r
    return r


def concretize(model, v):
    if isinstance(v, VPlain):
        if v.val is not None:
            from .verify import concretize as conc
            return {"__plain__": v.kinds[0], "value": conc(model, v.val)}
        return {"__plain__": "|".join(v.kinds)}
    if isinstance(v, VAbs):
        return {"__plain__": v.kind}
    if isinstance(v, VPList):
        return {"__plain__": "tuple" if v.is_tuple else "list", "len": str(model.eval(v.n.e, model_completion=True))}
    if isinstance(v, VPMap):
        return {"__plain__": "frozendict" if v.frozen else "dict", "size": str(model.eval(v.n.e, model_completion=True))}
    return "<opaque>"
