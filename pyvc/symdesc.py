"""Descriptions with symbolic leaves: a concrete YAML/JSON-shaped template whose marked leaves become symbolic values.

`create` is then executed by the path executor on the real code for ALL values of the leaves at once (unbounded in
integers, string lengths and contents); only the SHAPE (which members/commands are present) is fixed per template.
"""
from __future__ import annotations
import z3
from .values import V, VInt, VStr, VBytes, VList, VDict, DEntry, mk, NONE
from . import stubs


class Leaf:
    def __init__(self, kind, name, **kw):
        self.kind, self.name, self.kw = kind, name, kw

    def __repr__(self):
        return f"<{self.kind}:{self.name}>"


def INT(name, lo=0, hi=2 ** 64 - 1):
    return Leaf("int", name, lo=lo, hi=hi)


def STR(name):
    return Leaf("str", name)


def HEXSTR(name):
    return Leaf("hex", name)


def CHOICE(name, *alts):
    return Leaf("choice", name, alts=alts)


def FILEPATH(name):
    return Leaf("path", name)


def build(it, t, leaves=None):
    """Template -> V; every Leaf becomes a symbolic value recorded in `leaves` (name -> V)."""
    leaves = {} if leaves is None else leaves
    if isinstance(t, Leaf):
        if t.name in leaves:
            return leaves[t.name]
        if t.kind == "int":
            v = it.fresh_int(t.name, t.kw["lo"], t.kw["hi"])
        elif t.kind == "str":
            v = it.fresh_str(t.name)
            it.assume(z3.Length(v.e) < 2 ** 32)
        elif t.kind == "hex":
            v = it.fresh_str(t.name)
            it.assume(stubs.ISHEX(v.e))
            # what ISHEX means for the string theory: an even number of hexadecimal digits
            it.assume(z3.InRe(v.e, z3.Star(z3.Union(z3.Range("0", "9"), z3.Range("a", "f"), z3.Range("A", "F")))))
            it.assume(z3.Length(v.e) < 2 ** 32)
        elif t.kind == "choice":
            v = mk(t.kw["alts"][it.choose(len(t.kw["alts"]), t.name)])
        elif t.kind == "path":
            v = it.fresh_str(t.name)
            it.assume(z3.Length(v.e) > 0)
            it.assume(it.fs.exists(v.e))
            # a file name is not a hex string here (the hex-like-name case is the known finding of C05)
            it.assume(z3.Not(z3.InRe(v.e, z3.Star(z3.Union(z3.Range("0", "9"), z3.Range("a", "f"), z3.Range("A", "F"))))))
        else:
            raise ValueError(t.kind)
        leaves[t.name] = v
        return v
    if isinstance(t, dict):
        d = VDict()
        for k, x in t.items():
            d.entries[k] = DEntry(k, build(it, x, leaves))
        return d
    if isinstance(t, (list, tuple)):
        return VList([build(it, x, leaves) for x in t])
    return mk(t)


def origin(it, b):
    """The value whose encoding the byte term `b` is (syntactic law A1), or None."""
    if not isinstance(b, VBytes):
        return None
    if b.conc is not None:
        from . import cbor
        try:
            import cbor2
            return cbor.lift_native(cbor2.loads(b.conc))
        except Exception:
            return None
    from .cbor import okey
    return getattr(it, "enc_origins", {}).get(okey(b.e))
