"""Conservative syntactic frame scan (DESIGN.md C18): does a function under contract, or a repository function it
calls (transitively, by name), write module-level / class-level mutable state or declare `global`?

Over-approximation: every hit is reported; the scan never looks at path feasibility.
"""
from __future__ import annotations
import ast

MUTATORS = {"append", "extend", "update", "pop", "popitem", "setdefault", "add", "clear", "insert", "remove", "discard", "sort", "reverse", "__setitem__"}


def module_mutables(tree):
    """Names bound at module level to a mutable display / constructor call."""
    out = set()
    for st in tree.body:
        targets, value = [], None
        if isinstance(st, ast.Assign):
            targets, value = st.targets, st.value
        elif isinstance(st, ast.AnnAssign) and st.value is not None:
            targets, value = [st.target], st.value
        if value is None:
            continue
        mutable = isinstance(value, (ast.Dict, ast.List, ast.Set, ast.ListComp, ast.DictComp, ast.SetComp)) or (
            isinstance(value, ast.Call) and isinstance(value.func, ast.Name) and value.func.id in ("dict", "list", "set", "defaultdict", "OrderedDict", "bytearray"))
        if mutable:
            for t in targets:
                if isinstance(t, ast.Name):
                    out.add(t.id)
    return out


def _root_name(node):
    while isinstance(node, (ast.Attribute, ast.Subscript)):
        node = node.value
    return node.id if isinstance(node, ast.Name) else None


def _local_names(fn):
    names = {a.arg for a in fn.args.posonlyargs + fn.args.args + fn.args.kwonlyargs}
    if fn.args.vararg:
        names.add(fn.args.vararg.arg)
    if fn.args.kwarg:
        names.add(fn.args.kwarg.arg)
    for n in ast.walk(fn):
        if isinstance(n, ast.Name) and isinstance(n.ctx, ast.Store):
            names.add(n.id)
    for n in ast.walk(fn):
        if isinstance(n, ast.Global):
            names.difference_update(n.names)
    return names


def scan_function(fn, module_tree, class_names=()):
    """Hits inside one FunctionDef: list of (lineno, description)."""
    hits = []
    muts = module_mutables(module_tree)
    local = _local_names(fn)
    for n in ast.walk(fn):
        if isinstance(n, ast.Global):
            hits.append((n.lineno, f"`global {', '.join(n.names)}`"))
        targets = []
        if isinstance(n, ast.Assign):
            targets = n.targets
        elif isinstance(n, (ast.AugAssign, ast.AnnAssign)):
            targets = [n.target]
        elif isinstance(n, ast.Delete):
            targets = n.targets
        for t in targets:
            if isinstance(t, (ast.Subscript, ast.Attribute)):
                r = _root_name(t)
                if r is not None and r not in local and (r in muts or r in class_names or (r[:1].isupper() and isinstance(t, ast.Attribute) and r not in ("self",))):
                    if r in muts or r in class_names:
                        hits.append((n.lineno, f"store into module/class-level `{r}`"))
        if isinstance(n, ast.Call) and isinstance(n.func, ast.Attribute) and n.func.attr in MUTATORS:
            r = _root_name(n.func.value)
            if r is not None and r not in local and r in muts:
                hits.append((n.lineno, f"mutating call `{r}.{n.func.attr}(...)` on module-level state"))
        # mutable default arguments are shared state as well
    for d in list(fn.args.defaults) + [d for d in fn.args.kw_defaults if d is not None]:
        if isinstance(d, (ast.Dict, ast.List, ast.Set, ast.Call, ast.ListComp, ast.DictComp)):
            hits.append((fn.lineno, "mutable default argument (shared across calls)"))
    return hits


def called_functions(fn, module_tree):
    """FunctionDefs of the same module that `fn` calls by plain name or Class.name / self.name (best effort)."""
    defs = {}
    for st in module_tree.body:
        if isinstance(st, ast.FunctionDef):
            defs[st.name] = st
        elif isinstance(st, ast.ClassDef):
            for s in st.body:
                if isinstance(s, ast.FunctionDef):
                    defs.setdefault(s.name, s)
                    defs[f"{st.name}.{s.name}"] = s
    out = []
    for n in ast.walk(fn):
        if isinstance(n, ast.Call):
            f = n.func
            if isinstance(f, ast.Name) and f.id in defs:
                out.append(defs[f.id])
            elif isinstance(f, ast.Attribute):
                if isinstance(f.value, ast.Name):
                    key = f"{f.value.id}.{f.attr}"
                    if key in defs:
                        out.append(defs[key])
                    elif f.value.id in ("self", "cls") and f.attr in defs:
                        out.append(defs[f.attr])
    return out


def scan(fi, depth=4):
    """Transitive scan starting at FuncInfo fi (same-module callees)."""
    tree = fi.module.tree
    class_names = ()
    seen, work, hits = set(), [(fi.node, 0)], []
    while work:
        fn, d = work.pop()
        if id(fn) in seen:
            continue
        seen.add(id(fn))
        for ln, what in scan_function(fn, tree, class_names):
            hits.append(f"{fi.module.relpath}:{ln}: {what} (in {fn.name})")
        if d < depth:
            for g in called_functions(fn, tree):
                work.append((g, d + 1))
    return sorted(set(hits))
