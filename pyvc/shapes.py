"""Shapes: the small type language of loop invariants and interface contracts over model objects (C17, C03).

A shape describes a set of executor values: scalars (types.Int/Str/Bytes/Bool/NoneT), `PlainT` (a decoded CBOR / JSON value of
a kind set), `InstT` (an ABSTRACT instance of a repository class: what a callee's interface contract promises to return),
`AbsListT` / `AbsDictT` (containers of symbolic size), `TupleT`, `OneOf`.  `make` builds an arbitrary value of a shape
(used to havoc loop-carried state and to produce results of modular calls); `conforms` decides whether a value produced by
the code is in the shape (used to check invariant initialisation / preservation and interface postconditions).
"""
from __future__ import annotations
import z3

from .values import V, VNone, NONE, VInt, VBool, VBytes, VStr, VFloat, VList, VTuple, VDict, DEntry, VObj, VClass, VEnum, VTag, \
    OutOfSubset, VBuiltin
from . import types as T
from . import plain as P


class PlainT(T.T):
    def __init__(self, kinds=P.TOP_KINDS, domain="cbor"):
        self.kinds, self.domain = tuple(kinds), domain

    def __repr__(self):
        return f"PlainT({self.domain}:{'|'.join(self.kinds)})"


JSON = PlainT(P.JSON_KINDS, "json")


class InstT(T.T):
    """Abstract instance of one of `classes` (VClass list, or fn(it) -> list)."""

    def __init__(self, classes):
        self.classes = classes

    def resolve(self, it):
        cs = self.classes(it) if callable(self.classes) else self.classes
        return list(cs)

    def __repr__(self):
        return f"InstT({self.classes if not callable(self.classes) else '...'})"


class AbsListT(T.T):
    def __init__(self, elem, is_tuple=False):
        self.elem, self.is_tuple = elem, is_tuple

    def __repr__(self):
        return f"AbsListT({self.elem!r})"


class AbsDictT(T.T):
    """dict of symbolic size; val(it, key) -> shape of the value stored under `key`; key: shape of keys (for iteration)."""

    def __init__(self, val, key=None, label="dict"):
        self.val, self.key, self.label = val, key, label

    def __repr__(self):
        return f"AbsDictT({self.label})"


class ObjInvT(T.T):
    """A mutable repository object kept in a loop: its attributes are arbitrary values of the declared types satisfying the
    invariant clause `inv` (a clause text over `self`).  Havoc happens IN PLACE (the object is shared with the caller)."""

    def __init__(self, obj_type, inv):
        self.obj_type, self.inv = obj_type, inv

    def __repr__(self):
        return f"ObjInvT({self.obj_type.cls}: {self.inv[:40]}...)"


def _inv_formula(it, obj, shape):
    from .contract import Clause
    from .interp import Env
    from . import clauses
    env = Env(None, clauses.spec_env(it))
    env.set("self", obj)
    return clauses.eval_clause(it, Clause("inv", shape.inv, "invariant"), env)


def havoc_object(it, obj, shape: ObjInvT, name):
    for an, at in shape.obj_type.attrs.items():
        obj.attrs[an] = T.make_value(it, at, f"{name}.{an}")
    it.assume(_inv_formula(it, obj, shape))


class AnyOfClassT(T.T):
    """A class object out of a list (for `cls` parameters)."""

    def __init__(self, classes):
        self.classes = classes


def make(it, shape, name):
    if isinstance(shape, PlainT):
        return P.VPlain(it.fresh_name(name), shape.kinds, shape.domain)
    if isinstance(shape, InstT):
        cs = shape.resolve(it)
        if not cs:
            raise OutOfSubset("InstT with no classes")
        vc = cs[it.choose(len(cs), f"{name}_cls")] if len(cs) > 1 else cs[0]
        return abstract_instance(it, vc, name)
    if isinstance(shape, AbsListT):
        return P.VPList(it, it.fresh_name(name), lambda it_, hint: make(it_, shape.elem, hint), is_tuple=shape.is_tuple, shape=shape)
    if isinstance(shape, T.TagT):
        return VTag(VInt(shape.tag), make(it, shape.t, name + ".value"))
    if isinstance(shape, AnyOfClassT):
        return shape.classes[it.choose(len(shape.classes), f"{name}_key")] if len(shape.classes) > 1 else shape.classes[0]
    if isinstance(shape, T.ListT):
        return VList([make(it, e, f"{name}[{i}]") for i, e in enumerate(shape.elems)])
    if isinstance(shape, AbsDictT):
        key_fn = (lambda it_, hint: make(it_, shape.key, hint)) if shape.key is not None else (lambda it_, hint: P.VPlain(hint, P.TAG_KINDS))
        return P.VPMap(it, it.fresh_name(name), key_fn, lambda it_, key, hint: make(it_, shape.val(it_, key), hint), shape=shape)
    if isinstance(shape, T.TupleT):
        return VTuple([make(it, e, f"{name}[{i}]") for i, e in enumerate(shape.elems)])
    if isinstance(shape, T.OneOf):
        a = shape.alts[it.choose(len(shape.alts), f"{name}_alt")]
        return make(it, a, name) if isinstance(a, T.T) else T.make_value(it, a, name)
    return T.make_value(it, shape, name)


def abstract_instance(it, vc: VClass, name):
    """An arbitrary instance of repository class vc as returned by its from_cbor / from_obj: the payload attribute
    (named after the class) is materialised lazily from the class's payload shape."""
    o = VObj(vc.info)
    o.abstract = True
    o.abs_name = name
    return o


def payload_attr(ci) -> str:
    """Name of the attribute SuitObject.__init__ stores the payload under: the class name; for the anonymous cbstr()
    wrapper the name of the wrapped class (functools.update_wrapper in Cbstr.__init__)."""
    while ci.node.name == "Cbstr" and ci.bases and ci.bases[0].info is not None:
        ci = ci.bases[0].info
    return ci.node.name


def materialise_payload(it, o: VObj):
    """Fill the payload attribute of an abstract instance (called by Interp.getattr_ on first access)."""
    if not getattr(o, "abstract", False) or getattr(o, "materialised", False):
        return
    o.materialised = True
    shape = payload_shape(it, VClass(info=o.cls))
    o.attrs[payload_attr(o.cls)] = make(it, shape, f"{getattr(o, 'abs_name', o.cls.name)}.{payload_attr(o.cls)}")


# ------------------------------------------------------------------------------------------------ payload shapes
def _generic_kind(it, ci):
    """Name of the generic node type (class of suit/types/common.py) a model class derives its from_cbor/to_obj from."""
    for c in ci.mro():
        if c.module is not None and c.module.relpath.endswith("suit/types/common.py") and c.node.name != "Cbstr":
            return c.node.name
    return None


def _meta(it, ci, field):
    m, _ = ci.lookup("_metadata")
    if m is None or isinstance(m, VNone):
        return None
    return it.getattr_(m, field)


def payload_shape(it, vc: VClass):
    """Representation invariant of the generic node types, i.e. what `from_cbor` stores under the class-named attribute.
    (Derived from the code of common.py; every from_cbor is verified to ESTABLISH it, every to_obj may then RELY on it.)"""
    ci = vc.info
    custom = getattr(it, "payload_shape_overrides", {}).get(ci.name)
    if custom is not None:
        return custom(it, vc)
    g = _generic_kind(it, ci)
    if g in ("SuitInt", "SuitUint"):
        return T.OneOf(T.Int(0 if g == "SuitUint" else None), T.Bool()) if False else T.Int(0 if g == "SuitUint" else None)
    if g == "SuitBool":
        return T.Bool()
    if g == "SuitNull":
        return T.NoneT()
    if g in ("SuitTstr", "SuitBchar", "SuitEnum"):
        return T.Str()
    if g in ("SuitBstr", "SuitHex", "SuitEmptyBstr"):
        return T.Bytes()
    if g == "SuitObject":
        return PlainT()
    if g == "SuitUnion":
        children = _meta(it, ci, "children")
        return InstT([c for c in children.items])
    if g == "SuitTag":
        children = _meta(it, ci, "children")
        tag = it.getattr_(_meta(it, ci, "tag"), "value")
        return T.TagT(tag.conc, InstT([children.items[0]]))
    if g in ("SuitList", "SuitListUint"):
        children = _meta(it, ci, "children")
        return AbsListT(InstT([children.items[0]]), is_tuple=True)
    if g == "SuitBitfield":
        bc, _ = ci.lookup("_bit_class")
        return AbsListT(InstT([bc]))
    if g == "SuitTupleNamed":
        mp = _meta(it, ci, "map")
        return AbsListT(InstT([e.value for e in mp.entries.values()]))
    if g in ("SuitKeyValue", "SuitKeyValueTuple"):
        mp = _meta(it, ci, "map")
        keys = [k for k in mp.entries]

        def val(it_, key, mp=mp):
            ck = key if not isinstance(key, V) else key
            for k, e in mp.entries.items():
                if k is ck or k == ck:
                    return InstT([e.value])
            return InstT([e.value for e in mp.entries.values()])
        return AbsDictT(val, key=AnyOfClassT(keys), label=f"{payload_attr(ci)}.map")
    if g == "SuitKeyValueUnnamed":
        mp = _meta(it, ci, "map")
        kcs = [k for k in mp.entries]
        vcs = [e.value for e in mp.entries.values()]
        return AbsDictT(lambda it_, key: T.TupleT([InstT(kcs), InstT(vcs)]), key=T.Str(), label=f"{payload_attr(ci)}.map")
    raise OutOfSubset(f"payload shape of {ci.name} (generic kind {g})")


# ------------------------------------------------------------------------------------------------ conformance
def conforms(it, v, shape) -> bool:
    if isinstance(shape, T.OneOf):
        return any(conforms(it, v, a) if isinstance(a, T.T) else _is_const(v, a) for a in shape.alts)
    if isinstance(shape, type) and issubclass(shape, T.T):
        shape = shape()
    if isinstance(v, P.VPlain) and v.val is not None:
        v = v.val
    if isinstance(shape, ObjInvT):
        if not isinstance(v, VObj):
            return False
        return it.must(_inv_formula(it, v, shape))
    if isinstance(shape, T.Int):
        if isinstance(v, VBool):
            v = it.to_int(v)
        if not isinstance(v, VInt):
            return False
        if shape.lo is not None and not it.must(v.e >= shape.lo):
            return False
        if shape.hi is not None and not it.must(v.e <= shape.hi):
            return False
        return True
    if isinstance(shape, T.Bool):
        return isinstance(v, VBool)
    if isinstance(shape, T.Str):
        return isinstance(v, VStr)
    if isinstance(shape, T.Bytes):
        return isinstance(v, VBytes)
    if isinstance(shape, T.NoneT):
        return isinstance(v, VNone)
    if isinstance(shape, AnyOfClassT):
        return isinstance(v, VClass) and any(v == c for c in shape.classes)
    if isinstance(shape, InstT):
        if not isinstance(v, VObj):
            return False
        return any(c.info is not None and v.cls.is_subclass_of(c.info) for c in shape.resolve(it))
    if isinstance(shape, T.TagT):
        return isinstance(v, VTag) and isinstance(v.tag, VInt) and (v.tag.conc == shape.tag or it.must(v.tag.e == shape.tag)) and conforms(it, v.value, shape.t)
    if isinstance(shape, T.ListT):
        return isinstance(v, (VList, VTuple)) and len(v.items) == len(shape.elems) and all(conforms(it, x, e) for x, e in zip(v.items, shape.elems))
    if isinstance(shape, T.TupleT):
        return isinstance(v, VTuple) and len(v.items) == len(shape.elems) and all(conforms(it, x, e) for x, e in zip(v.items, shape.elems))
    if isinstance(shape, AbsListT):
        if isinstance(v, P.VPList):
            return v.shape is shape or (v.shape is not None and _same_shape(it, v.shape, shape))
        if isinstance(v, (VList, VTuple)):
            return all(conforms(it, x, shape.elem) for x in v.items)
        return False
    if isinstance(shape, AbsDictT):
        if isinstance(v, P.VPMap):
            return v.shape is shape or (v.shape is not None and v.shape.label == shape.label)
        if isinstance(v, VDict) and not v.open_:
            from .interp import mk_key
            return all(e.present is not None and conforms(it, e.value, shape.val(it, mk_key(k))) for k, e in v.entries.items())
        return False
    if isinstance(shape, PlainT):
        return _conforms_plain(it, v, shape)
    raise OutOfSubset(f"conformance against {shape!r}")


def _is_const(v, a):
    from .values import conc_key
    return conc_key(v) == a


def _same_shape(it, a, b):
    if type(a) is not type(b):
        return False
    if isinstance(a, AbsListT):
        return _same_shape(it, a.elem, b.elem)
    if isinstance(a, InstT):
        return set(id(c.info) for c in a.resolve(it)) <= set(id(c.info) for c in b.resolve(it))
    if isinstance(a, PlainT):
        return set(a.kinds) <= set(b.kinds) and a.domain == b.domain
    if isinstance(a, AbsDictT):
        return a.label == b.label
    return repr(a) == repr(b)


def _conforms_plain(it, v, shape: PlainT) -> bool:
    ks = shape.kinds
    json = shape.domain == "json"
    if isinstance(v, P.VPlain):
        scalar_only = set(v.kinds) <= {"int", "bool", "str", "none", "float", "bytes"}
        return set(v.kinds) <= set(ks) and (not json or v.domain == "json" or scalar_only)
    if isinstance(v, VBool):
        return "bool" in ks
    if isinstance(v, VInt):
        return "int" in ks
    if isinstance(v, VStr):
        return "str" in ks
    if isinstance(v, VBytes):
        return "bytes" in ks
    if isinstance(v, VNone):
        return "none" in ks
    if isinstance(v, P.VAbs):
        return v.kind in ks
    if isinstance(v, VFloat):
        return "float" in ks
    child = PlainT(P._child_kinds("list", shape.domain), shape.domain)
    if isinstance(v, (VList, VTuple)):
        if (("list" in ks) if isinstance(v, VList) or json else ("tuple" in ks)):
            return all(_conforms_plain(it, x, child) for x in v.items)
        return False
    if isinstance(v, P.VPList):
        if not (("list" in ks) if (not v.is_tuple or json) else ("tuple" in ks)):
            return False
        if v.shape is None:
            return not json
        return _shape_within_plain(it, v.shape.elem if isinstance(v.shape, AbsListT) else v.shape, child)
    if isinstance(v, VDict):
        if "dict" not in ks or v.open_:
            return False
        for k, e in v.entries.items():
            if json and not isinstance(k, str) and not (hasattr(k, "v") and isinstance(k.v, VStr)):
                return False
            if not _conforms_plain(it, e.value, child):
                return False
        return True
    if isinstance(v, P.VPMap):
        if "dict" not in ks:
            return False
        if v.shape is None:
            return not json
        ksh = v.shape.key
        if json and not isinstance(ksh, T.Str):
            return False
        probe = v.shape.val(it, None)
        return _shape_within_plain(it, probe, child)
    if isinstance(v, VTag):
        return "tag" in ks and not json
    return False


def _shape_within_plain(it, shape, plain_shape: PlainT) -> bool:
    """Is every value of `shape` a value of `plain_shape`?"""
    if isinstance(shape, PlainT):
        return set(shape.kinds) <= set(plain_shape.kinds) and (plain_shape.domain != "json" or shape.domain == "json")
    if isinstance(shape, T.Int):
        return "int" in plain_shape.kinds
    if isinstance(shape, T.Str):
        return "str" in plain_shape.kinds
    if isinstance(shape, T.Bool):
        return "bool" in plain_shape.kinds
    if isinstance(shape, T.NoneT):
        return "none" in plain_shape.kinds
    if isinstance(shape, T.Bytes):
        return "bytes" in plain_shape.kinds
    if isinstance(shape, AbsListT):
        return "list" in plain_shape.kinds and _shape_within_plain(it, shape.elem, PlainT(P._child_kinds("list", plain_shape.domain), plain_shape.domain))
    if isinstance(shape, AbsDictT):
        if "dict" not in plain_shape.kinds or (plain_shape.domain == "json" and not isinstance(shape.key, T.Str)):
            return False
        return _shape_within_plain(it, shape.val(it, None), PlainT(P._child_kinds("dict", plain_shape.domain), plain_shape.domain))
    if isinstance(shape, T.OneOf):
        return all(isinstance(a, T.T) and _shape_within_plain(it, a, plain_shape) for a in shape.alts)
    return False


def note_obligation(it, label, ok: bool, detail=""):
    it.call_obligations.append((label, z3.BoolVal(bool(ok)), list(it.facts) if not ok else [], list(it.pc) if not ok else []))
    if not ok:
        it.shape_failures = getattr(it, "shape_failures", [])
        it.shape_failures.append((label, detail))


def note_goal(it, label, formula):
    """An invariant obligation that is a FORMULA (object invariants): discharged by the prover at the end of the path."""
    it.call_obligations.append((label, formula, list(it.facts), list(it.pc)))


def check_shape(it, label, v, shape, detail=""):
    """Record the obligation `v conforms to shape` (formula for object invariants, structural otherwise)."""
    if isinstance(shape, ObjInvT):
        if not isinstance(v, VObj):
            return note_obligation(it, label, False, detail)
        return note_goal(it, label, _inv_formula(it, v, shape))
    ok = v is not None and conforms(it, v, shape)
    note_obligation(it, label, ok, detail)


def check_store(it, pmap, key, val):
    vshape = pmap.shape.val(it, key)
    ok = conforms(it, val, vshape)
    note_obligation(it, f"invariant:{pmap.shape.label}-store", ok, f"value {val!r} stored under {key!r} is not of shape {vshape!r}")


def shape_like(it, v):
    """Shape of a comprehension element that does not depend on the path taken inside the element expression."""
    if isinstance(v, VObj) and getattr(v, "abstract", False):
        return InstT([VClass(info=v.cls)])
    if isinstance(v, P.VPlain):
        return PlainT(v.kinds0, v.domain)
    if isinstance(v, P.VPList):
        if v.shape is not None:
            return v.shape
        if hasattr(v, "child_kinds"):
            return AbsListT(PlainT(v.child_kinds, v.domain), is_tuple=v.is_tuple)
        return None
    if isinstance(v, VStr):
        return T.Str()
    if isinstance(v, VBytes):
        return T.Bytes()
    if isinstance(v, VBool):
        return T.Bool()
    if isinstance(v, VInt):
        return T.Int()
    if isinstance(v, VNone):
        return T.NoneT()
    return None
