"""ASSUMED models of `re` for the literal patterns that occur in the repository; user-supplied patterns are an
uninterpreted predicate MATCH(pattern, string) (C11).  Each literal model is validated differentially against `re`.
"""
from __future__ import annotations
import z3
from .values import V, NONE, VNone, VInt, VBool, VBytes, VStr, VTuple, VLib, OutOfSubset
from .stubs_lib import handler, argn

S = z3.StringSort()
DIG = z3.Range("0", "9")
P_EXTRA = r"^(alpha|beta|rc)[\.]{0,1}([0-9]+){0,1}$"
P_MPI = r"^SB_CONFIG_SUIT_MPI_(?P<manifest>[A-Z1-9_]+)_VENDOR_NAME$"
P_KCONFIG = r"(?P<kconfig_name>[A-Za-z0-9_]+)=(?P<kconfig_value>.*)"
P_DIGIT_START = "^[0-9].*]"

FULLMATCH = z3.Function("RE_FULLMATCH", S, S, z3.BoolSort())


def _opt_nl(it):
    nl = it.fresh_str("nl")
    it.assume(z3.Or(nl.e == z3.StringVal(""), nl.e == z3.StringVal("\n")))
    return nl


def match_literal(it, pattern: str, s: VStr, full=False):
    """re.match(pattern, s) for the known literal patterns -> Match model or NONE."""
    from .stubs import note
    note(it, f"re.match literal pattern {pattern!r}")
    if not isinstance(s, VStr):
        it.raise_(TypeError, "expected string or bytes-like object")
    if s.conc is not None:
        import re
        m = (re.fullmatch if full else re.match)(pattern, s.conc)
        if m is None:
            return NONE
        return VLib("Match", groups=[NONE if g is None else VStr(g) for g in m.groups()],
                    named={k: (NONE if v is None else VStr(v)) for k, v in m.groupdict().items()}, whole=VStr(m.group(0)))
    if pattern == P_EXTRA:
        label_re = z3.Union(z3.Re("alpha"), z3.Re("beta"), z3.Re("rc"))
        lang = z3.Concat(label_re, z3.Option(z3.Re(".")), z3.Star(DIG), z3.Option(z3.Re("\n")))
        if not it.branch(z3.InRe(s.e, lang)):
            return NONE
        label = None
        for cand in ("alpha", "beta", "rc"):
            if it.branch(z3.PrefixOf(z3.StringVal(cand), s.e)):
                label = cand
                break
        if label is None:
            from .interp import Infeasible
            raise Infeasible()
        g2 = it.fresh_str("g2")
        dot = it.fresh_str("dot")
        nl = _opt_nl(it)
        it.assume(z3.InRe(g2.e, z3.Star(DIG)))
        it.assume(z3.Or(dot.e == z3.StringVal(""), dot.e == z3.StringVal(".")))
        it.assume(s.e == z3.Concat(z3.StringVal(label), dot.e, g2.e, nl.e))
        has2 = it.branch(z3.Length(g2.e) > 0)
        return VLib("Match", groups=[VStr(label), g2 if has2 else NONE], named={}, whole=s)
    if pattern == P_MPI:
        cls = z3.Union(z3.Range("A", "Z"), z3.Range("1", "9"), z3.Re("_"))
        lang = z3.Concat(z3.Re("SB_CONFIG_SUIT_MPI_"), z3.Plus(cls), z3.Re("_VENDOR_NAME"), z3.Option(z3.Re("\n")))
        if not it.branch(z3.InRe(s.e, lang)):
            return NONE
        g = it.fresh_str("manifest")
        nl = _opt_nl(it)
        it.assume(z3.InRe(g.e, z3.Plus(cls)))
        it.assume(s.e == z3.Concat(z3.StringVal("SB_CONFIG_SUIT_MPI_"), g.e, z3.StringVal("_VENDOR_NAME"), nl.e))
        return VLib("Match", groups=[g], named={"manifest": g}, whole=s)
    if pattern == P_KCONFIG:
        name_cls = z3.Union(z3.Range("A", "Z"), z3.Range("a", "z"), DIG, z3.Re("_"))
        nonl = z3.Star(z3.Complement(z3.Concat(z3.Full(z3.ReSort(S)), z3.Re("\n"), z3.Full(z3.ReSort(S)))))
        anything = z3.Full(z3.ReSort(S))
        lang = z3.Concat(z3.Plus(name_cls), z3.Re("="), anything)
        if not it.branch(z3.InRe(s.e, lang)):
            return NONE
        name = it.fresh_str("kname")
        val = it.fresh_str("kvalue")
        rest = it.fresh_str("krest")
        it.assume(z3.InRe(name.e, z3.Plus(name_cls)))
        it.assume(z3.Not(z3.Contains(val.e, z3.StringVal("\n"))))
        # `.*` is greedy and stops at the first newline; what follows (a trailing newline from readlines) is not matched
        it.assume(z3.Or(rest.e == z3.StringVal(""), z3.PrefixOf(z3.StringVal("\n"), rest.e)))
        it.assume(s.e == z3.Concat(name.e, z3.StringVal("="), val.e, rest.e))
        return VLib("Match", groups=[name, val], named={"kconfig_name": name, "kconfig_value": val}, whole=s)
    raise OutOfSubset(f"re.match with unmodelled literal pattern {pattern!r}")


def _no_flags(args, kw):
    if len(args) > 2 or kw:
        raise OutOfSubset("re.match / search / fullmatch with flags (not modelled)")


@handler("re.match")
def _re_match(it, self, args, kw):
    _no_flags(args, kw)
    pat, s = args[0], args[1]
    if isinstance(pat, VLib) and pat.kind == "Pattern":
        pat = pat.f["pattern"]
    if isinstance(pat, VStr) and pat.conc is not None:
        return match_literal(it, pat.conc, s)
    if not isinstance(pat, VStr) or not isinstance(s, VStr):
        raise OutOfSubset("re.match with a symbolic non-str pattern / subject")
    return _user_pattern(it, "match", pat, s)


# user-supplied patterns: one uninterpreted predicate per matching mode, related only by what holds for EVERY pattern:
#   fullmatch(p, s) => match(p, s) => search(p, s)       (a full match is a match at the start; a match at the start is found by search)
RE_MATCH = z3.Function("RE_MATCH", S, S, z3.BoolSort())
RE_SEARCH = z3.Function("RE_SEARCH", S, S, z3.BoolSort())


def _user_pattern(it, mode, pat, s):
    it.assumptions_used.add("re.match / re.search / re.fullmatch with a user pattern are uninterpreted predicates related by fullmatch => match => search; patterns are assumed valid")
    f, m, r = FULLMATCH(pat.e, s.e), RE_MATCH(pat.e, s.e), RE_SEARCH(pat.e, s.e)
    it.assume(z3.Implies(f, m))
    it.assume(z3.Implies(m, r))
    if it.branch({"match": m, "search": r, "fullmatch": f}[mode]):
        return VLib("Match", groups=[], named={}, whole=s)
    return NONE


@handler("re.search")
def _re_search(it, self, args, kw):
    _no_flags(args, kw)
    pat, s = args[0], args[1]
    if isinstance(pat, VStr) and isinstance(s, VStr) and (pat.conc is None or s.conc is None):
        return _user_pattern(it, "search", pat, s)
    if isinstance(pat, VStr) and isinstance(s, VStr):
        import re
        return VLib("Match", groups=[], named={}, whole=s) if re.search(pat.conc, s.conc) else NONE
    raise OutOfSubset("re.search with a non-str pattern / subject")


@handler("re.fullmatch")
def _re_fullmatch(it, self, args, kw):
    _no_flags(args, kw)
    pat, s = args[0], args[1]
    if isinstance(pat, VStr) and pat.conc is not None and s.conc is not None:
        import re
        return VLib("Match", groups=[], named={}, whole=s) if re.fullmatch(pat.conc, s.conc) else NONE
    if not isinstance(pat, VStr):
        it.raise_(TypeError, "first argument must be string or compiled pattern")
    if not isinstance(s, VStr):
        it.raise_(TypeError, "expected string or bytes-like object")
    # user-supplied pattern: uninterpreted predicate (invalid patterns raise re.error: outside the modelled domain)
    it.assumptions_used.add("re.fullmatch(user pattern, s) is the uninterpreted predicate RE_FULLMATCH(pattern, s); patterns are assumed valid")
    if it.branch(FULLMATCH(pat.e, s.e)):
        return VLib("Match", groups=[], named={}, whole=s)
    return NONE


@handler("re.compile")
def _re_compile(it, self, args, kw):
    return VLib("Pattern", pattern=args[0])


@handler("Pattern.match")
def _pattern_match(it, self, args, kw):
    return match_literal(it, self.f["pattern"].conc, args[0])


@handler("Match.groups")
def _match_groups(it, self, args, kw):
    return VTuple(self.f["groups"])


@handler("Match.group")
def _match_group(it, self, args, kw):
    k = args[0] if args else VInt(0)
    if isinstance(k, VStr):
        if k.conc not in self.f["named"]:
            it.raise_(IndexError, "no such group")
        return self.f["named"][k.conc]
    if k.conc == 0:
        return self.f["whole"]
    if not 1 <= k.conc <= len(self.f["groups"]):
        it.raise_(IndexError, "no such group")
    return self.f["groups"][k.conc - 1]
