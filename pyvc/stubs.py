"""Builtins, operators and the ASSUMED contracts of third-party libraries (DESIGN.md 2.4).

Everything in this file that stands for a library is an assumption, never counted as proved:
each stub records its name in `interp.used_stubs`, and `validate.py` checks the stated laws
differentially against the installed library on every run.
"""
from __future__ import annotations
import ast
import z3

from .values import V, VNone, NONE, VInt, VBool, VBytes, VStr, VFloat, VList, VTuple, VSeq, VDict, DEntry, VObj, \
    VClass, VEnum, VFunc, VBuiltin, VTag, VOpaque, VExc, VLib, PyRaise, OutOfSubset, mk, conc_key, dict_key, SymKey, BSort, SSort

ValSort = z3.DeclareSort("Val")
I, B_, S = z3.IntSort(), z3.BoolSort(), z3.StringSort()

# ---------------------------------------------------------------------------------------------
# uninterpreted spec functions (z3 side); native bindings live in contracts/specs_native.py
# ---------------------------------------------------------------------------------------------
HASH = z3.Function("HASH", S, I, BSort, BSort)  # HASH(algorithm name, digest size, data)
UUID5 = z3.Function("UUID5", BSort, S, BSort)  # UUID5(namespace bytes, name)
UUID5B = z3.Function("UUID5B", BSort, BSort, BSort)
HEX = z3.Function("HEX", BSort, S)  # lower-case hex
UNHEX = z3.Function("UNHEX", S, BSort)
ISHEX = z3.Function("ISHEX", S, B_)  # accepted by binascii.a2b_hex / bytes.fromhex (even length, hex digits)
UPPER = z3.Function("UPPER", S, S)
UTF8 = z3.Function("UTF8", S, BSort)
UTF8DEC = z3.Function("UTF8DEC", BSort, S)
REP = z3.Function("REP", I, I, BSort)  # REP(byte, count)
AESGCM_ENC = z3.Function("AESGCM_ENC", BSort, BSort, BSort, BSort, BSort)  # key, nonce, pt, aad -> ct||tag
STR_OF_INT = z3.IntToStr


def init(it):
    from .ghostfs import GhostFS
    it.fs = GhostFS(it)
    it.hex_files = {}  # path sexpr -> (path term, VLib IntelHex snapshot)
    it.urandom_draws = []
    it.frame_violations = []
    it.loading_depth = 0


def note(it, name):
    it.used_stubs.add(name)


# ---------------------------------------------------------------------------------------------
# names
# ---------------------------------------------------------------------------------------------
import builtins as _bi
import struct as _struct
import binascii as _binascii

_EXC_NAMES = [n for n in dir(_bi) if isinstance(getattr(_bi, n), type) and issubclass(getattr(_bi, n), BaseException)]
_PLAIN_BUILTINS = {"len", "bytes", "int", "str", "bool", "list", "tuple", "dict", "isinstance", "range", "all", "any",
                   "print", "open", "type", "hasattr", "getattr", "setattr", "super", "enumerate", "zip", "min", "max",
                   "sum", "repr", "issubclass", "sorted", "reversed", "float", "object", "set", "frozenset", "hex",
                   "bytearray", "abs", "iter", "next", "callable", "id", "hash", "vars", "dir", "map", "filter", "ord", "chr"}


_SPEC_BUILTINS = {"HASH", "UUID5", "HEX", "ENC", "utf8", "TAG", "NAMESPACE_DNS", "UNHEX", "FILE", "TEXTFILE", "EXISTS", "HEXMAP", "HEX_PUT", "HEX_EMPTY", "HEX_MERGE", "HEX_TOBIN", "HEX_MIN", "HEX_MAX", "HEX_OVERLAP", "HEX_ISEMPTY", "HEX_FILE_OK", "in_version_grammar", "AESGCM_ENC", "KEYS_DIR", "pathstr", "ECDSA_R", "ECDSA_S", "EDDSA_SIG", "SIGN", "KEY_IS_EC", "KEY_SIZE", "KEY_DATA", "KEY_KIND", "PUB_X", "PUB_Y", "PUB_RAW", "PRIV_BYTES", "PUB_BYTES"}


def builtin_name(it, name):
    if name in _SPEC_BUILTINS:
        if name == "NAMESPACE_DNS":
            import uuid
            return VBytes(uuid.NAMESPACE_DNS.bytes)
        return VBuiltin("spec." + name)
    if name in _EXC_NAMES:
        return VClass(py=getattr(_bi, name))
    if name in _PLAIN_BUILTINS:
        return VBuiltin(name)
    return None


def resolve_poison(it, name, v, env):
    return None


def builtin_class(name):
    import enum, abc
    table = {"enum.Enum": enum.Enum, "enum.IntEnum": enum.IntEnum, "abc.ABC": abc.ABC, "dict": dict, "object": object,
             "Exception": Exception}
    if name in table:
        return table[name]
    if name in _EXC_NAMES:
        return getattr(_bi, name)
    raise OutOfSubset(f"base class {name}")


_repo_exc_cache = {}


def repo_exception_class(it, ci):
    """Real Python class of an exception class defined in the repository (hierarchy from its AST bases)."""
    key = (ci.module.name, ci.name)
    if key in _repo_exc_cache:
        return _repo_exc_cache[key]
    bases = []
    for b in ci.bases:
        bases.append(b.py if b.py is not None else repo_exception_class(it, b.info))
    if not bases or not all(isinstance(b, type) and issubclass(b, BaseException) for b in bases):
        raise OutOfSubset(f"{ci.name} is not an exception class")
    cls = type(ci.name, tuple(bases), {"__module__": ci.module.name})
    _repo_exc_cache[key] = cls
    return cls


def lib_exception(name):
    import cbor2, intelhex, json
    table = {
        "cbor2.CBORDecodeError": cbor2.CBORDecodeError,
        "cbor2.CBOREncodeError": cbor2.CBOREncodeError,
        "struct.error": _struct.error,
        "binascii.Error": _binascii.Error,
        "intelhex.AddressOverlapError": intelhex.AddressOverlapError,
        "json.JSONDecodeError": json.JSONDecodeError,
    }
    return table.get(name)


# ---------------------------------------------------------------------------------------------
# arithmetic helpers
# ---------------------------------------------------------------------------------------------
def _ival(x):
    return x.conc if isinstance(x, VInt) and x.conc is not None else None


def euclid(it, a: VInt, b: VInt):
    """(q, r) with a == q*b + r and 0 <= r < b, for b proved > 0 (floor division for positive divisors).

    Memoised per (a, b) term pair so that code and contract clauses talk about the same witnesses."""
    key = (a.e.sexpr(), b.e.sexpr())
    if key in it.euclid:
        return it.euclid[key]
    if b.conc is not None and a.conc is None:
        q, r = VInt(a.e / b.conc), VInt(a.e % b.conc)
    else:
        q = VInt(z3.Int(it.fresh_name("q")))
        r = VInt(z3.Int(it.fresh_name("r")))
        it.assume(a.e == q.e * b.e + r.e)
        it.assume(z3.And(r.e >= 0, r.e < b.e))
    it.euclid[key] = (q, r)
    return q, r


def int_div_mod(it, a: VInt, b: VInt):
    if a.conc is not None and b.conc is not None:
        if b.conc == 0:
            it.raise_(ZeroDivisionError, "division by zero")
        return VInt(a.conc // b.conc), VInt(a.conc % b.conc)
    if it.pure:
        return euclid(it, a, b)  # clauses are total: division by a non-positive divisor is unspecified
    if it.branch(b.e == 0):
        it.raise_(ZeroDivisionError, "division by zero")
    if not it.branch(b.e > 0):
        raise OutOfSubset("floor division by a possibly negative divisor")
    return euclid(it, a, b)


def byte_decomp(it, v: VInt, n: int, order: str):
    """n byte terms (big-endian order in the returned list) with v == sum b_i*256**i whenever 0 <= v < 256**n
    (the defining facts are guarded by the range, so an out-of-range use in a total clause stays consistent)."""
    if v.conc is not None:
        bs = v.conc.to_bytes(n, "big")
        return [VInt(x) for x in bs]
    key = ("bytes", v.e.sexpr(), n)
    if key not in it.euclid:
        bs = [z3.Int(it.fresh_name(f"byte{i}")) for i in range(n)]  # bs[0] most significant
        for x in bs:
            it.assume(z3.And(x >= 0, x <= 255))
        it.assume(z3.Implies(z3.And(v.e >= 0, v.e < 256 ** n), v.e == z3.Sum([bs[i] * (256 ** (n - 1 - i)) for i in range(n)])))
        it.euclid[key] = [VInt(x) for x in bs]
    return it.euclid[key]


def bytes_from_ints(ints):
    if all(i.conc is not None for i in ints):
        return VBytes(bytes(i.conc for i in ints))
    if not ints:
        return VBytes(b"")
    units = [z3.Unit(i.e) for i in ints]
    return VBytes(units[0] if len(units) == 1 else z3.Concat(*units))


def int_to_bytes(it, v: VInt, n: VInt, order: str, signed=False):
    if signed:
        raise OutOfSubset("to_bytes(signed=True)")
    if n.conc is None:
        # symbolic length: one path per feasible value (the executor forks; lengths beyond 96 bytes are outside the subset)
        if it.pure:
            raise OutOfSubset("to_bytes with symbolic length in a clause")
        if it.branch(n.e < 0):
            it.raise_(ValueError, "length argument must be non-negative")
        for k in range(0, 97):
            if it.branch(n.e == k):
                n = VInt(k)
                break
        else:
            raise OutOfSubset("to_bytes with a symbolic length above 96")
    n = n.conc
    if v.conc is not None:
        try:
            return VBytes(v.conc.to_bytes(n, order))
        except OverflowError:
            if it.pure:
                return VBytes(bytes(n))
            it.raise_(OverflowError, "int too big to convert")
    if not it.pure and not it.branch(z3.And(v.e >= 0, v.e < 256 ** n)):
        it.raise_(OverflowError, "int too big to convert")
    bs = byte_decomp(it, v, n, order)
    if order == "little":
        bs = list(reversed(bs))
    return bytes_from_ints(bs)


def bytes_len(b: VBytes) -> VInt:
    return VInt(len(b.conc)) if b.conc is not None else VInt(z3.Length(b.e))


def bytes_len_k(it, b: VBytes) -> VInt:
    """Length, using syntactic knowledge of concrete lengths where available."""
    if b.conc is not None:
        return VInt(len(b.conc))
    k = it.known_lens.get(b.e.sexpr())
    return VInt(k) if k is not None else VInt(z3.Length(b.e))


def str_len(s: VStr) -> VInt:
    return VInt(len(s.conc)) if s.conc is not None else VInt(z3.Length(s.e))


def concat_bytes(a: VBytes, b: VBytes) -> VBytes:
    if a.conc is not None and b.conc is not None:
        return VBytes(a.conc + b.conc)
    if a.conc == b"":
        return b
    if b.conc == b"":
        return a
    return VBytes(z3.Concat(a.e, b.e))


def concat_str(a: VStr, b: VStr) -> VStr:
    if a.conc is not None and b.conc is not None:
        return VStr(a.conc + b.conc)
    if a.conc == "":
        return b
    if b.conc == "":
        return a
    return VStr(z3.Concat(a.e, b.e))


def rep_bytes(it, byte: int, count: VInt) -> VBytes:
    """bytes([byte]) * count for a symbolic count (negative counts give b'')."""
    if count.conc is not None:
        return VBytes(bytes([byte]) * max(count.conc, 0))
    n = VInt(z3.If(count.e > 0, count.e, 0))
    t = REP(z3.IntVal(byte), n.e)
    it.assume(z3.Length(t) == n.e)
    it.rep_terms = getattr(it, "rep_terms", [])
    it.rep_terms.append((t, byte, n.e))
    return VBytes(t)


def hash_term(it, name: str, size: int, data: VBytes) -> VBytes:
    if data.conc is not None:
        import hashlib
        n = name.lower().replace("-", "")
        if n in ("shake128", "shake256"):
            return VBytes(getattr(hashlib, n.replace("shake", "shake_"))(data.conc).digest(size))
        return VBytes(hashlib.new(n, data.conc).digest())
    t = HASH(z3.StringVal(name), z3.IntVal(size), data.e)
    it.assume(z3.Length(t) == size)
    it.known_lens[t.sexpr()] = size
    note(it, "hashes.Hash")
    return VBytes(t)


def hex_of(it, b: VBytes) -> VStr:
    if b.conc is not None:
        return VStr(b.conc.hex())
    t = HEX(b.e)
    it.assume(z3.Length(t) == 2 * z3.Length(b.e))
    it.assume(UNHEX(t) == b.e)
    it.assume(ISHEX(t))
    return VStr(t)


def upper_of(it, s: VStr) -> VStr:
    if s.conc is not None:
        return VStr(s.conc.upper())
    t = UPPER(s.e)
    it.assume(z3.Length(t) == z3.Length(s.e))
    # hex-digit strings stay hex-digit strings with the same value (law H3, validated)
    it.assume(z3.Implies(ISHEX(s.e), z3.And(ISHEX(t), UNHEX(t) == UNHEX(s.e))))
    return VStr(t)


def unhex_of(it, s: VStr, exc=None) -> VBytes:
    """binascii.a2b_hex / bytes.fromhex on a str: ValueError (binascii.Error is one) unless ISHEX."""
    if s.conc is not None:
        try:
            return VBytes(bytes.fromhex(s.conc) if exc == "fromhex" else _binascii.a2b_hex(s.conc))
        except ValueError:
            it.raise_(_binascii.Error if exc != "fromhex" else ValueError, "non-hexadecimal")
    # structural laws H1/H3: unhex(hex(b)) == b and unhex(upper(hex(b))) == b  (validated differentially)
    inner = s.e
    if z3.is_app(inner) and inner.decl().name() == "UPPER":
        inner = inner.arg(0)
    if z3.is_app(inner) and inner.decl().name() == "HEX":
        return VBytes(inner.arg(0))
    if not it.branch(ISHEX(s.e)):
        it.raise_(_binascii.Error if exc != "fromhex" else ValueError, "non-hexadecimal")
    t = UNHEX(s.e)
    it.assume(2 * z3.Length(t) == z3.Length(s.e))
    return VBytes(t)


def utf8_of(it, s: VStr) -> VBytes:
    if s.conc is not None:
        return VBytes(s.conc.encode("utf-8"))
    t = UTF8(s.e)
    it.assume(z3.Length(t) >= z3.Length(s.e))
    it.assume(UTF8DEC(t) == s.e)
    note(it, "str.encode/utf-8")
    return VBytes(t)


# ---------------------------------------------------------------------------------------------
# operators
# ---------------------------------------------------------------------------------------------
def binop(it, op, a: V, b: V):
    if isinstance(a, VBool) and isinstance(b, VInt) and not isinstance(b, VBool):
        a = it.to_int(a)  # bool OP int is int arithmetic (also for & and |)
    if isinstance(a, VBool) and isinstance(b, (VInt, VBool)) and not isinstance(op, (ast.BitAnd, ast.BitOr)):
        a = it.to_int(a)
    if isinstance(b, VBool) and isinstance(a, VInt):
        b = it.to_int(b)
    if isinstance(a, VInt) and isinstance(b, VInt):
        ca, cb = a.conc, b.conc
        if isinstance(op, ast.Add):
            return VInt(ca + cb) if ca is not None and cb is not None else VInt(a.e + b.e)
        if isinstance(op, ast.Sub):
            return VInt(ca - cb) if ca is not None and cb is not None else VInt(a.e - b.e)
        if isinstance(op, ast.Mult):
            return VInt(ca * cb) if ca is not None and cb is not None else VInt(a.e * b.e)
        if isinstance(op, ast.FloorDiv):
            return int_div_mod(it, a, b)[0]
        if isinstance(op, ast.Mod):
            return int_div_mod(it, a, b)[1]
        if isinstance(op, ast.Pow):
            if ca is not None and cb is not None and cb >= 0:
                return VInt(ca ** cb)
            raise OutOfSubset("symbolic power")
        if isinstance(op, ast.LShift):
            if cb is None or cb < 0:
                raise OutOfSubset("shift by a symbolic/negative amount")
            return VInt(ca << cb) if ca is not None else VInt(a.e * (2 ** cb))
        if isinstance(op, ast.RShift):
            if cb is None or cb < 0:
                raise OutOfSubset("shift by a symbolic/negative amount")
            return VInt(ca >> cb) if ca is not None else VInt(a.e / (2 ** cb))  # z3 int div by positive = floor
        if isinstance(op, ast.BitAnd):
            if ca is not None and cb is not None:
                return VInt(ca & cb)
            if ca is not None:
                a, b, ca, cb = b, a, cb, ca
            if cb is not None and cb < 0 and (-cb) & (-cb - 1) == 0:
                # a & ~(2**k - 1) (the mask is -(2**k)): a rounded DOWN to a multiple of 2**k (floor semantics, any sign of a)
                return VInt(a.e - a.e % (-cb))
            if cb is not None and cb >= 0:
                if cb == 0:
                    return VInt(0)
                if (cb + 1) & cb == 0:  # mask 2**k - 1
                    return VInt(a.e % (cb + 1))
                if cb & (cb - 1) == 0:  # single bit
                    return VInt(z3.If((a.e / cb) % 2 == 1, cb, 0))
                # general mask: sum of single bits
                bits = [1 << i for i in range(cb.bit_length()) if cb >> i & 1]
                return VInt(z3.Sum([z3.If((a.e / m) % 2 == 1, m, 0) for m in bits]))
            raise OutOfSubset("bitwise and of two symbolic ints")
        if isinstance(op, ast.BitOr):
            if ca is not None and cb is not None:
                return VInt(ca | cb)
            raise OutOfSubset("symbolic bitwise or")
        if isinstance(op, ast.BitXor):
            if ca is not None and cb is not None:
                return VInt(ca ^ cb)
            raise OutOfSubset("symbolic xor")
        if isinstance(op, ast.Div):
            return VLib("truediv", a=a, b=b)  # only consumable by math.ceil / math.floor
        return None
    if isinstance(a, VBool) and isinstance(b, VBool) and isinstance(op, (ast.BitAnd, ast.BitOr)):
        f = z3.And if isinstance(op, ast.BitAnd) else z3.Or
        return VBool(f(a.e, b.e))
    if isinstance(a, VBytes) and isinstance(b, VBytes) and isinstance(op, ast.Add):
        return concat_bytes(a, b)
    if isinstance(a, VStr) and isinstance(b, VStr) and isinstance(op, ast.Add):
        return concat_str(a, b)
    if isinstance(op, ast.Mult):
        if isinstance(a, VInt) and not isinstance(b, VInt):
            a, b = b, a
        if isinstance(b, VBool):
            b = it.to_int(b)
        if isinstance(b, VInt):
            if isinstance(a, VBytes):
                if b.conc is not None and a.conc is not None:
                    return VBytes(a.conc * b.conc)
                if a.conc is not None and len(a.conc) == 1:
                    return rep_bytes(it, a.conc[0], b)
                if b.conc is not None:
                    out = VBytes(b"")
                    for _ in range(max(b.conc, 0)):
                        out = concat_bytes(out, a)
                    return out
                raise OutOfSubset("symbolic bytes * symbolic int")
            if isinstance(a, VStr):
                if b.conc is None:
                    raise OutOfSubset("str * symbolic int")
                out = VStr("")
                for _ in range(max(b.conc, 0)):
                    out = concat_str(out, a)
                return out
            if isinstance(a, (VList, VTuple)):
                if b.conc is None:
                    raise OutOfSubset("list * symbolic int")
                items = list(a.items) * max(b.conc, 0)
                return VList(items) if isinstance(a, VList) else VTuple(items)
    if isinstance(op, ast.Add):
        if isinstance(a, VList) and isinstance(b, VList):
            return VList(a.items + b.items)
        if isinstance(a, VTuple) and isinstance(b, VTuple):
            return VTuple(a.items + b.items)
        if isinstance(a, VSeq) and isinstance(b, (VSeq, VList)):
            return VSeq(a.kind, z3.Concat(a.e, seq_term(it, b, a.kind)))
        kinds = (VInt, VBool, VBytes, VStr, VList, VTuple, VNone, VDict)
        if isinstance(a, kinds) and isinstance(b, kinds):
            it.raise_(TypeError, "unsupported operand type(s) for +")
    if isinstance(op, ast.Mod) and isinstance(a, VStr):
        return format_percent(it, a, b)
    if isinstance(op, ast.Div) and isinstance(a, VLib) and a.kind == "Path":
        return path_join(it, a, b)
    if isinstance(op, ast.BitAnd) and (isinstance(a, (VStr, VBytes, VNone, VFloat, VList, VDict, VTuple)) or isinstance(b, (VStr, VBytes, VNone, VFloat, VList, VDict, VTuple))):
        it.raise_(TypeError, "unsupported operand type(s) for &")
    if isinstance(a, VOpaque) or isinstance(b, VOpaque):
        from . import plain
        return plain.binop(it, op, a, b)
    return None


def seq_term(it, v, kind):
    if isinstance(v, VSeq):
        return v.e
    if isinstance(v, VList):
        sort = z3.SeqSort(S if kind == "str" else I)
        if not v.items:
            return z3.Empty(sort)
        units = [z3.Unit(x.e) for x in v.items]
        return units[0] if len(units) == 1 else z3.Concat(*units)
    raise OutOfSubset("sequence term")


def _same_kind_eq(it, a: V, b: V):
    """z3 Bool / python bool for a == b, or None when kinds differ (then not equal)."""
    if isinstance(a, VBool) and isinstance(b, VInt):
        a = it.to_int(a)
    if isinstance(b, VBool) and isinstance(a, VInt):
        b = it.to_int(b)
    if isinstance(a, VInt) and isinstance(b, VInt):
        return (a.conc == b.conc) if a.conc is not None and b.conc is not None else (a.e == b.e)
    if isinstance(a, VBool) and isinstance(b, VBool):
        return (a.conc == b.conc) if a.conc is not None and b.conc is not None else (a.e == b.e)
    if isinstance(a, VBytes) and isinstance(b, VBytes):
        return (a.conc == b.conc) if a.conc is not None and b.conc is not None else (a.e == b.e)
    if isinstance(a, VStr) and isinstance(b, VStr):
        return (a.conc == b.conc) if a.conc is not None and b.conc is not None else (a.e == b.e)
    if isinstance(a, VNone) and isinstance(b, VNone):
        return True
    if isinstance(a, VEnum) and isinstance(b, VEnum):
        return a.cls is b.cls and a.name == b.name
    if isinstance(a, VClass) and isinstance(b, VClass):
        return a == b
    if isinstance(a, (VList, VTuple)) and type(a) is type(b):
        if len(a.items) != len(b.items):
            return False
        conds = []
        for x, y in zip(a.items, b.items):
            c = _same_kind_eq(it, x, y)
            if c is None or c is False:
                return False
            if c is not True:
                conds.append(c)
        return z3.And(*conds) if conds else True
    if isinstance(a, VDict) and isinstance(b, VDict):
        if a.open_ or b.open_:
            raise OutOfSubset("equality of open dicts")
        ka = [k for k, e in a.entries.items()]
        kb = [k for k, e in b.entries.items()]
        if any(e.present is not True for e in list(a.entries.values()) + list(b.entries.values())):
            # decide presence by branching
            ka = it.dict_keys(a)
            kb = it.dict_keys(b)
        if set(map(_hk, ka)) != set(map(_hk, kb)):
            return False
        conds = []
        for k in ka:
            c = _same_kind_eq(it, a.entries[k].value, b.entries[k].value)
            if c is None or c is False:
                return False
            if c is not True:
                conds.append(c)
        return z3.And(*conds) if conds else True
    if isinstance(a, VSeq) and isinstance(b, VSeq):
        return a.e == b.e
    if isinstance(a, VSeq) and isinstance(b, VList) or isinstance(a, VList) and isinstance(b, VSeq):
        s, l = (a, b) if isinstance(a, VSeq) else (b, a)
        return s.e == seq_term(it, l, s.kind)
    if isinstance(a, VTag) and isinstance(b, VTag):
        c1 = _same_kind_eq(it, a.tag, b.tag)
        c2 = _same_kind_eq(it, a.value, b.value)
        if c1 in (None, False) or c2 in (None, False):
            return False
        cs = [c for c in (c1, c2) if c is not True]
        return z3.And(*cs) if cs else True
    if isinstance(a, VObj) and isinstance(b, VObj):
        return a is b
    if isinstance(a, VLib) and isinstance(b, VLib):
        if a.kind == b.kind and a.kind in ("UUID",):
            return _same_kind_eq(it, a.f["bytes"], b.f["bytes"])
        if a.kind == b.kind == "IntelHex":
            return a.f["state"].e == b.f["state"].e
        if a.kind == b.kind == "Path":
            return _same_kind_eq(it, a.f["s"], b.f["s"])
        return a is b
    if isinstance(a, VOpaque) and isinstance(b, VOpaque) and a.kind == b.kind == "hexmap":
        return a.e == b.e
    if isinstance(a, VOpaque) or isinstance(b, VOpaque):
        from . import plain
        return plain.eq(it, a, b)
    return None


def _hk(k):
    return ("id", id(k)) if isinstance(k, V) else k


def compare(it, op, a: V, b: V):
    if isinstance(op, (ast.Eq, ast.NotEq)):
        c = _same_kind_eq(it, a, b)
        if c is None:
            c = False
        if isinstance(op, ast.NotEq):
            c = (not c) if isinstance(c, bool) else z3.Not(c)
        return VBool(c)
    if isinstance(op, (ast.Is, ast.IsNot)):
        if isinstance(a, VNone) or isinstance(b, VNone):
            if isinstance(a, VOpaque) or isinstance(b, VOpaque):
                from . import plain
                c = plain.is_none(it, a if isinstance(a, VOpaque) else b)
            else:
                c = isinstance(a, VNone) and isinstance(b, VNone)
        elif isinstance(a, (VEnum, VClass)) or isinstance(b, (VEnum, VClass)):
            c = _same_kind_eq(it, a, b)
            c = False if c is None else c
        elif isinstance(a, VBool) and isinstance(b, VBool):
            c = _same_kind_eq(it, a, b)
        elif isinstance(a, (VObj, VList, VDict, VLib)) and isinstance(b, (VObj, VList, VDict, VLib)):
            c = a is b
        else:
            raise OutOfSubset(f"`is` on {a!r}, {b!r}")
        if isinstance(op, ast.IsNot):
            c = (not c) if isinstance(c, bool) else z3.Not(c)
        return VBool(c)
    if isinstance(op, (ast.Lt, ast.LtE, ast.Gt, ast.GtE)):
        if isinstance(a, VBool):
            a = it.to_int(a)
        if isinstance(b, VBool):
            b = it.to_int(b)
        if isinstance(a, VInt) and isinstance(b, VInt):
            import operator
            f = {ast.Lt: operator.lt, ast.LtE: operator.le, ast.Gt: operator.gt, ast.GtE: operator.ge}[type(op)]
            if a.conc is not None and b.conc is not None:
                return VBool(f(a.conc, b.conc))
            return VBool(f(a.e, b.e))
        if isinstance(a, VStr) and isinstance(b, VStr) and a.conc is not None and b.conc is not None:
            import operator
            f = {ast.Lt: operator.lt, ast.LtE: operator.le, ast.Gt: operator.gt, ast.GtE: operator.ge}[type(op)]
            return VBool(f(a.conc, b.conc))
        if isinstance(a, (VList, VTuple)) and isinstance(b, (VList, VTuple)) and type(a) is type(b):
            return lex_compare(it, op, a.items, b.items)
        if isinstance(a, VOpaque) or isinstance(b, VOpaque):
            from . import plain
            return plain.order(it, op, a, b)
        kinds = (VInt, VBool, VBytes, VStr, VList, VTuple, VNone, VDict, VFloat)
        if isinstance(a, kinds) and isinstance(b, kinds):
            it.raise_(TypeError, "'<' not supported between instances")
        return None
    if isinstance(op, (ast.In, ast.NotIn)):
        c = contains(it, b, a)
        if isinstance(op, ast.NotIn):
            c = (not c) if isinstance(c, bool) else z3.Not(c)
        return VBool(c)
    return None


def lex_compare(it, op, xs, ys):
    """Lexicographic comparison of two int lists (Python list ordering)."""
    lt_strict = isinstance(op, (ast.Lt, ast.Gt))
    if isinstance(op, (ast.Gt, ast.GtE)):
        xs, ys = ys, xs
    # xs < ys (or <=)
    def rec(i):
        if i == len(xs) and i == len(ys):
            return z3.BoolVal(not lt_strict)
        if i == len(xs):
            return z3.BoolVal(True)
        if i == len(ys):
            return z3.BoolVal(False)
        x, y = xs[i], ys[i]
        if not (isinstance(x, VInt) and isinstance(y, VInt)):
            raise OutOfSubset("lexicographic comparison of non-int elements")
        return z3.Or(x.e < y.e, z3.And(x.e == y.e, rec(i + 1)))
    return VBool(rec(0))


def key_eq(it, k, q: V):
    """Equality of a stored dict key `k` (concrete python key or SymKey) with a query value: True / False / z3 Bool."""
    from .interp import mk_key
    kv = mk_key(k) if k is not None else NONE
    c = _same_kind_eq(it, kv, q)
    return False if c is None else c


def dict_find(it, d: VDict, q: V):
    """Entry of d whose key equals q (branching on symbolic key equalities / presence), or None."""
    dk = dict_key(q)
    if dk is None and not isinstance(q, VNone):
        if isinstance(q, VOpaque):
            return "opaque"
        raise OutOfSubset(f"dict key {q!r}")
    if not isinstance(dk, SymKey) and not any(isinstance(k, SymKey) for k in d.entries):
        e = d.entries.get(dk)
        if e is None and d.open_:
            e = open_dict_entry(it, d, dk)
        if e is None:
            return None
        if e.present is True or it.pure or it.branch(e.present):
            return e
        return None
    if d.open_:
        raise OutOfSubset("symbolic key lookup in an open dict")
    for k, e in list(d.entries.items()):
        c = key_eq(it, k, q)
        if c is False:
            continue
        if e.present is not True:
            c = e.present if c is True else z3.And(e.present, c)
        if c is True or it.branch(c):
            return e
    return None


def contains(it, container: V, item: V):
    if isinstance(container, VLib) and container.kind == "dict_keys":
        container = container.f["dict"]
    if isinstance(container, VLib) and container.kind == "sys.modules":
        # ambient process state: a module may or may not have been registered under this name by an EARLIER request in the same process
        it.trace.append(("sys.modules-lookup", item))
        return z3.Bool(it.fresh_name("already_in_sys_modules"))
    if isinstance(container, VLib) and container.kind in ("RelMap", "KeySet", "RelMapKeys"):
        from . import relmap
        return relmap.contains(it, container, item)
    if isinstance(container, VDict):
        dk = dict_key(item)
        if dk is None and not isinstance(item, VNone):
            if isinstance(item, VOpaque):
                from . import plain
                return plain.in_dict(it, container, item)
            if isinstance(item, (VList, VDict)):
                it.raise_(TypeError, "unhashable type")
            raise OutOfSubset(f"membership of key {item!r} in dict")
        if not isinstance(dk, SymKey) and not any(isinstance(k, SymKey) for k in container.entries):
            if dk in container.entries:
                return container.entries[dk].present
            if container.open_:
                return open_dict_entry(it, container, dk).present
            return False
        if container.open_:
            raise OutOfSubset("symbolic key lookup in an open dict")
        conds = []
        for k, e in container.entries.items():
            c = key_eq(it, k, item)
            if c is False:
                continue
            if e.present is not True:
                c = e.present if c is True else z3.And(e.present, c)
            if c is True:
                return True
            conds.append(c)
        return z3.Or(*conds) if conds else False
    if isinstance(container, (VList, VTuple)):
        conds = []
        for x in container.items:
            c = _same_kind_eq(it, x, item)
            if c is True:
                return True
            if c not in (None, False):
                conds.append(c)
        return z3.Or(*conds) if conds else False
    if isinstance(container, VSeq):
        if container.kind == "str" and isinstance(item, VStr) or container.kind == "int" and isinstance(item, VInt):
            return z3.Contains(container.e, z3.Unit(item.e))
        return False
    if isinstance(container, VStr):
        if not isinstance(item, VStr):
            it.raise_(TypeError, "'in <string>' requires string as left operand")
        if container.conc is not None and item.conc is not None:
            return item.conc in container.conc
        return z3.Contains(container.e, item.e)
    if isinstance(container, VBytes):
        if isinstance(item, VBytes):
            if container.conc is not None and item.conc is not None:
                return item.conc in container.conc
            return z3.Contains(container.e, item.e)
        if isinstance(item, VInt):
            return z3.Contains(container.e, z3.Unit(item.e))
    if isinstance(container, VClass) and container.info is not None and container.info.is_enum:
        return any(m is item for m in it.iterate(container))
    if isinstance(container, VNone):
        it.raise_(TypeError, "argument of type 'NoneType' is not iterable")
    if isinstance(container, VOpaque):
        from . import plain
        return plain.contains(it, container, item)
    raise OutOfSubset(f"membership in {container!r}")


def open_dict_entry(it, d: VDict, ck):
    if d.default_type is None:
        raise OutOfSubset("open dict without a value type")
    from .types import make_value
    present = z3.Bool(it.fresh_name(f"has_{d.name}_{ck}"))
    val = make_value(it, d.default_type, f"{d.name}[{ck!r}]")
    e = DEntry(ck, val, present)
    d.entries[ck] = e
    return e


# ---------------------------------------------------------------------------------------------
# subscripts
# ---------------------------------------------------------------------------------------------
def norm_index(it, i: VInt, length: VInt, exc=IndexError):
    """Python index normalisation with IndexError when out of range; returns a non-negative VInt."""
    if it.pure:
        # clauses are total: an out-of-range index denotes an unspecified value (guard it in the clause)
        if i.conc is not None:
            return i if i.conc >= 0 else VInt(length.e + i.conc)
        return VInt(z3.If(i.e >= 0, i.e, i.e + length.e))
    if i.conc is not None and length.conc is not None:
        n = length.conc
        j = i.conc + n if i.conc < 0 else i.conc
        if not 0 <= j < n:
            it.raise_(exc, "index out of range")
        return VInt(j)
    if i.conc is not None and i.conc >= 0:
        if not it.branch(length.e > i.conc):
            it.raise_(exc, "index out of range")
        return i
    if i.conc is not None and i.conc < 0:
        if not it.branch(length.e >= -i.conc):
            it.raise_(exc, "index out of range")
        return VInt(length.e + i.conc)
    if it.branch(i.e >= 0):
        if not it.branch(i.e < length.e):
            it.raise_(exc, "index out of range")
        return i
    if not it.branch(i.e >= -length.e):
        it.raise_(exc, "index out of range")
    return VInt(i.e + length.e)


def getitem(it, obj: V, key: V) -> V:
    if isinstance(key, VBool):
        key = it.to_int(key)
    if isinstance(obj, VDict):
        if isinstance(key, (VList, VDict)):
            it.raise_(TypeError, "unhashable type")
        e = dict_find(it, obj, key)
        if e == "opaque":
            from . import plain
            return plain.dict_getitem(it, obj, key)
        if e is None:
            it.raise_(KeyError, "key")
        return e.value
    if isinstance(obj, (VList, VTuple)):
        if isinstance(key, VInt):
            if key.conc is None:
                # symbolic index into a known-length list: case split
                n = len(obj.items)
                for j in range(n):
                    if it.branch(z3.Or(key.e == j, key.e == j - n)):
                        return obj.items[j]
                it.raise_(IndexError, "list index out of range")
            j = key.conc
            if not -len(obj.items) <= j < len(obj.items):
                it.raise_(IndexError, "list index out of range")
            return obj.items[j]
        it.raise_(TypeError, "list indices must be integers")
    if isinstance(obj, VBytes):
        if not isinstance(key, VInt):
            it.raise_(TypeError, "byte indices must be integers")
        j = norm_index(it, key, bytes_len(obj))
        return it.index_bytes(obj, j)
    if isinstance(obj, VStr):
        if not isinstance(key, VInt):
            it.raise_(TypeError, "string indices must be integers")
        j = norm_index(it, key, str_len(obj))
        if obj.conc is not None and j.conc is not None:
            return VStr(obj.conc[j.conc])
        return VStr(z3.SubString(obj.e, j.e, 1))
    if isinstance(obj, VSeq):
        if not isinstance(key, VInt):
            it.raise_(TypeError, "list indices must be integers")
        j = norm_index(it, key, VInt(z3.Length(obj.e)))
        t = obj.e[j.e]
        return VStr(t) if obj.kind == "str" else VInt(t)
    if isinstance(obj, VClass) and obj.info is not None and obj.info.is_enum:
        if not isinstance(key, VStr):
            raise OutOfSubset("Enum[...] with non-string")
        for m in it.iterate(obj):
            if key.conc is not None:
                if key.conc == m.name:
                    return m
            elif it.branch(key.e == z3.StringVal(m.name)):
                return m
        it.raise_(KeyError, "enum member")
    if isinstance(obj, VObj):
        f, _ = obj.cls.lookup("__getitem__")
        if f is not None:
            return it.call_function(f.info, [obj, key], {})
        if any(p is dict for p in obj.cls.py_bases()):
            return getitem(it, obj.attrs["__dict_base__"], key)
        it.raise_(TypeError, "object is not subscriptable")
    if isinstance(obj, VNone):
        it.raise_(TypeError, "'NoneType' object is not subscriptable")
    if isinstance(obj, (VInt, VBool, VFloat)):
        it.raise_(TypeError, "object is not subscriptable")
    if isinstance(obj, VLib):
        return lib_getitem(it, obj, key)
    if isinstance(obj, VOpaque):
        from . import plain
        return plain.getitem(it, obj, key)
    raise OutOfSubset(f"subscript of {obj!r}")


def _clamp_slice(it, lo, hi, length: VInt):
    """Python slice bound normalisation -> (start VInt, stop VInt) with 0 <= start, stop <= length."""
    def norm(x, default):
        if x is None or isinstance(x, VNone):
            return default
        if isinstance(x, VBool):
            x = it.to_int(x)
        if not isinstance(x, VInt):
            it.raise_(TypeError, "slice indices must be integers")
        if x.conc is not None and length.conc is not None:
            v = x.conc
            if v < 0:
                v = max(v + length.conc, 0)
            return VInt(min(v, length.conc))
        if x.conc is not None and x.conc >= 0:
            if x.conc == 0 or it.must(length.e >= x.conc):
                return VInt(x.conc)  # the bound is provably within the sequence: no clamping term
            return VInt(z3.If(length.e < x.conc, length.e, z3.IntVal(x.conc)))
        e = x.e
        e = z3.If(e < 0, z3.If(e + length.e < 0, 0, e + length.e), z3.If(e > length.e, length.e, e))
        return VInt(e)
    return norm(lo, VInt(0)), norm(hi, length)


def _flatten_concat(e):
    if z3.is_app(e) and e.decl().kind() == z3.Z3_OP_SEQ_CONCAT:
        out = []
        for ch in e.children():
            out.extend(_flatten_concat(ch))
        return out
    return [e]


def _cat_terms(parts):
    if not parts:
        return z3.Empty(BSort)
    return parts[0] if len(parts) == 1 else z3.Concat(*parts)


def _slice_concat(it, obj: VBytes, lo, hi):
    """Slice of a concatenation whose bounds coincide (syntactically, after simplification) with part boundaries:
    x[len(p1)+..+len(pj):] and x[:len(p1)+..+len(pj)] are answered structurally, which keeps the solver away from
    nested extract/concat reasoning.  Returns None when the bounds do not line up."""
    parts = _flatten_concat(obj.e)
    if len(parts) < 2:
        return None
    def as_term(x):
        if x is None or isinstance(x, VNone):
            return None
        if isinstance(x, VBool):
            x = it.to_int(x)
        return z3.simplify(x.e) if isinstance(x, VInt) else False
    lo_t, hi_t = as_term(lo), as_term(hi)
    if lo_t is False or hi_t is False:
        return None
    sums = [z3.IntVal(0)]
    for p in parts:
        kl = it.known_lens.get(p.sexpr())
        sums.append(z3.simplify(sums[-1] + (z3.IntVal(kl) if kl is not None else z3.Length(p))))
    def boundary(t):
        if t is None:
            return None
        for j, sm in enumerate(sums):
            if z3.eq(sm, t):
                return j
        return -1
    j0 = 0 if lo_t is None else boundary(lo_t)
    j1 = len(parts) if hi_t is None else boundary(hi_t)
    if j0 == -1 or j1 == -1:
        return None
    if j1 < j0:
        return VBytes(b"")
    return VBytes(z3.simplify(_cat_terms(parts[j0:j1])))


def _slice_at_occurrence(it, obj: VBytes, lo, hi):
    """x[r+o : r+o+k] where r was returned by x.find(p1 ++ .. ++ pn) with a proved occurrence (r >= 0) and the bounds coincide with a
    part of the pattern: the slice IS that part.  The equality is proved from the facts recorded by the find stub alone (a small
    query); without a proof the general rule applies."""
    facts = getattr(it, "find_facts", None)
    if not facts or not isinstance(lo, VInt) or not isinstance(hi, VInt) or lo.conc is not None:
        return None
    from . import smt
    for hay, r, parts, local in facts:
        if not z3.eq(hay, obj.e):
            continue
        d = z3.simplify(lo.e - r)
        k = z3.simplify(hi.e - lo.e)
        if not (z3.is_int_value(d) and z3.is_int_value(k)):
            continue
        for off, pt in parts:
            if z3.is_app(pt) and pt.decl().kind() in (z3.Z3_OP_SEQ_UNIT, z3.Z3_OP_SEQ_CONCAT):
                continue  # constant parts: the general rule does
            if z3.is_false(z3.simplify(off == d)):
                continue
            kl = it.known_lens.get(pt.sexpr())
            if kl is not None and kl != k.as_long():
                continue
            goal = z3.And(off == d, z3.Length(pt) == k, lo.e >= 0, hi.e <= z3.Length(obj.e), z3.Extract(obj.e, lo.e, k) == pt)
            if smt.prove(list(it.facts) + list(it.pc), goal, timeout_ms=5000, want_model=False)["status"] == "unsat":
                return VBytes(pt)
    return None


def getslice(it, obj, lo, hi, step):
    if step is not None and not (isinstance(step, VInt) and step.conc == 1) and not isinstance(step, VNone):
        raise OutOfSubset("slice with a step")
    if isinstance(obj, (VList, VTuple)):
        n = len(obj.items)
        a, b = _clamp_slice(it, lo, hi, VInt(n))
        if a.conc is None or b.conc is None:
            raise OutOfSubset("symbolic slice of a list")
        items = obj.items[a.conc:b.conc]
        return VList(items) if isinstance(obj, VList) else VTuple(items)
    if isinstance(obj, VBytes):
        n = bytes_len(obj)
        if obj.conc is None:
            r = _slice_concat(it, obj, lo, hi)
            if r is not None:
                return r
            r = _slice_at_occurrence(it, obj, lo, hi)
            if r is not None:
                return r
        a, b = _clamp_slice(it, lo, hi, n)
        if obj.conc is not None and a.conc is not None and b.conc is not None:
            return VBytes(obj.conc[a.conc:b.conc])
        if a.conc is not None and b.conc is not None:
            r = VBytes(z3.simplify(z3.SubSeq(obj.e, z3.IntVal(a.conc), z3.IntVal(max(b.conc - a.conc, 0)))))
            it.known_lens[r.e.sexpr()] = max(b.conc - a.conc, 0)
            it.assume(z3.Length(r.e) == max(b.conc - a.conc, 0))
            return r
        ln = VInt(z3.If(b.e - a.e > 0, b.e - a.e, 0))
        return VBytes(z3.simplify(z3.SubSeq(obj.e, a.e, ln.e)))
    if isinstance(obj, VStr):
        n = str_len(obj)
        a, b = _clamp_slice(it, lo, hi, n)
        if obj.conc is not None and a.conc is not None and b.conc is not None:
            return VStr(obj.conc[a.conc:b.conc])
        ln = VInt(z3.If(b.e - a.e > 0, b.e - a.e, 0))
        return VStr(z3.SubString(obj.e, a.e, ln.e))
    if isinstance(obj, VSeq):
        a, b = _clamp_slice(it, lo, hi, VInt(z3.Length(obj.e)))
        ln = VInt(z3.If(b.e - a.e > 0, b.e - a.e, 0))
        return VSeq(obj.kind, z3.SubSeq(obj.e, a.e, ln.e))
    if isinstance(obj, VOpaque):
        from . import plain
        return plain.getslice(it, obj, lo, hi)
    if isinstance(obj, (VNone, VInt, VBool)):
        it.raise_(TypeError, "object is not subscriptable")
    raise OutOfSubset(f"slice of {obj!r}")


def mark_global_write(it, obj, what):
    if getattr(obj, "global_", False):
        it.frame_violations.append(f"write to module/class-level {what} created at import time")


def setitem(it, obj, key, val):
    if isinstance(obj, VDict):
        if obj.frozen:
            it.raise_(TypeError, "'cbor2.frozendict' object does not support item assignment")
        mark_global_write(it, obj, "dict")
        if isinstance(key, (VList, VDict)):
            it.raise_(TypeError, "unhashable type")
        dk = dict_key(key)
        if dk is None and not isinstance(key, VNone):
            raise OutOfSubset(f"dict store with key {key!r}")
        symbolic = isinstance(dk, SymKey) or any(isinstance(k, SymKey) for k in obj.entries)
        if not symbolic:
            if dk in obj.entries:
                e = obj.entries[dk]
                if e.present is not True:
                    # a key that was (possibly) present keeps its position; an absent key is appended
                    if it.branch(e.present):
                        e.value, e.present = val, True
                    else:
                        del obj.entries[dk]
                        obj.entries[dk] = DEntry(dk, val)
                else:
                    e.value = val
            else:
                obj.entries[dk] = DEntry(dk, val)
            return
        e = dict_find(it, obj, key)
        if e is not None and e != "opaque":
            e.value, e.present = val, True
        else:
            obj.entries[dk] = DEntry(dk, val)
        return
    if isinstance(obj, VList):
        mark_global_write(it, obj, "list")
        if not isinstance(key, VInt) or key.conc is None:
            raise OutOfSubset("list store with symbolic index")
        if not -len(obj.items) <= key.conc < len(obj.items):
            it.raise_(IndexError, "list assignment index out of range")
        obj.items[key.conc] = val
        return
    if isinstance(obj, VTuple):
        it.raise_(TypeError, "'tuple' object does not support item assignment")
    if isinstance(obj, (VBytes, VStr)):
        it.raise_(TypeError, "object does not support item assignment")
    if isinstance(obj, VObj):
        f, _ = obj.cls.lookup("__setitem__")
        if f is not None:
            it.call_function(f.info, [obj, key, val], {})
            return
        if "__dict_base__" in obj.attrs:
            return setitem(it, obj.attrs["__dict_base__"], key, val)
    if isinstance(obj, VLib):
        return lib_setitem(it, obj, key, val)
    if isinstance(obj, VOpaque):
        from . import plain
        return plain.setitem(it, obj, key, val)
    raise OutOfSubset(f"item assignment on {obj!r}")


# ---------------------------------------------------------------------------------------------
# formatting
# ---------------------------------------------------------------------------------------------
def to_str(it, v: V) -> VStr:
    if isinstance(v, VStr):
        return v
    if isinstance(v, VBool):
        if v.conc is not None:
            return VStr(str(v.conc))
        return VStr(z3.If(v.e, z3.StringVal("True"), z3.StringVal("False")))
    if isinstance(v, VInt):
        if v.conc is not None:
            return VStr(str(v.conc))
        # z3 IntToStr is defined for non-negative ints only
        return VStr(z3.If(v.e >= 0, z3.IntToStr(v.e), z3.Concat(z3.StringVal("-"), z3.IntToStr(-v.e))))
    if isinstance(v, VNone):
        return VStr("None")
    if isinstance(v, VEnum):
        f, _ = v.cls.lookup("__str__")
        if f is not None:
            r = it.call_function(f.info, [v], {})
            return r
        return VStr(f"{v.cls.name}.{v.name}")
    # anything else: an unconstrained string (messages of exceptions/logs); sound because nothing is known about it
    return it.fresh_str("strof")


def to_repr(it, v: V) -> VStr:
    if isinstance(v, (VInt, VBool, VNone)):
        return to_str(it, v)
    if isinstance(v, VStr) and v.conc is not None:
        return VStr(repr(v.conc))
    return it.fresh_str("reprof")


def format_value(it, v: V, spec) -> VStr:
    if spec in (None, ""):
        return to_str(it, v)
    if isinstance(v, VInt) and v.conc is not None:
        return VStr(format(v.conc, spec))
    if isinstance(v, VStr) and v.conc is not None:
        return VStr(format(v.conc, spec))
    if isinstance(v, VInt):
        return VStr(z3.Function("FORMAT_" + spec.replace(" ", "_"), I, S)(v.e))
    return it.fresh_str("fmt")


def format_percent(it, fmt: VStr, arg: V) -> VStr:
    args = arg.items if isinstance(arg, VTuple) else [arg]
    if fmt.conc is not None and all(isinstance(a, (VInt, VStr)) and a.conc is not None for a in args):
        return VStr(fmt.conc % tuple(a.conc for a in args))
    return it.fresh_str("pct")


# ---------------------------------------------------------------------------------------------
# context managers / files (ghost file system)
# ---------------------------------------------------------------------------------------------
def path_term(it, p: V):
    if isinstance(p, VStr):
        return p.e
    if isinstance(p, VLib) and p.kind == "Path":
        return p.f["s"].e
    if isinstance(p, VOpaque):
        raise OutOfSubset("opaque path")
    if isinstance(p, (VNone, VInt, VBool, VBytes, VList, VDict)):
        it.raise_(TypeError, "expected str, bytes or os.PathLike object")
    raise OutOfSubset(f"path {p!r}")


def path_join(it, a, b):
    sa = a.f["s"] if isinstance(a, VLib) else a
    if isinstance(b, VLib) and b.kind == "Path":
        b = b.f["s"]
    if isinstance(b, VOpaque):
        from . import plain
        b = plain.resolve(it, b)  # a decoded (JSON / CBOR) value: one kind per path
    if not isinstance(b, VStr):
        it.raise_(TypeError, "unsupported operand type(s) for /")
    note(it, "pathlib./ modelled as a + '/' + b (relative second component)")
    return VLib("Path", s=concat_str(concat_str(sa, VStr("/")), b))


def fs_exists(it, p):
    return it.fs.exists(path_term(it, p))


def fs_read(it, p, binary=True):
    note(it, "open/read (ghost file system)")
    pt = path_term(it, p)
    if not it.branch(it.fs.exists(pt)):
        it.raise_(FileNotFoundError, "No such file or directory")
    it.trace.append(("read", pt))
    if binary:
        t = it.fs.read_bin(pt)
        bound = getattr(it, "fs_len_bound", None)
        if bound is not None:
            it.assume(z3.Length(t) < bound)  # input assumption of the contract being verified (listed there)
        return VBytes(t)
    return VStr(it.fs.read_txt(pt))


def fs_write(it, p, content: V, binary=True):
    note(it, "open/write (ghost file system)")
    pt = path_term(it, p)
    if binary:
        if not isinstance(content, VBytes):
            it.raise_(TypeError, "a bytes-like object is required")
        it.fs.write(pt, "b", content.e)
        it.trace.append(("write", pt, content, "b"))
    else:
        if not isinstance(content, VStr):
            it.raise_(TypeError, "write() argument must be str")
        it.fs.write(pt, "t", content.e)
        it.trace.append(("write", pt, content, "t"))


def open_file(it, args, kwargs):
    p = args[0]
    mode = args[1] if len(args) > 1 else kwargs.get("mode", VStr("r"))
    if not isinstance(mode, VStr) or mode.conc is None:
        raise OutOfSubset("open() with symbolic mode")
    m = mode.conc
    pt = path_term(it, p)
    fh = VLib("File", path=p, mode=m, closed=False)
    if "r" in m:
        if not it.branch(it.fs.exists(pt)):
            it.raise_(FileNotFoundError, "No such file or directory")
    elif "w" in m:
        # opening for writing creates/truncates the file immediately; the directory may not exist
        dir_ok = z3.Bool(it.fresh_name("dir_exists"))
        if not it.branch(dir_ok):
            it.raise_(FileNotFoundError, "No such file or directory (parent)")
        it.trace.append(("open-w", pt))
        if "b" in m:
            it.fs.write(pt, "b", z3.Empty(BSort))
        else:
            it.fs.write(pt, "t", z3.StringVal(""))
        fh.f["written"] = VBytes(b"") if "b" in m else VStr("")
    elif "a" in m:
        # append: the file keeps whatever it already holds (ghost FS content on entry is arbitrary), writes go after it
        dir_ok = z3.Bool(it.fresh_name("dir_exists"))
        if not it.branch(dir_ok):
            it.raise_(FileNotFoundError, "No such file or directory (parent)")
        it.trace.append(("open-a", pt))
        if it.branch(it.fs.exists(pt)):
            fh.f["written"] = fs_read(it, p, binary="b" in m)
        else:
            if "b" in m:
                it.fs.write(pt, "b", z3.Empty(BSort))
            else:
                it.fs.write(pt, "t", z3.StringVal(""))
            fh.f["written"] = VBytes(b"") if "b" in m else VStr("")
    else:
        raise OutOfSubset(f"open mode {m}")
    return fh


def ctx_enter(it, cm):
    if isinstance(cm, VLib) and cm.kind == "File":
        return cm
    raise OutOfSubset(f"context manager {cm!r}")


def ctx_exit(it, cm):
    if isinstance(cm, VLib) and cm.kind == "File":
        cm.f["closed"] = True
        return
    raise OutOfSubset(f"context manager {cm!r}")


def file_method(it, fh: VLib, name, args, kwargs):
    m = fh.f["mode"]
    if name == "read":
        if args:
            raise OutOfSubset("read(n)")
        return fs_read(it, fh.f["path"], binary="b" in m)
    if name == "write":
        cur = fh.f["written"]
        x = args[0]
        if "b" in m:
            if not isinstance(x, VBytes):
                it.raise_(TypeError, "a bytes-like object is required")
            new = concat_bytes(cur, x)
        else:
            if not isinstance(x, VStr):
                it.raise_(TypeError, "write() argument must be str")
            new = concat_str(cur, x)
        fh.f["written"] = new
        fs_write(it, fh.f["path"], new, binary="b" in m)
        return bytes_len(x) if isinstance(x, VBytes) else str_len(x)
    if name == "readlines":
        txt = fs_read(it, fh.f["path"], binary=False)
        LINES = z3.Function("LINES", S, z3.SeqSort(S))
        return VSeq("str", LINES(txt.e))
    if name == "close":
        return NONE
    raise OutOfSubset(f"file.{name}")


# ---------------------------------------------------------------------------------------------
# attribute access on builtin values and library modules
# ---------------------------------------------------------------------------------------------
_TYPE_PREFIX = {VBytes: "bytes", VStr: "str", VInt: "int", VBool: "int", VList: "list", VTuple: "tuple", VDict: "dict",
                VSeq: "seq", VFloat: "float"}

MODULE_CONSTANTS = {}


def _module_constants():
    if MODULE_CONSTANTS:
        return MODULE_CONSTANTS
    import string, uuid
    MODULE_CONSTANTS.update({
        "string.hexdigits": mk(string.hexdigits),
        "string.ascii_letters": mk(string.ascii_letters),
        "string.digits": mk(string.digits),
        "uuid.NAMESPACE_DNS": VLib("UUID", bytes=VBytes(uuid.NAMESPACE_DNS.bytes)),
        "uuid.NAMESPACE_URL": VLib("UUID", bytes=VBytes(uuid.NAMESPACE_URL.bytes)),
        "uuid.NAMESPACE_OID": VLib("UUID", bytes=VBytes(uuid.NAMESPACE_OID.bytes)),
        "uuid.NAMESPACE_X500": VLib("UUID", bytes=VBytes(uuid.NAMESPACE_X500.bytes)),
        "logging.ERROR": mk(40), "logging.WARNING": mk(30), "logging.INFO": mk(20), "logging.DEBUG": mk(10),
        "os.sep": mk("/"),
    })
    return MODULE_CONSTANTS


def getattr_builtin(it, obj: V, name: str) -> V:
    for t, prefix in _TYPE_PREFIX.items():
        if isinstance(obj, t):
            return VBuiltin(f"{prefix}.{name}", self_obj=obj)
    if isinstance(obj, VBuiltin) and obj.self_obj is None:
        full = f"{obj.name}.{name}"
        consts = _module_constants()
        if full in consts:
            return consts[full]
        exc = lib_exception(full)
        if exc is not None:
            return VClass(py=exc)
        if full == "os.environ":
            return VLib("environ")
        if full == "sys.modules":
            return VLib("sys.modules")
        return VBuiltin(full)
    if isinstance(obj, VLib):
        return lib_getattr(it, obj, name)
    if isinstance(obj, VNone):
        it.raise_(AttributeError, f"'NoneType' object has no attribute '{name}'")
    if isinstance(obj, VFunc):
        if name == "__name__":
            return mk(obj.info.name)
    if isinstance(obj, VClass) and obj.py is not None:
        if name == "__name__":
            return mk(obj.py.__name__)
        return VBuiltin(f"{obj.py.__module__}.{obj.py.__name__}.{name}")
    if isinstance(obj, VOpaque):
        from . import plain
        return plain.getattr_(it, obj, name)
    raise OutOfSubset(f"attribute {name} of {obj!r}")


def setattr_builtin(it, obj, name, val):
    if isinstance(obj, VLib):
        if obj.kind == "IntelHex" and name == "padding":
            obj.f["padding"] = val
            return
        if obj.kind == "ConfigParser" and name == "optionxform":
            return
    if isinstance(obj, (VNone, VInt, VStr, VBytes, VBool)):
        it.raise_(AttributeError, f"object has no attribute '{name}'")
    raise OutOfSubset(f"attribute store {name} on {obj!r}")


def obj_getattr(it, obj, name):
    if "__dict_base__" in obj.attrs:
        return VBuiltin(f"dict.{name}", self_obj=obj.attrs["__dict_base__"])
    return None


def class_getattr(it, vc, name):
    return None


def init_py_base(it, obj, pybases, args, kwargs):
    if dict in pybases:
        obj.attrs["__dict_base__"] = VDict()
    return None


def instantiate_py(it, py, args, kwargs):
    if isinstance(py, type) and issubclass(py, BaseException):
        return VExc(py, tuple(args))
    raise OutOfSubset(f"instantiation of {py}")


def iterate_symbolic(it, v, unpack):
    if isinstance(v, VSeq) and unpack is not None:
        n = z3.Length(v.e)
        if not it.branch(n == unpack):
            it.raise_(ValueError, "too many / not enough values to unpack")
        return [VStr(v.e[i]) if v.kind == "str" else VInt(v.e[i]) for i in range(unpack)]
    if isinstance(v, VOpaque):
        from . import plain
        return plain.iterate(it, v, unpack)
    return None


def symbolic_comprehension(it, n, env):
    from . import elementwise, relmap
    r = relmap.try_comprehension(it, n, env)
    if r is not None:
        return r
    return elementwise.try_comprehension(it, n, env)


# The remaining parts (call_builtin, library object models) live in stubs_lib to keep files readable.
from .stubs_lib import call_builtin, lib_getattr, lib_getitem, lib_setitem  # noqa: E402,F401
from . import restubs  # noqa: E402,F401  (registers the `re` handlers)
