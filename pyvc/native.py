"""Native (CPython) evaluation of contracts on the REAL functions of the tree under test.

Used for (a) replay of solver counterexamples and (b) the bounded stand-ins (run-time contract checking).
The clause texts are the same strings the VC generator translates; here they are `eval`-ed with the spec
functions of contracts/specs.py imported natively and the uninterpreted functions bound to independent
implementations (hashlib, uuid via sha1, own CBOR encoder).
"""
from __future__ import annotations
import ast
import copy
import importlib
import os
import sys

from . import front

_spec_ns = None


def ensure_repo_on_path():
    repo = front.REPO
    if sys.path[0] != repo:
        sys.path.insert(0, repo)
    import suit_generator
    f = os.path.realpath(suit_generator.__file__)
    if not f.startswith(os.path.realpath(repo) + os.sep):
        raise RuntimeError(f"suit_generator imported from {f}, expected under {repo}")


def install_log_shim():
    """log_call costs ~50x (inspect.stack per call); replace the module attribute `inspect` of suit_generator.logger
    in THIS process by a stub (no repository change). One case in 50 is run without the shim by callers."""
    import suit_generator.logger as lg

    class _FI:
        filename, function, lineno = "?", "?", 0

    class _Shim:
        @staticmethod
        def stack():
            return [None, (None,)]

        @staticmethod
        def getframeinfo(frame):
            return _FI

    if not isinstance(lg.inspect, type) or lg.inspect is not _Shim:
        lg._real_inspect = getattr(lg, "_real_inspect", lg.inspect)
        lg.inspect = _Shim


def remove_log_shim():
    import suit_generator.logger as lg
    if hasattr(lg, "_real_inspect"):
        lg.inspect = lg._real_inspect


def spec_namespace():
    global _spec_ns
    if _spec_ns is None:
        from contracts import specs, specs_native
        # the spec functions of specs.py use ENC / UUID5 / HASH ... as free names: bind them in THAT module to the native implementations
        for k, v in vars(specs_native).items():
            if not k.startswith("__") and not hasattr(specs, k):
                setattr(specs, k, v)
        ns = {}
        ns.update({k: v for k, v in vars(specs).items() if not k.startswith("__")})
        ns.update({k: v for k, v in vars(specs_native).items() if not k.startswith("__")})
        _spec_ns = ns
    return dict(_spec_ns)


def resolve_function(relpath, qualname):
    ensure_repo_on_path()
    mod = importlib.import_module(front.relpath_to_module(relpath))
    obj = mod
    for p in qualname.split("."):
        obj = getattr(obj, p)
    return mod, obj


def resolve_exception_native(name):
    import builtins
    if hasattr(builtins, name):
        return getattr(builtins, name)
    from . import stubs
    e = stubs.lib_exception(name)
    if e is not None:
        return e
    ensure_repo_on_path()
    table = {"GeneratorError": "suit_generator.exceptions", "SUITError": "suit_generator.exceptions",
             "SignerError": "ncs.sign_script", "FileTypeException": "suit_generator.input_output"}
    return getattr(importlib.import_module(table[name]), name)


class _OldRewriter(ast.NodeTransformer):
    """old(<expr>)  ->  __old__[k]   (the sub-expression is evaluated in the entry state beforehand)."""

    def __init__(self):
        self.olds = []

    def visit_Call(self, node):
        if isinstance(node.func, ast.Name) and node.func.id == "old" and len(node.args) == 1:
            self.olds.append(ast.Expression(body=node.args[0]))
            return ast.Call(func=ast.Name(id="__oldeval__", ctx=ast.Load()), args=[ast.Constant(value=len(self.olds) - 1)], keywords=[])
        return self.generic_visit(node)


def compile_clause(text):
    tree = ast.parse(text, mode="eval")
    rw = _OldRewriter()
    tree = ast.fix_missing_locations(rw.visit(tree))
    code = compile(tree, "<clause>", "eval")
    olds = [compile(ast.fix_missing_locations(o), "<old>", "eval") for o in rw.olds]
    return code, olds


def build_obj(relpath, clsname, attrs):
    ensure_repo_on_path()
    mod = importlib.import_module(front.relpath_to_module(relpath))
    cls = getattr(mod, clsname)
    o = object.__new__(cls)
    for k, v in attrs.items():
        setattr(o, k, v)
    return o


class NativeResult:
    def __init__(self):
        self.skipped = False  # precondition false
        self.outcome = None
        self.failures = []  # [(label, message)]
        self.result = None
        self.exc = None


def run_case(c, inputs: dict, call=None, extra_ns=None) -> NativeResult:
    """Call the real function under contract c with native `inputs` (param name -> value) and check every clause."""
    nr = NativeResult()
    ns = spec_namespace()
    if extra_ns:
        ns.update(extra_ns)
    ns.update(inputs)
    # lets (entry state)
    for name, cl in c.lets:
        ns[name] = eval(compile_clause(cl.text)[0], ns)
    for cl in c.requires_:
        if not eval(compile_clause(cl.text)[0], ns):
            nr.skipped = True
            return nr
    compiled = {}
    for cl in c.returns_:
        text = cl.extra.get("native", cl.text)
        compiled[cl.label] = compile_clause(text)
    rs_compiled = []
    for rs in c.raises_:
        rs_compiled.append((rs, compile_clause(rs.when.text) if rs.when else None, [compile_clause(e.text) for e in rs.ensures]))
    post_lets = [(n, compile_clause(cl.text)) for n, cl in c.post_lets]
    # old(...) sub-expressions are evaluated LAZILY in a deep copy of the entry state (so that a guard such as
    # `not old(k in d) or old(d[k]) == ...` short-circuits), with a snapshot of the files named by the inputs
    ns_old = {}
    for k, v in ns.items():
        try:
            ns_old[k] = copy.deepcopy(v) if k in inputs or k in [n for n, _ in c.lets] else v
        except Exception:
            ns_old[k] = v
    snap = {}
    def _snap(v):
        if isinstance(v, str) and v and os.path.isfile(v):
            try:
                with open(v, "rb") as fh:
                    snap[v] = fh.read()
            except OSError:
                pass
        elif isinstance(v, (list, tuple)):
            for x in v:
                _snap(x)
        elif isinstance(v, dict):
            for x in v.values():
                _snap(x)
    for v in inputs.values():
        _snap(v)
    ns_old["FILE"] = lambda p: snap[p]
    ns_old["TEXTFILE"] = lambda p: snap[p].decode()
    ns_old["EXISTS"] = lambda p: p in snap
    def make_oldeval(cc):
        return lambda k: eval(cc[1][k], ns_old)
    when_vals = [bool(eval(w[0], ns)) if w is not None else None for _, w, _ in rs_compiled]
    if call is None:
        _, fn = resolve_function(c.file, c.func)
        import inspect as _inspect
        names = [n for n, _ in c.params]
        if names and names[0] == "cls" and _inspect.ismethod(fn):
            names = names[1:]  # classmethods are already bound to their class
        def call(inp):
            return fn(**{n: inp[n] for n in names}) if getattr(c, "call_by_keyword", False) else fn(*[inp[n] for n in names])
    try:
        result = call(inputs)
        nr.outcome = "return"
        nr.result = result
    except BaseException as e:  # noqa: BLE001 - every escape (incl. SystemExit) is classified below
        if isinstance(e, KeyboardInterrupt) or type(e).__name__ == "_Timeout":
            raise
        nr.outcome = "raise"
        nr.exc = e
    if nr.outcome == "return":
        ns["result"] = nr.result
        for gname, _, _, gnative in c.ghost_outs:
            try:
                ns[gname] = eval(gnative, ns)
            except Exception as e:  # noqa: BLE001
                nr.failures.append((f"ghost:{gname}", f"witness expression raised {type(e).__name__}: {e}"))
                return nr
        for i, (n, cc) in enumerate(post_lets):
            ns["__oldeval__"] = make_oldeval(cc)
            ns[n] = eval(cc[0], ns)
        for i, w in enumerate(when_vals):
            if w is True and rs_compiled[i][0].must:
                nr.failures.append((f"must-raise:{rs_compiled[i][0].label}", "returned normally although the stated condition held"))
        for lab, cc in compiled.items():
            ns["__oldeval__"] = make_oldeval(cc)
            try:
                ok = bool(eval(cc[0], ns))
            except Exception as e:  # clause not evaluable = result has the wrong shape
                ok = False
                nr.failures.append((f"post:{lab}", f"clause raised {type(e).__name__}: {e}"))
                continue
            if not ok:
                nr.failures.append((f"post:{lab}", "postcondition false"))
    else:
        allowed = None
        # several clauses may permit the same exception type (duplicate URI / padding too large): the clause that applies is the first whose stated
        # condition holds (or that states none); only if none does, the first clause of that type is reported as violated
        first = None
        for i, (rs, w, ens) in enumerate(rs_compiled):
            if isinstance(nr.exc, resolve_exception_native(rs.exc)):
                first = i if first is None else first
                if when_vals[i] is not False:
                    allowed = i
                    break
        if allowed is None:
            allowed = first
        if allowed is None:
            nr.failures.append(("raises", f"escaping {type(nr.exc).__name__}: {str(nr.exc)[:200]}"))
        else:
            rs, w, ens = rs_compiled[allowed]
            if when_vals[allowed] is False:
                nr.failures.append((f"raises-only-when:{rs.label}", f"{type(nr.exc).__name__} although the stated condition did not hold"))
            for j, e in enumerate(ens):
                ns["__oldeval__"] = make_oldeval(e)
                if not eval(e[0], ns):
                    nr.failures.append((f"raises-ensures:{rs.label}.{j}", "state changed on rejection"))
    return nr
