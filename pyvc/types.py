"""Types of symbolic inputs / results used by contracts, and construction of symbolic values from them."""
from __future__ import annotations
import z3

from .values import V, VNone, NONE, VInt, VBool, VBytes, VStr, VFloat, VList, VTuple, VSeq, VDict, DEntry, VObj, \
    VClass, VEnum, VFunc, VBuiltin, VTag, VOpaque, VExc, VLib, PyRaise, OutOfSubset, mk, conc_key, BSort, SSort


class T:
    pass


class Int(T):
    def __init__(self, lo=None, hi=None):
        self.lo, self.hi = lo, hi


class Bool(T):
    pass


class Bytes(T):
    def __init__(self, length=None):
        self.length = length


class Str(T):
    pass


class NoneT(T):
    pass


class PathStr(T):
    """A str naming a file in the ghost file system. exists: True / False / None (either)."""

    def __init__(self, exists=None):
        self.exists = exists


class Const(T):
    def __init__(self, value):
        self.value = value


class Opt(T):
    def __init__(self, t):
        self.t = t


class OneOf(T):
    """Case split over alternatives (types or concrete values); every alternative is explored."""

    def __init__(self, *alts):
        self.alts = alts


class ListT(T):
    def __init__(self, elems):
        self.elems = elems


class TupleT(T):
    def __init__(self, elems):
        self.elems = elems


class SeqStr(T):
    """list[str] of symbolic length."""


class DictT(T):
    def __init__(self, required=None, optional=None, open_=False, default=None, frozen=False):
        self.required = required or {}
        self.optional = optional or {}
        self.open_ = open_
        self.default = default
        self.frozen = frozen


class Obj(T):
    def __init__(self, relpath, cls, **attrs):
        self.relpath, self.cls, self.attrs = relpath, cls, attrs


class EnumT(T):
    def __init__(self, relpath, cls, members=None):
        self.relpath, self.cls, self.members = relpath, cls, members


class TagT(T):
    def __init__(self, tag, t):
        self.tag, self.t = tag, t


class Enc(T):
    """bytes that are ENC(v) for a v of type t (law A1 makes cbor2.loads of them return v)."""

    def __init__(self, t):
        self.t = t


class Lib(T):
    def __init__(self, kind, **fields):
        self.kind, self.fields = kind, fields


class Computed(T):
    """A value built by fn(it, env) from the ghosts / earlier parameters (e.g. an envelope assembled from ghost parts)."""

    def __init__(self, fn):
        self.fn = fn


class ClsT(T):
    """A reference to a repository class (first argument of a classmethod)."""

    def __init__(self, relpath, cls):
        self.relpath, self.cls = relpath, cls


class Any(T):
    """An arbitrary decoded CBOR value (Plain sum)."""


MAXLEN = 2 ** 63


def make_value(it, t, name: str) -> V:
    if isinstance(t, type) and issubclass(t, T):
        t = t()
    if isinstance(t, Computed):  # a type chosen at instantiation time (e.g. depending on which contract is being verified)
        r = t.fn(it, None)
        return make_value(it, r, name) if isinstance(r, T) else r
    if isinstance(t, Int):
        return it.fresh_int(name, t.lo, t.hi)
    if isinstance(t, Bool):
        return it.fresh_bool(name)
    if isinstance(t, Bytes):
        b = it.fresh_bytes(name, t.length)
        it.assume(z3.Length(b.e) < MAXLEN)
        return b
    if isinstance(t, Str):
        s = it.fresh_str(name)
        it.assume(z3.Length(s.e) < MAXLEN)
        return s
    if isinstance(t, PathStr):
        s = it.fresh_str(name)
        it.assume(z3.Length(s.e) < MAXLEN)
        it.assume(z3.Length(s.e) > 0)
        if t.exists is True:
            it.assume(it.fs.exists(s.e))
        elif t.exists is False:
            it.assume(z3.Not(it.fs.exists(s.e)))
        it.path_params = getattr(it, "path_params", {})
        it.path_params[name] = s
        return s
    if isinstance(t, NoneT):
        return NONE
    if isinstance(t, Const):
        return mk(t.value) if not isinstance(t.value, V) else t.value
    if isinstance(t, Opt):
        if it.choose(2, f"{name}_isnone") == 0:
            return NONE
        return make_value(it, t.t, name)
    if isinstance(t, OneOf):
        i = it.choose(len(t.alts), f"{name}_alt")
        a = t.alts[i]
        if isinstance(a, T) or (isinstance(a, type) and issubclass(a, T)):
            return make_value(it, a, name)
        return mk(a)
    if isinstance(t, ListT):
        return VList([make_value(it, e, f"{name}[{i}]") for i, e in enumerate(t.elems)])
    if isinstance(t, TupleT):
        return VTuple([make_value(it, e, f"{name}[{i}]") for i, e in enumerate(t.elems)])
    if isinstance(t, SeqStr):
        return VSeq("str", z3.Const(it.fresh_name(name), z3.SeqSort(SSort)))
    if isinstance(t, DictT):
        d = VDict(open_=t.open_, default_type=t.default, name=name, frozen=t.frozen)
        for k, vt in t.required.items():
            d.entries[k] = DEntry(k, make_value(it, vt, f"{name}[{k!r}]"), True)
        for k, vt in t.optional.items():
            d.entries[k] = DEntry(k, make_value(it, vt, f"{name}[{k!r}]"), z3.Bool(it.fresh_name(f"has_{name}_{k}")))
        return d
    if isinstance(t, Obj):
        ci = it.get_class(t.relpath, t.cls)
        o = VObj(ci)
        for an, at in t.attrs.items():
            o.attrs[an] = make_value(it, at, f"{name}.{an}")
        return o
    if isinstance(t, EnumT):
        ci = it.get_class(t.relpath, t.cls)
        members = it.iterate(VClass(info=ci))
        if t.members is not None:
            members = [m for m in members if m.name in t.members]
        return members[it.choose(len(members), f"{name}_member")]
    if isinstance(t, TagT):
        return VTag(VInt(t.tag), make_value(it, t.t, name + ".value"))
    if isinstance(t, Enc):
        from . import cbor
        v = make_value(it, t.t, name + "@dec")
        return cbor.enc(it, v)
    if isinstance(t, Lib):
        return VLib(t.kind, **{k: make_value(it, v, f"{name}.{k}") if isinstance(v, (T, type)) else v for k, v in t.fields.items()})
    if isinstance(t, ClsT):
        return VClass(info=it.get_class(t.relpath, t.cls))
    if isinstance(t, Any):
        from . import plain
        return plain.fresh(it, name)
    raise OutOfSubset(f"type {t!r}")


def snapshot(v: V, memo=None):
    """Structural copy of mutable containers/objects (scalars are immutable) for `old(...)`."""
    memo = {} if memo is None else memo
    if id(v) in memo:
        return memo[id(v)]
    if isinstance(v, VList):
        r = VList([])
        memo[id(v)] = r
        r.items = [snapshot(x, memo) for x in v.items]
        return r
    if isinstance(v, VDict):
        r = VDict(open_=v.open_, default_type=v.default_type, name=v.name, frozen=v.frozen)
        memo[id(v)] = r
        for k, e in v.entries.items():
            r.entries[k] = DEntry(k, snapshot(e.value, memo), e.present)
        return r
    if isinstance(v, VObj):
        r = VObj(v.cls)
        memo[id(v)] = r
        r.attrs = {k: snapshot(x, memo) for k, x in v.attrs.items()}
        return r
    if isinstance(v, VLib):
        r = VLib(v.kind)
        memo[id(v)] = r
        r.f = {k: snapshot(x, memo) if isinstance(x, V) else x for k, x in v.f.items()}
        return r
    if isinstance(v, VSeq):
        return VSeq(v.kind, v.e)
    if isinstance(v, VTag):
        return VTag(v.tag, snapshot(v.value, memo))
    if isinstance(v, VTuple):
        return VTuple([snapshot(x, memo) for x in v.items])
    return v
