"""Evaluation of contract clauses with the SAME expression translator as the code (one meaning, three uses)."""
from __future__ import annotations
import os
import z3

from .values import V, VBool, VInt, OutOfSubset, VClass
from . import front

SPEC_MODULE = "verif_specs"
SPEC_PATH = os.path.join(os.path.dirname(os.path.dirname(os.path.abspath(__file__))), "contracts", "specs.py")


def spec_env(it):
    """Namespace of contracts/specs.py, executed by the executor itself (spec functions are interpreted code)."""
    w = it.world
    if SPEC_MODULE not in w.modules:
        from .front import ModuleInfo
        from .interp import Env
        m = ModuleInfo(SPEC_MODULE, SPEC_PATH, "contracts/specs.py")
        w.modules[SPEC_MODULE] = m
        env = Env(m)
        m.ns = env
        for st in m.tree.body:
            it.exec_stmt(st, env)
    return w.modules[SPEC_MODULE].ns


def eval_clause(it, clause, env):
    """z3 Bool for a clause in pure (total, non-forking) mode."""
    saved = it.pure
    it.pure = True
    try:
        v = it.eval(clause.node, env)
    finally:
        it.pure = saved
    t = it.truth(v)
    return z3.BoolVal(t) if isinstance(t, bool) else t


def eval_value(it, clause, env) -> V:
    saved = it.pure
    it.pure = True
    try:
        return it.eval(clause.node, env)
    finally:
        it.pure = saved


def eval_lets(it, lets, env):
    for name, cl in lets:
        env.set(name, eval_value(it, cl, env))


def resolve_exception(it, name: str):
    import builtins
    from . import stubs
    if hasattr(builtins, name):
        return getattr(builtins, name)
    e = stubs.lib_exception(name)
    if e is not None:
        return e
    repo = {"GeneratorError": "suit_generator.exceptions", "SUITError": "suit_generator.exceptions",
            "SignerError": "ncs.sign_script", "FileTypeException": "suit_generator.input_output"}
    if name in repo:
        m = it.load_module(repo[name])
        v = m.ns.lookup(name)
        return it.pyclass_of(v)
    if name == "SystemExit":
        return SystemExit
    raise KeyError(f"unknown exception name {name}")
