"""Value model of the pyvc symbolic executor.

Every Python value the executor manipulates is one of the classes below.  Scalars carry an
optional concrete Python value (`conc`) next to their z3 term so that constant folding happens on
the Python side and dictionary keys / attribute names stay concrete.

Sorts:  int -> z3 Int (mathematical, exact for Python ints),  bool -> z3 Bool,
        bytes -> Seq(Int) with a 0..255 range fact per symbolic sequence (see Interp.fresh_bytes),
        str -> z3 String.
"""
from __future__ import annotations
import z3

BSort = z3.SeqSort(z3.IntSort())
SSort = z3.StringSort()


class OutOfSubset(Exception):
    """Raised when the code uses a construct the executor does not model (never silently skipped)."""


class V:
    conc = None

    def is_conc(self):
        return self.conc is not None


class VNone(V):
    def __repr__(self):
        return "None"

    def is_conc(self):
        return True


NONE = VNone()


class VInt(V):
    def __init__(self, x):
        if isinstance(x, bool):
            x = int(x)
        if isinstance(x, int):
            self.conc = x
            self._e = None
        else:
            x = z3.simplify(x)
            if z3.is_int_value(x):
                self.conc = x.as_long()
                self._e = None
            else:
                self.conc = None
                self._e = x

    @property
    def e(self):
        return z3.IntVal(self.conc) if self.conc is not None else self._e

    def __repr__(self):
        return f"Int({self.conc if self.conc is not None else self._e})"


class VBool(V):
    def __init__(self, x):
        if isinstance(x, bool):
            self.conc = x
            self._e = None
        else:
            x = z3.simplify(x)
            if z3.is_true(x):
                self.conc, self._e = True, None
            elif z3.is_false(x):
                self.conc, self._e = False, None
            else:
                self.conc, self._e = None, x

    @property
    def e(self):
        return z3.BoolVal(self.conc) if self.conc is not None else self._e

    def __repr__(self):
        return f"Bool({self.conc if self.conc is not None else self._e})"


def bytes_term(b: bytes):
    if len(b) == 0:
        return z3.Empty(BSort)
    units = [z3.Unit(z3.IntVal(x)) for x in b]
    return units[0] if len(units) == 1 else z3.Concat(*units)


class VBytes(V):
    def __init__(self, x):
        if isinstance(x, (bytes, bytearray)):
            self.conc = bytes(x)
            self._e = None
        else:
            self.conc = None
            self._e = x

    @property
    def e(self):
        if self._e is None:
            self._e = bytes_term(self.conc)
        return self._e

    def __repr__(self):
        return f"Bytes({self.conc.hex() if self.conc is not None else self._e})"


class VStr(V):
    def __init__(self, x):
        if isinstance(x, str):
            self.conc = x
            self._e = None
        else:
            x = z3.simplify(x)
            if z3.is_string_value(x):
                self.conc = x.as_string()
                self._e = None
            else:
                self.conc = None
                self._e = x

    @property
    def e(self):
        return z3.StringVal(self.conc) if self.conc is not None else self._e

    def __repr__(self):
        return f"Str({self.conc!r} )" if self.conc is not None else f"Str({self._e})"


class VFloat(V):
    """Only concrete floats (module constants); symbolic floats are outside the subset."""

    def __init__(self, x):
        self.conc = float(x)


class VList(V):
    """Python list of statically known length (elements may be symbolic). Mutable, identity matters."""

    def __init__(self, items):
        self.items = list(items)

    def __repr__(self):
        return f"List{self.items}"


class VTuple(V):
    def __init__(self, items):
        self.items = tuple(items)

    def __repr__(self):
        return f"Tuple{self.items}"


class VSeq(V):
    """Homogeneous list of *symbolic length* (z3 Seq of Int or String); value semantics, append = concat."""

    def __init__(self, kind, e):
        self.kind = kind  # 'str' | 'int'
        self.e = e

    def __repr__(self):
        return f"Seq[{self.kind}]({self.e})"


class DEntry:
    __slots__ = ("key", "value", "present")

    def __init__(self, key, value, present=True):
        self.key = key  # concrete python key (str/int/bytes/tuple/EnumMember/ClassRef ...)
        self.value = value
        self.present = present  # True or z3 Bool


class VDict(V):
    """Insertion-ordered dict with concrete keys; an entry may have a *symbolic presence* bit.

    `open_` dicts additionally stand for "any other key may or may not be present": a lookup of an
    unknown key materialises a fresh entry with symbolic presence (needs `default_type`).
    """

    def __init__(self, entries=None, open_=False, default_type=None, name="d", frozen=False):
        self.entries = {}  # key -> DEntry
        for k, v in (entries or []):
            self.entries[k] = DEntry(k, v, True)
        self.open_ = open_
        self.default_type = default_type
        self.name = name
        self.frozen = frozen  # models cbor2.frozendict: item assignment / pop raise TypeError / AttributeError

    def __repr__(self):
        return "Dict{" + ", ".join(f"{k!r}{'?' if e.present is not True else ''}: {e.value}" for k, e in self.entries.items()) + "}"


class VObj(V):
    def __init__(self, cls, attrs=None):
        self.cls = cls  # ClassInfo
        self.attrs = dict(attrs or {})

    def __repr__(self):
        return f"<{self.cls.name} {self.attrs}>"


class VClass(V):
    """Reference to a class: repo class (ClassInfo) or a real Python class (exceptions, library types)."""

    def __init__(self, info=None, py=None):
        self.info = info
        self.py = py

    @property
    def name(self):
        return self.info.name if self.info is not None else self.py.__name__

    def __repr__(self):
        return f"<class {self.name}>"

    def __eq__(self, o):
        return isinstance(o, VClass) and self.info is o.info and self.py is o.py

    def __hash__(self):
        return hash((id(self.info), id(self.py)))


class VEnum(V):
    """Member of an Enum class defined in the repository (read from the AST)."""

    def __init__(self, cls, name, value):
        self.cls = cls
        self.name = name
        self.value = value

    def __repr__(self):
        return f"{self.cls.name}.{self.name}"


class VFunc(V):
    def __init__(self, info, self_obj=None, cls=None):
        self.info = info  # FuncInfo
        self.self_obj = self_obj
        self.cls = cls  # class the function was looked up on (for classmethods / super())

    def __repr__(self):
        return f"<func {self.info.qualname}>"


class VBuiltin(V):
    """A name resolved to a stubbed builtin / library entity, e.g. 'len', 'cbor2.dumps', 'math'."""

    def __init__(self, name, self_obj=None):
        self.name = name
        self.self_obj = self_obj

    def __repr__(self):
        return f"<builtin {self.name}>"


class VTag(V):
    """cbor2.CBORTag(tag, value); `value` attribute is read-only as in cbor2 6."""

    def __init__(self, tag, value):
        self.tag = tag
        self.value = value

    def __repr__(self):
        return f"Tag({self.tag}, {self.value})"


class VOpaque(V):
    """A value the executor knows only through uninterpreted functions (sort `Val`)."""

    def __init__(self, e, kind="any"):
        self.e = e
        self.kind = kind

    def __repr__(self):
        return f"Opaque[{self.kind}]({self.e})"


class VExc(V):
    """An exception instance."""

    def __init__(self, cls, args=()):
        self.cls = cls  # python exception class
        self.args = args

    def __repr__(self):
        return f"{self.cls.__name__}()"


class PyRaise(Exception):
    def __init__(self, exc: VExc):
        self.exc = exc


def mk(x):
    """Lift a concrete Python value to a V."""
    if isinstance(x, V):
        return x
    if x is None:
        return NONE
    if isinstance(x, bool):
        return VBool(x)
    if isinstance(x, int):
        return VInt(x)
    if isinstance(x, str):
        return VStr(x)
    if isinstance(x, (bytes, bytearray)):
        return VBytes(bytes(x))
    if isinstance(x, float):
        return VFloat(x)
    if isinstance(x, list):
        return VList([mk(i) for i in x])
    if isinstance(x, tuple):
        return VTuple([mk(i) for i in x])
    if isinstance(x, dict):
        return VDict([(k, mk(v)) for k, v in x.items()])
    if isinstance(x, type):
        return VClass(py=x)
    raise OutOfSubset(f"cannot lift {type(x)}")


class SymKey:
    """A dictionary key that is a symbolic scalar (hashable by its term)."""

    def __init__(self, v):
        self.v = v
        self._k = (type(v).__name__, v.e.sexpr())

    def __hash__(self):
        return hash(self._k)

    def __eq__(self, o):
        return isinstance(o, SymKey) and self._k == o._k

    def __repr__(self):
        return f"SymKey({self.v})"


def dict_key(v):
    """Key object for a VDict: the concrete python key, or a SymKey for a symbolic scalar; None if unsupported."""
    k = conc_key(v)
    if k is not None or isinstance(v, VNone):
        return k
    if isinstance(v, (VStr, VInt, VBytes)) and v.conc is None:
        return SymKey(v)
    return None


def conc_key(v):
    """Concrete python key for dict/attribute use, or None if not concrete."""
    if isinstance(v, (VInt, VStr, VBytes, VBool)):
        return v.conc
    if isinstance(v, VNone):
        return None
    if isinstance(v, VEnum):
        return v
    if isinstance(v, VClass):
        return v
    if isinstance(v, VTuple):
        ks = [conc_key(i) for i in v.items]
        return tuple(ks)
    if isinstance(v, VObj):
        return v
    return None


class VLib(V):
    """Abstract model of a library object (UUID, hash context, IntelHex, Struct, file handle, Path, key ...)."""

    def __init__(self, kind, **fields):
        self.kind = kind
        self.f = fields

    def __repr__(self):
        return f"<lib {self.kind} {self.f}>"
